#![no_main]
//! Coverage-guided byte-level fuzzing of a real chmux endpoint behind a valid handshake
//! (property C08). The semantic oracle lives in `rvh::fuzz_c08::run_input`; libfuzzer-sys
//! aborts the process on any panic, on any thread.
use libfuzzer_sys::fuzz_target;

fuzz_target!(|data: &[u8]| {
    let out = rvh::fuzz_c08::run_input(data);
    if let Some((sig, msg)) = out.fail {
        panic!("{sig}: {msg}");
    }
});
