#![allow(clippy::type_complexity, clippy::too_many_arguments, dead_code, unused_imports)]
pub use rvh::engine;

#[path = "../props"]
mod props {
    #[path = "c01.rs"]
    pub mod c01;
    #[path = "c03.rs"]
    pub mod c03;
    #[path = "c02.rs"]
    pub mod c02;
}

fn main() {
    rvh::cli::run("C02", props::c02::main, props::c02::replay)
}
