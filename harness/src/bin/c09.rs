#![allow(clippy::type_complexity, clippy::too_many_arguments, dead_code, unused_imports)]
pub use rvh::engine;

#[path = "../props"]
mod props {
    #[path = "c09.rs"]
    pub mod c09;
}

fn main() {
    rvh::cli::run("C09", props::c09::main, props::c09::replay)
}
