#![allow(clippy::type_complexity, clippy::too_many_arguments, dead_code, unused_imports)]
pub use rvh::engine;

#[path = "../props"]
mod props {
    #[path = "c04.rs"]
    pub mod c04;
}

fn main() {
    rvh::cli::run("C04", props::c04::main, props::c04::replay)
}
