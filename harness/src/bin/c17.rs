#![allow(clippy::type_complexity, clippy::too_many_arguments, dead_code, unused_imports)]
pub use rvh::engine;

#[path = "../props"]
mod props {
    #[path = "c17.rs"]
    pub mod c17;
}

fn main() {
    rvh::cli::run("C17", props::c17::main, props::c17::replay)
}
