#![allow(clippy::type_complexity, clippy::too_many_arguments, dead_code, unused_imports)]
pub use rvh::engine;

#[path = "../props"]
mod props {
    #[path = "c07.rs"]
    pub mod c07;
}

fn main() {
    rvh::cli::run("C07", props::c07::main, props::c07::replay)
}
