#![allow(clippy::type_complexity, clippy::too_many_arguments, dead_code, unused_imports)]
pub use rvh::engine;

#[path = "../props"]
mod props {
    #[path = "c16.rs"]
    pub mod c16;
}

fn main() {
    rvh::cli::run("C16", props::c16::main, props::c16::replay)
}
