#![allow(clippy::type_complexity, clippy::too_many_arguments, dead_code, unused_imports)]
pub use rvh::engine;

#[path = "../props"]
mod props {
    #[path = "c13.rs"]
    pub mod c13;
}

fn main() {
    rvh::cli::run("C13", props::c13::main, props::c13::replay)
}
