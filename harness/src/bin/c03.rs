#![allow(clippy::type_complexity, clippy::too_many_arguments, dead_code, unused_imports)]
pub use rvh::engine;

#[path = "../props"]
mod props {
    #[path = "c01.rs"]
    pub mod c01;
    #[path = "c03.rs"]
    pub mod c03;
}

fn main() {
    rvh::cli::run("C03", props::c03::main, props::c03::replay)
}
