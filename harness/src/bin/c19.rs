#![allow(clippy::type_complexity, clippy::too_many_arguments, dead_code, unused_imports)]
pub use rvh::engine;

#[path = "../props"]
mod props {
    #[path = "c19.rs"]
    pub mod c19;
}

fn main() {
    rvh::cli::run("C19", props::c19::main, props::c19::replay)
}
