#![allow(clippy::type_complexity, clippy::too_many_arguments, dead_code, unused_imports)]
pub use rvh::engine;

#[path = "../props"]
mod props {
    #[path = "c09.rs"]
    pub mod c09;
    #[path = "c08.rs"]
    pub mod c08;
}

fn main() {
    rvh::cli::run("C08", props::c08::main, props::c08::replay)
}
