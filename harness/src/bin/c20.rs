#![allow(clippy::type_complexity, clippy::too_many_arguments, dead_code, unused_imports)]
pub use rvh::engine;

#[path = "../props"]
mod props {
    #[path = "c20.rs"]
    pub mod c20;
}

fn main() {
    rvh::cli::run("C20", props::c20::main, props::c20::replay)
}
