#![allow(clippy::type_complexity, clippy::too_many_arguments, dead_code, unused_imports)]
pub use rvh::engine;

#[path = "../props"]
mod props {
    #[path = "c01.rs"]
    pub mod c01;
    #[path = "c11.rs"]
    pub mod c11;
}

fn main() {
    rvh::cli::run("C11", props::c11::main, props::c11::replay)
}
