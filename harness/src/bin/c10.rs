#![allow(clippy::type_complexity, clippy::too_many_arguments, dead_code, unused_imports)]
pub use rvh::engine;

#[path = "../props"]
mod props {
    #[path = "c10.rs"]
    pub mod c10;
}

fn main() {
    rvh::cli::run("C10", props::c10::main, props::c10::replay)
}
