#![allow(clippy::type_complexity, clippy::too_many_arguments, dead_code, unused_imports)]
pub use rvh::engine;

#[path = "../props"]
mod props {
    #[path = "c12.rs"]
    pub mod c12;
}

fn main() {
    rvh::cli::run("C12", props::c12::main, props::c12::replay)
}
