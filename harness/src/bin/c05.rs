#![allow(clippy::type_complexity, clippy::too_many_arguments, dead_code, unused_imports)]
pub use rvh::engine;

#[path = "../props"]
mod props {
    #[path = "c05.rs"]
    pub mod c05;
}

fn main() {
    rvh::cli::run("C05", props::c05::main, props::c05::replay)
}
