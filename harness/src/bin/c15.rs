#![allow(clippy::type_complexity, clippy::too_many_arguments, dead_code, unused_imports)]
pub use rvh::engine;

#[path = "../props"]
mod props {
    #[path = "c15.rs"]
    pub mod c15;
}

fn main() {
    rvh::cli::run("C15", props::c15::main, props::c15::replay)
}
