#![allow(clippy::type_complexity, clippy::too_many_arguments, dead_code, unused_imports)]
pub use rvh::engine;

#[path = "../props"]
mod props {
    #[path = "c18.rs"]
    pub mod c18;
}

fn main() {
    rvh::cli::run("C18", props::c18::main, props::c18::replay)
}
