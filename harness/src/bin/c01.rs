#![allow(clippy::type_complexity, clippy::too_many_arguments, dead_code, unused_imports)]
pub use rvh::engine;

#[path = "../props"]
mod props {
    #[path = "c01.rs"]
    pub mod c01;
}

fn main() {
    rvh::cli::run("C01", props::c01::main, props::c01::replay)
}
