#![allow(clippy::type_complexity, clippy::too_many_arguments, dead_code, unused_imports)]
pub use rvh::engine;

#[path = "../props"]
mod props {
    #[path = "c14.rs"]
    pub mod c14;
}

fn main() {
    rvh::cli::run("C14", props::c14::main, props::c14::replay)
}
