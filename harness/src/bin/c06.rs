#![allow(clippy::type_complexity, clippy::too_many_arguments, dead_code, unused_imports)]
pub use rvh::engine;

#[path = "../props"]
mod props {
    #[path = "c06.rs"]
    pub mod c06;
}

fn main() {
    rvh::cli::run("C06", props::c06::main, props::c06::replay)
}
