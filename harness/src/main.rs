#![allow(clippy::type_complexity, clippy::too_many_arguments, dead_code, unused_imports)]
mod engine;
mod props;

use engine::runner::{Failure, Report, Tier};

type MainFn = fn(Tier, u64) -> Report;
type ReplayFn = fn(&str, serde_json::Value) -> (Option<Failure>, u32, u32);

fn registry() -> Vec<(&'static str, MainFn, ReplayFn)> {
    vec![
        ("C18", props::c18::main as MainFn, props::c18::replay as ReplayFn),
        ("C13", props::c13::main as MainFn, props::c13::replay as ReplayFn),
        ("C20", props::c20::main as MainFn, props::c20::replay as ReplayFn),
        ("C12", props::c12::main as MainFn, props::c12::replay as ReplayFn),
        ("C17", props::c17::main as MainFn, props::c17::replay as ReplayFn),
        ("C19", props::c19::main as MainFn, props::c19::replay as ReplayFn),
        ("C16", props::c16::main as MainFn, props::c16::replay as ReplayFn),
        ("C14", props::c14::main as MainFn, props::c14::replay as ReplayFn),
        ("C15", props::c15::main as MainFn, props::c15::replay as ReplayFn),
        ("C01", props::c01::main as MainFn, props::c01::replay as ReplayFn),
        ("C02", props::c02::main as MainFn, props::c02::replay as ReplayFn),
        ("C03", props::c03::main as MainFn, props::c03::replay as ReplayFn),
        ("C06", props::c06::main as MainFn, props::c06::replay as ReplayFn),
        ("C07", props::c07::main as MainFn, props::c07::replay as ReplayFn),
        ("C08", props::c08::main as MainFn, props::c08::replay as ReplayFn),
        ("C09", props::c09::main as MainFn, props::c09::replay as ReplayFn),
        ("C10", props::c10::main as MainFn, props::c10::replay as ReplayFn),
        ("C11", props::c11::main as MainFn, props::c11::replay as ReplayFn),
    ]
}

fn usage() -> ! {
    eprintln!("usage: vcheck <Cnn> [--tier quick|thorough] [--replay <file>] [--verbose]");
    std::process::exit(2)
}

fn main() {
    let args: Vec<String> = std::env::args().skip(1).collect();
    if args.is_empty() {
        usage();
    }
    let id = args[0].clone();
    let mut tier = match std::env::var("VERIF_TIER").ok().as_deref() {
        Some("thorough") => Tier::Thorough,
        _ => Tier::Quick,
    };
    let mut replay: Option<String> = None;
    let mut i = 1;
    while i < args.len() {
        match args[i].as_str() {
            "--tier" => {
                i += 1;
                tier = match args.get(i).map(|s| s.as_str()) {
                    Some("quick") => Tier::Quick,
                    Some("thorough") => Tier::Thorough,
                    _ => usage(),
                };
            }
            "--replay" => {
                i += 1;
                replay = Some(args.get(i).cloned().unwrap_or_else(|| usage()));
            }
            "--verbose" => engine::sim::set_verbose(true),
            _ => usage(),
        }
        i += 1;
    }
    let seed: u64 = std::env::var("VERIF_SEED").ok().and_then(|s| s.parse::<i64>().ok()).map(|v| v as u64).unwrap_or(0);
    engine::sim::install_panic_hook();
    let Some((_, main_fn, replay_fn)) = registry().into_iter().find(|(n, _, _)| *n == id) else {
        eprintln!("unknown property {id}");
        std::process::exit(2)
    };

    // Wall-clock watchdog: a run that takes too long is inconclusive, never a violation.
    let budget_s: u64 = std::env::var("VERIF_WATCHDOG_S")
        .ok()
        .and_then(|s| s.parse().ok())
        .unwrap_or(match tier {
            Tier::Quick => 900,
            Tier::Thorough => 6 * 3600,
        });
    std::thread::spawn(move || {
        std::thread::sleep(std::time::Duration::from_secs(budget_s));
        println!("INCONCLUSIVE property={id_w} watchdog after {budget_s}s", id_w = std::env::args().nth(1).unwrap_or_default());
        std::process::exit(2);
    });

    if let Some(path) = replay {
        let (part, case) = engine::runner::load_replay(&path);
        let (fail, hits, times) = replay_fn(&part, case);
        match fail {
            Some(f) => {
                let known = engine::runner::load_known();
                if let Some(k) = known.iter().find(|k| k.property == id && k.status == "known" && k.signature == f.sig) {
                    println!("KNOWN-FINDING: property={id} {} [{}]", k.what, f.sig);
                    println!("reproduced {hits}/{times}: {}", f.msg);
                    std::process::exit(0);
                }
                println!("VIOLATION property={id} replay={path}");
                println!("  signature: {}", f.sig);
                println!("  reproduced {hits}/{times}: {}", f.msg);
                std::process::exit(1);
            }
            None => {
                println!("replay of {path}: property {id} held ({times} runs)");
                std::process::exit(0);
            }
        }
    }

    let rep = main_fn(tier, seed);
    rep.write_evidence();
    println!(
        "{id} tier={} seed={seed} evaluations={} distinct_nontrivial={} inconclusive={} violations={} wall={:.1}s",
        tier.name(),
        rep.evaluations,
        rep.nontrivial.len(),
        rep.inconclusive,
        rep.violations.len(),
        rep.start.elapsed().as_secs_f64()
    );
    for (k, v) in &rep.classes {
        println!("  class {k}: {v}");
    }
    std::process::exit(rep.exit_code());
}
