//! Independent reference codec for chmux protocol version 3.
//!
//! Written from the documented wire layout (message codes, flag bits, little-endian
//! fields); does not call into remoc.

use serde::{Deserialize, Serialize};

pub const MAGIC: &[u8; 6] = b"CHMUX\0";

#[derive(Clone, Debug, PartialEq, Eq, Serialize, Deserialize, Hash)]
pub struct RefCfg {
    pub timeout_ms: u64,
    pub chunk_size: u32,
    pub receive_buffer: u32,
    pub connect_queue: u16,
}

#[derive(Clone, Debug, PartialEq, Eq, Serialize, Deserialize, Hash)]
pub enum RefMsg {
    Reset,
    Hello { version: u8, cfg: RefCfg },
    Ping,
    OpenPort { client_port: u32, wait: bool, id: Option<u32> },
    PortOpened { client_port: u32, server_port: u32 },
    Rejected { client_port: u32, no_ports: bool },
    Data { port: u32, first: bool, last: bool },
    PortData { port: u32, first: bool, last: bool, wait: bool, ports: Vec<u32>, ids: Option<Vec<u32>> },
    PortCredits { port: u32, credits: u32 },
    SendFinish { port: u32 },
    ReceiveClose { port: u32 },
    ReceiveFinish { port: u32 },
    ClientFinish,
    ListenerFinish,
    Goodbye,
}

impl RefMsg {
    pub fn kind(&self) -> &'static str {
        match self {
            RefMsg::Reset => "Reset",
            RefMsg::Hello { .. } => "Hello",
            RefMsg::Ping => "Ping",
            RefMsg::OpenPort { .. } => "OpenPort",
            RefMsg::PortOpened { .. } => "PortOpened",
            RefMsg::Rejected { .. } => "Rejected",
            RefMsg::Data { .. } => "Data",
            RefMsg::PortData { .. } => "PortData",
            RefMsg::PortCredits { .. } => "PortCredits",
            RefMsg::SendFinish { .. } => "SendFinish",
            RefMsg::ReceiveClose { .. } => "ReceiveClose",
            RefMsg::ReceiveFinish { .. } => "ReceiveFinish",
            RefMsg::ClientFinish => "ClientFinish",
            RefMsg::ListenerFinish => "ListenerFinish",
            RefMsg::Goodbye => "Goodbye",
        }
    }

    pub fn encode(&self) -> Vec<u8> {
        let mut v = Vec::new();
        let u32le = |v: &mut Vec<u8>, x: u32| v.extend_from_slice(&x.to_le_bytes());
        match self {
            RefMsg::Reset => v.push(1),
            RefMsg::Hello { version, cfg } => {
                v.push(2);
                v.extend_from_slice(MAGIC);
                v.push(*version);
                v.extend_from_slice(&cfg.timeout_ms.to_le_bytes());
                u32le(&mut v, cfg.chunk_size);
                u32le(&mut v, cfg.receive_buffer);
                v.extend_from_slice(&cfg.connect_queue.to_le_bytes());
            }
            RefMsg::Ping => v.push(3),
            RefMsg::OpenPort { client_port, wait, id } => {
                v.push(4);
                u32le(&mut v, *client_port);
                v.push((*wait as u8) | ((id.is_some() as u8) << 1));
                if let Some(id) = id {
                    u32le(&mut v, *id);
                }
            }
            RefMsg::PortOpened { client_port, server_port } => {
                v.push(5);
                u32le(&mut v, *client_port);
                u32le(&mut v, *server_port);
            }
            RefMsg::Rejected { client_port, no_ports } => {
                v.push(6);
                u32le(&mut v, *client_port);
                v.push(*no_ports as u8);
            }
            RefMsg::Data { port, first, last } => {
                v.push(7);
                u32le(&mut v, *port);
                v.push((*first as u8) | ((*last as u8) << 1));
            }
            RefMsg::PortData { port, first, last, wait, ports, ids } => {
                v.push(8);
                u32le(&mut v, *port);
                v.push(
                    (*first as u8) | ((*last as u8) << 1) | ((*wait as u8) << 2) | ((ids.is_some() as u8) << 3),
                );
                for (i, p) in ports.iter().enumerate() {
                    u32le(&mut v, *p);
                    if let Some(ids) = ids {
                        u32le(&mut v, ids[i]);
                    }
                }
            }
            RefMsg::PortCredits { port, credits } => {
                v.push(9);
                u32le(&mut v, *port);
                u32le(&mut v, *credits);
            }
            RefMsg::SendFinish { port } => {
                v.push(10);
                u32le(&mut v, *port);
            }
            RefMsg::ReceiveClose { port } => {
                v.push(11);
                u32le(&mut v, *port);
            }
            RefMsg::ReceiveFinish { port } => {
                v.push(12);
                u32le(&mut v, *port);
            }
            RefMsg::ClientFinish => v.push(13),
            RefMsg::ListenerFinish => v.push(14),
            RefMsg::Goodbye => v.push(15),
        }
        v
    }

    /// Decodes a frame. Trailing bytes after fixed-size messages are ignored (as the
    /// documented layout reserves up to 16 bytes per message for extension).
    pub fn decode(b: &[u8]) -> Result<RefMsg, String> {
        let mut r = Rd { b, p: 0 };
        let code = r.u8()?;
        Ok(match code {
            1 => RefMsg::Reset,
            2 => {
                let magic = r.take(6)?;
                if magic != MAGIC {
                    return Err("bad magic".into());
                }
                let version = r.u8()?;
                let timeout_ms = r.u64()?;
                let chunk_size = r.u32()?;
                let receive_buffer = r.u32()?;
                let connect_queue = r.u16()?;
                if chunk_size < 4 {
                    return Err("chunk_size < 4".into());
                }
                if receive_buffer < 4 {
                    return Err("receive_buffer < 4".into());
                }
                if connect_queue < 1 {
                    return Err("connect_queue < 1".into());
                }
                RefMsg::Hello { version, cfg: RefCfg { timeout_ms, chunk_size, receive_buffer, connect_queue } }
            }
            3 => RefMsg::Ping,
            4 => {
                let client_port = r.u32()?;
                let flags = r.u8()?;
                let id = if flags & 2 != 0 { Some(r.u32()?) } else { None };
                RefMsg::OpenPort { client_port, wait: flags & 1 != 0, id }
            }
            5 => RefMsg::PortOpened { client_port: r.u32()?, server_port: r.u32()? },
            6 => RefMsg::Rejected { client_port: r.u32()?, no_ports: r.u8()? & 1 != 0 },
            7 => {
                let port = r.u32()?;
                let flags = r.u8()?;
                RefMsg::Data { port, first: flags & 1 != 0, last: flags & 2 != 0 }
            }
            8 => {
                let port = r.u32()?;
                let flags = r.u8()?;
                let with_ids = flags & 8 != 0;
                let mut ports = Vec::new();
                let mut ids = Vec::new();
                while r.remaining() >= 4 {
                    ports.push(r.u32()?);
                    if with_ids {
                        ids.push(r.u32()?);
                    }
                }
                RefMsg::PortData {
                    port,
                    first: flags & 1 != 0,
                    last: flags & 2 != 0,
                    wait: flags & 4 != 0,
                    ports,
                    ids: with_ids.then_some(ids),
                }
            }
            9 => RefMsg::PortCredits { port: r.u32()?, credits: r.u32()? },
            10 => RefMsg::SendFinish { port: r.u32()? },
            11 => RefMsg::ReceiveClose { port: r.u32()? },
            12 => RefMsg::ReceiveFinish { port: r.u32()? },
            13 => RefMsg::ClientFinish,
            14 => RefMsg::ListenerFinish,
            15 => RefMsg::Goodbye,
            c => return Err(format!("unknown message code {c}")),
        })
    }
}

struct Rd<'a> {
    b: &'a [u8],
    p: usize,
}

impl<'a> Rd<'a> {
    fn remaining(&self) -> usize {
        self.b.len() - self.p
    }
    fn take(&mut self, n: usize) -> Result<&'a [u8], String> {
        if self.remaining() < n {
            return Err("truncated".into());
        }
        let s = &self.b[self.p..self.p + n];
        self.p += n;
        Ok(s)
    }
    fn u8(&mut self) -> Result<u8, String> {
        Ok(self.take(1)?[0])
    }
    fn u16(&mut self) -> Result<u16, String> {
        Ok(u16::from_le_bytes(self.take(2)?.try_into().unwrap()))
    }
    fn u32(&mut self) -> Result<u32, String> {
        Ok(u32::from_le_bytes(self.take(4)?.try_into().unwrap()))
    }
    fn u64(&mut self) -> Result<u64, String> {
        Ok(u64::from_le_bytes(self.take(8)?.try_into().unwrap()))
    }
}

/// A decoded wire event: one protocol message (a Data message includes its payload frame).
#[derive(Clone, Debug)]
pub struct WireMsg {
    pub dir: u8,
    /// Index of the (header) frame in its direction.
    pub idx: u32,
    pub delivered: bool,
    pub t_ms: u64,
    pub msg: RefMsg,
    /// Payload length for Data messages (None if the payload frame has not been seen).
    pub payload: Option<bytes::Bytes>,
    /// Position in the tap at which this message became complete.
    pub tap_pos: usize,
}

/// Decodes the tap into protocol messages, separately for "sent" and "delivered" events but in
/// overall tap order. Undecodable frames yield an error entry.
pub fn decode_tap(tap: &[super::link::TapEv]) -> Result<Vec<WireMsg>, String> {
    // pending Data header per (dir, delivered)
    let mut pending: [[Option<WireMsg>; 2]; 2] = [[None, None], [None, None]];
    let mut out = Vec::new();
    for (pos, ev) in tap.iter().enumerate() {
        let slot = &mut pending[ev.dir as usize][ev.delivered as usize];
        if let Some(mut hdr) = slot.take() {
            hdr.payload = Some(ev.bytes.clone());
            hdr.tap_pos = pos;
            out.push(hdr);
            continue;
        }
        let msg = RefMsg::decode(&ev.bytes)
            .map_err(|e| format!("undecodable frame dir={} idx={} {:?}: {e}", ev.dir, ev.idx, &ev.bytes[..]))?;
        let wm = WireMsg {
            dir: ev.dir,
            idx: ev.idx,
            delivered: ev.delivered,
            t_ms: ev.t_ms,
            msg,
            payload: None,
            tap_pos: pos,
        };
        if matches!(wm.msg, RefMsg::Data { .. }) {
            *slot = Some(wm);
        } else {
            out.push(wm);
        }
    }
    Ok(out)
}
