//! Wire monitors: decode the tap with the reference codec and check invariants over every
//! prefix of the wire trace (credit ledger, chunk size, port table, request ledger).

use std::collections::{HashMap, HashSet};

use super::{
    link::TapEv,
    refcodec::{decode_tap, RefCfg, RefMsg, WireMsg},
};

#[derive(Clone, Debug, Default)]
pub struct Flow {
    /// Cost put on the link by the data sender.
    pub sent_cost: u64,
    /// Cost delivered to the data receiver.
    pub delivered_cost: u64,
    /// Credits put on the link by the data receiver.
    pub credits_sent: u64,
    /// Credits delivered to the data sender.
    pub credits_delivered: u64,
    /// Max of sent_cost - credits_delivered.
    pub max_outstanding: u64,
    pub data_msgs: u64,
    pub port_msgs: u64,
    pub empty_port_msgs: u64,
    pub credit_msgs: u64,
    /// Longest virtual delay of a credit frame (ms).
    pub max_credit_delay_ms: u64,
}

#[derive(Clone, Debug)]
pub struct PortPair {
    /// Local port number on endpoint 0 (A) and endpoint 1 (B).
    pub ports: [u32; 2],
    /// Endpoint that requested the port.
    pub client: u8,
    /// flows[d] = data flowing in link direction d (0: A->B).
    pub flows: [Flow; 2],
    /// Finish messages seen (sent on link): [dir][SendFinish, ReceiveFinish]
    pub send_finish: [bool; 2],
    pub recv_finish: [bool; 2],
    pub recv_close: [bool; 2],
    pub open: bool,
}

#[derive(Clone, Debug)]
pub struct Violation {
    pub sig: String,
    pub msg: String,
}

#[derive(Clone, Debug, Default)]
pub struct WireStats {
    pub pairs: Vec<PortPair>,
    /// Advertised configuration of endpoint 0 and 1.
    pub cfg: [Option<RefCfg>; 2],
    pub version: [Option<u8>; 2],
    pub violations: Vec<Violation>,
    /// Max number of simultaneously unanswered OpenPort requests per requesting endpoint.
    pub max_unanswered: [usize; 2],
    /// Max simultaneously open (by wire) ports per endpoint.
    pub max_open: [usize; 2],
    pub msgs: Vec<WireMsg>,
    pub kinds: HashMap<&'static str, u64>,
    /// Sender was at the credit limit (outstanding + 1 > buffer) at least once.
    pub hit_credit_limit: bool,
    pub goodbye: [bool; 2],
}

fn cost_data(len: usize) -> u64 {
    (len as u64).max(1)
}

/// Builds the wire model from the tap and checks all invariants at every prefix.
pub fn analyze(tap: &[TapEv]) -> WireStats {
    let mut st = WireStats::default();
    let msgs = match decode_tap(tap) {
        Ok(m) => m,
        Err(e) => {
            st.violations.push(Violation { sig: "wire/undecodable".into(), msg: e });
            return st;
        }
    };

    // (endpoint, local port) -> pair index
    let mut by_port: HashMap<(u8, u32), usize> = HashMap::new();
    // outstanding open requests: (client endpoint, client port) -> via OpenPort?
    let mut pending: HashMap<(u8, u32), bool> = HashMap::new();
    // delivered-side tracking of pending requests is not needed.
    let mut unanswered_client: [HashSet<u32>; 2] = [HashSet::new(), HashSet::new()];
    // credit frame send time for delay measurement: (dir, idx) -> t
    let mut credit_sent_at: HashMap<(u8, u32), u64> = HashMap::new();

    for m in &msgs {
        let d = m.dir as usize;
        let sender_ep = m.dir; // endpoint that put the frame on the link
        let recv_ep = 1 - m.dir;
        if !m.delivered {
            *st.kinds.entry(m.msg.kind()).or_insert(0) += 1;
        }
        match &m.msg {
            RefMsg::Hello { version, cfg } => {
                if !m.delivered {
                    st.cfg[d] = Some(cfg.clone());
                    st.version[d] = Some(*version);
                }
            }
            RefMsg::Goodbye => {
                if !m.delivered {
                    st.goodbye[d] = true;
                }
            }
            RefMsg::OpenPort { client_port, .. } => {
                if !m.delivered {
                    pending.insert((sender_ep, *client_port), true);
                    unanswered_client[d].insert(*client_port);
                    st.max_unanswered[d] = st.max_unanswered[d].max(unanswered_client[d].len());
                    if let Some(cfg) = &st.cfg[recv_ep as usize] {
                        if unanswered_client[d].len() > cfg.connect_queue as usize {
                            st.violations.push(Violation {
                                sig: "wire/connect-queue-exceeded".into(),
                                msg: format!(
                                    "endpoint {} has {} unanswered OpenPort requests, peer advertised connect_queue {}",
                                    sender_ep,
                                    unanswered_client[d].len(),
                                    cfg.connect_queue
                                ),
                            });
                        }
                    }
                }
            }
            RefMsg::PortOpened { client_port, server_port } => {
                if !m.delivered {
                    // sender_ep is the server; client endpoint is recv_ep.
                    let client_ep = recv_ep;
                    if pending.remove(&(client_ep, *client_port)).is_none() {
                        st.violations.push(Violation {
                            sig: "wire/portopened-without-request".into(),
                            msg: format!("PortOpened for client port {client_port} without outstanding request"),
                        });
                    }
                    unanswered_client[client_ep as usize].remove(client_port);
                    let mut ports = [0u32; 2];
                    ports[client_ep as usize] = *client_port;
                    ports[sender_ep as usize] = *server_port;
                    for ep in 0..2u8 {
                        if let Some(&old) = by_port.get(&(ep, ports[ep as usize])) {
                            if st.pairs[old].open {
                                st.violations.push(Violation {
                                    sig: "wire/port-number-reused-while-open".into(),
                                    msg: format!(
                                        "endpoint {ep} port {} opened while previous incarnation not finished",
                                        ports[ep as usize]
                                    ),
                                });
                            }
                        }
                    }
                    let idx = st.pairs.len();
                    st.pairs.push(PortPair {
                        ports,
                        client: client_ep,
                        flows: [Flow::default(), Flow::default()],
                        send_finish: [false; 2],
                        recv_finish: [false; 2],
                        recv_close: [false; 2],
                        open: true,
                    });
                    by_port.insert((0, ports[0]), idx);
                    by_port.insert((1, ports[1]), idx);
                    for ep in 0..2usize {
                        let open = st.pairs.iter().filter(|p| p.open).count();
                        st.max_open[ep] = st.max_open[ep].max(open);
                    }
                }
            }
            RefMsg::Rejected { client_port, .. } => {
                if !m.delivered {
                    let client_ep = recv_ep;
                    if pending.remove(&(client_ep, *client_port)).is_none() {
                        st.violations.push(Violation {
                            sig: "wire/rejected-without-request".into(),
                            msg: format!("Rejected for client port {client_port} without outstanding request"),
                        });
                    }
                    unanswered_client[client_ep as usize].remove(client_port);
                }
            }
            RefMsg::Data { port, .. } => {
                let len = m.payload.as_ref().map(|p| p.len()).unwrap_or(0);
                let Some(&pi) = by_port.get(&(recv_ep, *port)) else {
                    if !m.delivered {
                        st.violations.push(Violation {
                            sig: "wire/data-unknown-port".into(),
                            msg: format!("Data for unknown port {port} of endpoint {recv_ep}"),
                        });
                    }
                    continue;
                };
                let rcfg = st.cfg[recv_ep as usize].clone();
                let f = &mut st.pairs[pi].flows[d];
                if m.delivered {
                    f.delivered_cost += cost_data(len);
                } else {
                    f.data_msgs += 1;
                    f.sent_cost += cost_data(len);
                    let out = f.sent_cost.saturating_sub(f.credits_delivered);
                    f.max_outstanding = f.max_outstanding.max(out);
                    if let Some(rcfg) = rcfg {
                        if len as u64 > rcfg.chunk_size as u64 {
                            st.violations.push(Violation {
                                sig: "wire/chunk-size-exceeded".into(),
                                msg: format!(
                                    "Data frame of {len} bytes on port {port} exceeds advertised chunk_size {}",
                                    rcfg.chunk_size
                                ),
                            });
                        }
                        if out > rcfg.receive_buffer as u64 {
                            st.violations.push(Violation {
                                sig: "wire/receive-buffer-exceeded".into(),
                                msg: format!(
                                    "dir {d} port {port}: sent {} - credits delivered {} = {} > advertised receive_buffer {}",
                                    f.sent_cost, f.credits_delivered, out, rcfg.receive_buffer
                                ),
                            });
                        }
                        if out + 1 > rcfg.receive_buffer as u64 {
                            st.hit_credit_limit = true;
                        }
                    }
                }
            }
            RefMsg::PortData { port, ports, .. } => {
                let cost = 4 * ports.len() as u64;
                if !m.delivered {
                    for p in ports {
                        pending.insert((sender_ep, *p), false);
                    }
                }
                let Some(&pi) = by_port.get(&(recv_ep, *port)) else {
                    if !m.delivered {
                        st.violations.push(Violation {
                            sig: "wire/portdata-unknown-port".into(),
                            msg: format!("PortData for unknown port {port} of endpoint {recv_ep}"),
                        });
                    }
                    continue;
                };
                let rcfg = st.cfg[recv_ep as usize].clone();
                let f = &mut st.pairs[pi].flows[d];
                if m.delivered {
                    f.delivered_cost += cost;
                } else {
                    f.port_msgs += 1;
                    if ports.is_empty() {
                        f.empty_port_msgs += 1;
                    }
                    f.sent_cost += cost;
                    let out = f.sent_cost.saturating_sub(f.credits_delivered);
                    f.max_outstanding = f.max_outstanding.max(out);
                    if let Some(rcfg) = rcfg {
                        if cost > rcfg.chunk_size as u64 {
                            st.violations.push(Violation {
                                sig: "wire/chunk-size-exceeded-ports".into(),
                                msg: format!(
                                    "PortData with {} ports on port {port} exceeds advertised chunk_size {}",
                                    ports.len(),
                                    rcfg.chunk_size
                                ),
                            });
                        }
                        if out > rcfg.receive_buffer as u64 {
                            st.violations.push(Violation {
                                sig: "wire/receive-buffer-exceeded".into(),
                                msg: format!(
                                    "dir {d} port {port}: sent {} - credits delivered {} = {} > advertised receive_buffer {} (port data)",
                                    f.sent_cost, f.credits_delivered, out, rcfg.receive_buffer
                                ),
                            });
                        }
                        if out + 4 > rcfg.receive_buffer as u64 {
                            st.hit_credit_limit = true;
                        }
                    }
                }
            }
            RefMsg::PortCredits { port, credits } => {
                // Flows in the opposite direction of this message.
                let Some(&pi) = by_port.get(&(recv_ep, *port)) else {
                    if !m.delivered {
                        st.violations.push(Violation {
                            sig: "wire/credits-unknown-port".into(),
                            msg: format!("PortCredits for unknown port {port} of endpoint {recv_ep}"),
                        });
                    }
                    continue;
                };
                let f = &mut st.pairs[pi].flows[1 - d];
                if m.delivered {
                    f.credits_delivered += *credits as u64;
                    if let Some(t0) = credit_sent_at.get(&(m.dir, m.idx)) {
                        f.max_credit_delay_ms = f.max_credit_delay_ms.max(m.t_ms.saturating_sub(*t0));
                    }
                } else {
                    credit_sent_at.insert((m.dir, m.idx), m.t_ms);
                    f.credit_msgs += 1;
                    f.credits_sent += *credits as u64;
                    if f.credits_sent > f.delivered_cost {
                        st.violations.push(Violation {
                            sig: "wire/credits-exceed-consumed".into(),
                            msg: format!(
                                "endpoint {sender_ep} granted {} credits in total on port {port} but only {} were delivered to it",
                                f.credits_sent, f.delivered_cost
                            ),
                        });
                    }
                }
            }
            RefMsg::SendFinish { port } | RefMsg::ReceiveFinish { port } | RefMsg::ReceiveClose { port } => {
                if m.delivered {
                    continue;
                }
                let Some(&pi) = by_port.get(&(recv_ep, *port)) else {
                    st.violations.push(Violation {
                        sig: "wire/finish-unknown-port".into(),
                        msg: format!("{} for unknown port {port} of endpoint {recv_ep}", m.msg.kind()),
                    });
                    continue;
                };
                let p = &mut st.pairs[pi];
                match &m.msg {
                    RefMsg::SendFinish { .. } => p.send_finish[d] = true,
                    RefMsg::ReceiveFinish { .. } => p.recv_finish[d] = true,
                    _ => p.recv_close[d] = true,
                }
                if p.send_finish == [true, true] && p.recv_finish == [true, true] {
                    p.open = false;
                }
            }
            RefMsg::Reset | RefMsg::Ping | RefMsg::ClientFinish | RefMsg::ListenerFinish => {}
        }
    }
    st.msgs = msgs;
    st
}

impl WireStats {
    pub fn first_violation(&self) -> Option<&Violation> {
        self.violations.first()
    }

    /// Frames (messages) sent in a direction of a given kind.
    pub fn count(&self, kind: &str) -> u64 {
        self.kinds.iter().filter(|(k, _)| **k == kind).map(|(_, v)| *v).sum()
    }
}
