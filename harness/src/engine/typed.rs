//! Helpers for typed (rch) channels over the simulated transport.

use remoc::{
    chmux,
    rch::base,
    RemoteSend,
};

use super::{
    gen::{connect_pair, GCfg, MuxResult, Sched},
    link::{Fault, SimLink},
    sim,
};

/// A chmux connection with one base channel in each direction.
pub struct TypedConn<T> {
    pub link: SimLink,
    /// A -> B
    pub a_tx: base::Sender<T>,
    pub b_rx: base::Receiver<T>,
    /// B -> A
    pub b_tx: base::Sender<T>,
    pub a_rx: base::Receiver<T>,
    pub client_a: chmux::Client,
    pub client_b: chmux::Client,
    pub listener_a: chmux::Listener,
    pub listener_b: chmux::Listener,
    pub run_a: tokio::task::JoinHandle<MuxResult>,
    pub run_b: tokio::task::JoinHandle<MuxResult>,
}

pub async fn typed_conn<T: RemoteSend>(cfg_a: &GCfg, cfg_b: &GCfg, s: &Sched, faults: Vec<Fault>) -> Result<TypedConn<T>, String> {
    let (link, a, b) = connect_pair(cfg_a, cfg_b, s, faults).await?;
    let mut la = a.listener;
    let mut lb = b.listener;
    let r = sim::within(3000, async { tokio::join!(a.client.connect(), lb.accept()) }).await;
    let ((atx, arx), (btx, brx)) = match r {
        Ok((Ok(c), Ok(Some(l)))) => (c, l),
        _ => return Err("typed_conn: port setup failed".into()),
    };
    // One raw port pair is enough: A.tx -> B.rx and B.tx -> A.rx.
    let _ = &mut la;
    Ok(TypedConn {
        link,
        a_tx: base::Sender::new(atx),
        b_rx: base::Receiver::new(brx),
        b_tx: base::Sender::new(btx),
        a_rx: base::Receiver::new(arx),
        client_a: a.client,
        client_b: b.client,
        listener_a: la,
        listener_b: lb,
        run_a: a.run,
        run_b: b.run,
    })
}

/// Roomy configuration for typed-channel checks (no helper threads: max_data_size large).
pub fn typed_cfg(chunk_size: u32, receive_buffer: u32) -> GCfg {
    GCfg {
        chunk_size,
        receive_buffer,
        max_data_size: 1 << 20,
        shared_q: 4,
        tsend_q: 4,
        trecv_q: 4,
        connect_queue: 16,
        max_ports: 256,
        max_received_ports: 64,
        timeout_s: Some(60),
    }
}

/// Sends a value from A to B over the base channel (both halves driven concurrently).
pub async fn move_a_to_b<T: RemoteSend>(c: &mut TypedConn<T>, v: T) -> Result<T, String> {
    let r = sim::within(3000, async { tokio::join!(c.a_tx.send(v), c.b_rx.recv()) }).await;
    match r {
        Ok((Ok(()), Ok(Some(v)))) => Ok(v),
        Ok((s, r)) => Err(format!("transfer A->B failed: send {:?} recv {:?}", s.err().map(|e| e.kind), r.map(|o| o.is_some()))),
        Err(()) => Err("transfer A->B timed out".into()),
    }
}

pub async fn move_b_to_a<T: RemoteSend>(c: &mut TypedConn<T>, v: T) -> Result<T, String> {
    let r = sim::within(3000, async { tokio::join!(c.b_tx.send(v), c.a_rx.recv()) }).await;
    match r {
        Ok((Ok(()), Ok(Some(v)))) => Ok(v),
        Ok((s, r)) => Err(format!("transfer B->A failed: send {:?} recv {:?}", s.err().map(|e| e.kind), r.map(|o| o.is_some()))),
        Err(()) => Err("transfer B->A timed out".into()),
    }
}
