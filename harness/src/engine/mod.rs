pub mod gen;
pub mod link;
pub mod refcodec;
pub mod runner;
pub mod sim;
pub mod wire;
pub mod peer;
pub mod typed;
