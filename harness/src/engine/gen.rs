//! Common generated types: endpoint configuration, schedules, connection setup.

use proptest::prelude::*;
use serde::{Deserialize, Serialize};
use std::{io, time::Duration};
use tokio::task::JoinHandle;

use super::{
    link::{Delay, Endpoint, Fault, SimLink, SimSink, SimStream},
    sim::{spawn_actor, Tape},
};
use remoc::chmux::{self, ChMux, ChMuxError, Client, Listener};

pub type MuxError = ChMuxError<io::Error, io::Error>;
pub type MuxResult = Result<(), MuxError>;

#[derive(Clone, Debug, Serialize, Deserialize, PartialEq, Eq, Hash)]
pub struct GCfg {
    pub chunk_size: u32,
    pub receive_buffer: u32,
    pub max_data_size: usize,
    pub shared_q: usize,
    pub tsend_q: usize,
    pub trecv_q: usize,
    pub connect_queue: u16,
    pub max_ports: u32,
    pub max_received_ports: usize,
    /// Connection timeout in seconds (None = disabled).
    pub timeout_s: Option<u32>,
}

impl GCfg {
    pub fn to_cfg(&self) -> chmux::Cfg {
        chmux::Cfg {
            connection_timeout: self.timeout_s.map(|s| Duration::from_secs(s as u64)),
            max_ports: self.max_ports,
            max_data_size: self.max_data_size,
            max_received_ports: self.max_received_ports,
            chunk_size: self.chunk_size,
            receive_buffer: self.receive_buffer,
            shared_send_queue: self.shared_q,
            transport_send_queue: self.tsend_q,
            transport_receive_queue: self.trecv_q,
            connect_queue: self.connect_queue,
            ..Default::default()
        }
    }

    pub fn roomy() -> Self {
        GCfg {
            chunk_size: 64,
            receive_buffer: 256,
            max_data_size: 4096,
            shared_q: 4,
            tsend_q: 4,
            trecv_q: 4,
            connect_queue: 8,
            max_ports: 64,
            max_received_ports: 16,
            timeout_s: Some(60),
        }
    }
}

/// Boundary-biased small sizes.
pub fn small_u32(lo: u32, hi: u32) -> BoxedStrategy<u32> {
    prop_oneof![
        3 => lo..=hi,
        1 => Just(lo),
        1 => Just(hi),
        1 => (lo..=hi).prop_map(move |x| (x & !3).max(lo)),
    ]
    .boxed()
}

pub fn gcfg_small() -> BoxedStrategy<GCfg> {
    (
        small_u32(4, 64),
        small_u32(4, 256),
        prop_oneof![8usize..=512, Just(8usize), Just(64usize), Just(512usize)],
        1usize..=4,
        1usize..=4,
        1usize..=4,
        1u16..=4,
        prop_oneof![Just(Some(60u32)), Just(None), Just(Some(5u32))],
    )
        .prop_map(|(chunk_size, receive_buffer, max_data_size, shared_q, tsend_q, trecv_q, connect_queue, timeout_s)| {
            GCfg {
                chunk_size,
                receive_buffer,
                max_data_size,
                shared_q,
                tsend_q,
                trecv_q,
                connect_queue,
                max_ports: 64,
                max_received_ports: 16,
                timeout_s,
            }
        })
        .boxed()
}

#[derive(Clone, Debug, Serialize, Deserialize, PartialEq, Eq, Hash)]
pub struct Sched {
    /// Schedule tape consumed by the deferral decider and actor pauses.
    pub tape: Vec<u8>,
    /// Deferral level (0 = plain FIFO scheduling).
    pub defer: u8,
    pub tokio_seed: u64,
    /// Link capacity (frames in flight per direction).
    pub link_cap: u8,
    /// Per-frame delay codes, cyclic, direction A->B.
    pub delays_ab: Vec<u8>,
    /// Per-frame delay codes, cyclic, direction B->A.
    pub delays_ba: Vec<u8>,
}

impl Sched {
    pub fn plain() -> Self {
        Sched { tape: vec![], defer: 0, tokio_seed: 0, link_cap: 4, delays_ab: vec![], delays_ba: vec![] }
    }
    pub fn tape(&self) -> Tape {
        Tape::new(self.tape.clone())
    }
    /// Largest virtual delay (ms) this schedule applies to a frame, given the cap.
    pub fn max_delay_ms(&self, cap_ms: u64) -> u64 {
        self.delays_ab
            .iter()
            .chain(self.delays_ba.iter())
            .filter(|&&c| c >= 230)
            .map(|&c| [1u64, 10, 100, 1000, 10_000][(c as usize - 230) % 5].min(cap_ms))
            .max()
            .unwrap_or(0)
    }

    /// Virtual deadline (s) for a workload that needs at most `frames` frames: every frame may be
    /// delayed by the largest delay of the schedule, plus slack for pauses.
    pub fn deadline_s(&self, frames: u64, cap_ms: u64) -> u64 {
        3_000 + frames * self.max_delay_ms(cap_ms) / 1000 + frames / 10
    }

    pub fn perturbed(&self) -> bool {
        self.defer > 0 || self.delays_ab.iter().chain(self.delays_ba.iter()).any(|&d| d >= 200)
    }
}

fn delay_codes() -> BoxedStrategy<Vec<u8>> {
    prop_oneof![
        2 => Just(Vec::new()),
        3 => proptest::collection::vec(prop_oneof![4 => Just(0u8), 1 => 200u8..=255], 1..12),
    ]
    .boxed()
}

/// `timers`: whether virtual-time delays may be used (false for cases with helper threads).
pub fn sched(timers: bool) -> BoxedStrategy<Sched> {
    (
        prop_oneof![1 => Just(Vec::new()), 3 => proptest::collection::vec(any::<u8>(), 1..48)],
        prop_oneof![2 => Just(0u8), 1 => Just(24u8), 1 => Just(64u8), 1 => Just(128u8)],
        any::<u64>(),
        prop_oneof![Just(1u8), Just(2u8), Just(4u8), Just(16u8)],
        delay_codes(),
        delay_codes(),
    )
        .prop_map(move |(tape, defer, tokio_seed, link_cap, mut delays_ab, mut delays_ba)| {
            if !timers {
                for d in delays_ab.iter_mut().chain(delays_ba.iter_mut()) {
                    if *d >= 230 {
                        *d = 200 + (*d - 230);
                    }
                }
            }
            let defer = if tape.is_empty() { 0 } else { defer };
            Sched { tape, defer, tokio_seed, link_cap, delays_ab, delays_ba }
        })
        .boxed()
}

pub fn delay_fn(codes: Vec<u8>, cap_ms: u64) -> Box<dyn FnMut(u32) -> Delay + Send> {
    Box::new(move |idx| {
        if codes.is_empty() {
            return Delay::None;
        }
        let c = codes[idx as usize % codes.len()];
        match c {
            0..=199 => Delay::None,
            200..=229 => Delay::Ticks((c - 199) as u32),
            _ => Delay::Ms([1u64, 10, 100, 1000, 10_000][(c as usize - 230) % 5].min(cap_ms)),
        }
    })
}

pub struct Side {
    pub client: Client,
    pub listener: Listener,
    pub run: JoinHandle<MuxResult>,
}

/// Delay cap: a quarter of the smallest connection timeout, so that a healthy but slow link
/// never looks dead (pings are queued behind delayed frames).
pub fn delay_cap_ms(cfg_a: &GCfg, cfg_b: &GCfg) -> u64 {
    let t = [cfg_a.timeout_s, cfg_b.timeout_s].iter().flatten().min().copied();
    match t {
        Some(t) => (t as u64 * 1000) / 4,
        None => 10_000,
    }
}

pub fn make_link(s: &Sched, cap_ms: u64, faults: Vec<Fault>) -> (SimLink, Endpoint, Endpoint) {
    SimLink::new(
        s.link_cap as usize,
        delay_fn(s.delays_ab.clone(), cap_ms),
        delay_fn(s.delays_ba.clone(), cap_ms),
        faults,
    )
}

/// Establishes a chmux connection over a fresh SimLink; both dispatchers run as actor tasks.
pub async fn connect_pair(
    cfg_a: &GCfg, cfg_b: &GCfg, s: &Sched, faults: Vec<Fault>,
) -> Result<(SimLink, Side, Side), String> {
    let (link, ea, eb) = make_link(s, delay_cap_ms(cfg_a, cfg_b), faults);
    let (a, b) = tokio::join!(
        ChMux::new(cfg_a.to_cfg(), ea.sink, ea.stream),
        ChMux::new(cfg_b.to_cfg(), eb.sink, eb.stream)
    );
    let (mux_a, client_a, listener_a) = a.map_err(|e| format!("A handshake failed: {e}"))?;
    let (mux_b, client_b, listener_b) = b.map_err(|e| format!("B handshake failed: {e}"))?;
    let run_a = spawn_actor(mux_a.run());
    let run_b = spawn_actor(mux_b.run());
    Ok((
        link,
        Side { client: client_a, listener: listener_a, run: run_a },
        Side { client: client_b, listener: listener_b, run: run_b },
    ))
}

pub type Mux = ChMux<SimSink, SimStream>;

/// Deterministic payload: byte = f(message index, offset).
pub fn payload(msg: u32, len: usize) -> bytes::Bytes {
    let mut v = Vec::with_capacity(len);
    for i in 0..len {
        v.push((msg.wrapping_mul(31).wrapping_add(i as u32).wrapping_mul(2654435761) >> 13) as u8);
    }
    bytes::Bytes::from(v)
}

/// Boundary-biased message length relative to chunk size, receive buffer and max data size.
pub fn msg_len(max: usize) -> BoxedStrategy<usize> {
    prop_oneof![
        4 => 0usize..=max,
        1 => Just(0usize),
        1 => Just(1usize),
        1 => 0usize..=8,
    ]
    .boxed()
}

/// Picks a length near one of the boundaries of the configuration.
pub fn boundary_len(sel: u8, off: i8, a: &GCfg, b: &GCfg) -> usize {
    let bases = [
        b.chunk_size as usize,
        b.receive_buffer as usize,
        b.max_data_size,
        2 * b.chunk_size as usize,
        2 * b.max_data_size,
        a.chunk_size as usize,
        3 * b.chunk_size as usize,
        b.receive_buffer as usize / 2,
    ];
    let base = bases[sel as usize % bases.len()] as i64;
    (base + (off as i64 % 3)).max(0) as usize
}
