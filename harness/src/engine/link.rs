//! SimLink: harness-owned in-memory transport with wire tap, delivery schedule and faults.
//!
//! One `SimLink` connects two endpoints (0 = "A", 1 = "B"). Direction 0 carries frames
//! from A to B, direction 1 from B to A. Frames are never reordered, duplicated or lost
//! unless an explicit fault is armed.

use bytes::Bytes;
use futures::{Sink, Stream};
use std::{
    collections::VecDeque,
    io,
    pin::Pin,
    sync::{Arc, Mutex},
    task::{Context, Poll, Waker},
    time::Duration,
};
use tokio::time::{Instant, Sleep};

/// Fault kinds.
#[derive(Clone, Copy, Debug, PartialEq, Eq, serde::Serialize, serde::Deserialize, Hash)]
pub enum FaultKind {
    /// The sink of the sending endpoint reports an error.
    SinkError,
    /// The stream of the receiving endpoint reports an error.
    StreamError,
    /// The stream of the receiving endpoint ends.
    Eof,
    /// Both directions go silent (frames are swallowed).
    Stall,
    /// Only this direction goes silent.
    StallOneWay,
}

/// A fault armed "after frame `after` of direction `dir`", i.e. frames with index < after
/// pass unharmed.
#[derive(Clone, Copy, Debug, PartialEq, Eq, serde::Serialize, serde::Deserialize, Hash)]
pub struct Fault {
    pub dir: u8,
    pub after: u32,
    pub kind: FaultKind,
}

/// Delivery delay of one frame.
#[derive(Clone, Copy, Debug)]
pub enum Delay {
    None,
    /// Virtual milliseconds.
    Ms(u64),
    /// Scheduler passes (the stream re-wakes itself that many times).
    Ticks(u32),
}

#[derive(Clone, Debug)]
pub struct TapEv {
    /// Direction.
    pub dir: u8,
    /// Frame index within direction.
    pub idx: u32,
    /// false = put on link by the sender, true = delivered to the receiver.
    pub delivered: bool,
    /// Frame.
    pub bytes: Bytes,
    /// Virtual time in ms since link creation.
    pub t_ms: u64,
}

pub type Tap = Arc<Mutex<Vec<TapEv>>>;

struct Frame {
    idx: u32,
    bytes: Bytes,
    release: Instant,
    ticks: u32,
}

struct Dir {
    dir: u8,
    queue: VecDeque<Frame>,
    capacity: usize,
    sent: u32,
    delivered: u32,
    last_release: Instant,
    sink_closed: bool,
    stream_dropped: bool,
    stalled: bool,
    sink_failed: bool,
    stream_failed: bool,
    eof_forced: bool,
    fault_time: Option<Instant>,
    reader: Option<Waker>,
    writer: Option<Waker>,
    delay_fn: Box<dyn FnMut(u32) -> Delay + Send>,
    paused: bool,
    /// Frames written but not yet flushed (only used in `flush_required` mode).
    unflushed: Vec<Frame>,
}

struct Shared {
    dirs: [Dir; 2],
    faults: Vec<Fault>,
    tap: Tap,
    start: Instant,
    record_payload: bool,
    /// Total frame budget over both directions; when exceeded both sinks block forever.
    budget: Option<u64>,
    budget_exceeded: bool,
    /// Frames counted against the budget (keep-alive pings are not counted).
    budget_used: u64,
    /// Behave like a buffering byte-stream writer: frames reach the peer only after a flush.
    flush_required: bool,
    /// Copy every frame when it is put on the link (like a real transport), so that neither the
    /// tap nor the receiving endpoint shares memory with the sender's buffers.
    copy_frames: bool,
}

impl Shared {
    fn now_ms(&self) -> u64 {
        Instant::now().saturating_duration_since(self.start).as_millis() as u64
    }

    /// Applies faults that become active once `count` frames of direction `dir` passed.
    fn apply_faults(&mut self, dir: u8) {
        let sent = self.dirs[dir as usize].sent;
        let faults: Vec<Fault> = self.faults.iter().copied().filter(|f| f.dir == dir && f.after <= sent).collect();
        for f in faults {
            let now = Instant::now();
            match f.kind {
                FaultKind::SinkError => {
                    let d = &mut self.dirs[dir as usize];
                    if !d.sink_failed {
                        d.sink_failed = true;
                        d.fault_time.get_or_insert(now);
                    }
                }
                FaultKind::StreamError => {
                    let d = &mut self.dirs[dir as usize];
                    if !d.stream_failed {
                        d.stream_failed = true;
                        d.fault_time.get_or_insert(now);
                        if let Some(w) = d.reader.take() {
                            w.wake();
                        }
                    }
                }
                FaultKind::Eof => {
                    let d = &mut self.dirs[dir as usize];
                    if !d.eof_forced {
                        d.eof_forced = true;
                        d.fault_time.get_or_insert(now);
                        if let Some(w) = d.reader.take() {
                            w.wake();
                        }
                    }
                }
                FaultKind::Stall => {
                    for d in self.dirs.iter_mut() {
                        if !d.stalled {
                            d.stalled = true;
                            d.fault_time.get_or_insert(now);
                        }
                    }
                }
                FaultKind::StallOneWay => {
                    let d = &mut self.dirs[dir as usize];
                    if !d.stalled {
                        d.stalled = true;
                        d.fault_time.get_or_insert(now);
                    }
                }
            }
        }
    }
}

/// Handle for controlling and inspecting the link.
#[derive(Clone)]
pub struct SimLink {
    shared: Arc<Mutex<Shared>>,
}

pub struct SimSink {
    shared: Arc<Mutex<Shared>>,
    dir: u8,
}

pub struct SimStream {
    shared: Arc<Mutex<Shared>>,
    dir: u8,
    sleep: Option<Pin<Box<Sleep>>>,
}

#[derive(Clone, Debug)]
pub struct LinkCfg {
    /// Max frames in flight per direction (>= 1).
    pub capacity: usize,
}

pub struct Endpoint {
    pub sink: SimSink,
    pub stream: SimStream,
}

impl SimLink {
    /// Creates a link. `delay_a2b` / `delay_b2a` give the delivery delay per frame index.
    pub fn new(
        capacity: usize, delay_a2b: Box<dyn FnMut(u32) -> Delay + Send>,
        delay_b2a: Box<dyn FnMut(u32) -> Delay + Send>, faults: Vec<Fault>,
    ) -> (SimLink, Endpoint, Endpoint) {
        let now = Instant::now();
        let mk = |dir: u8, f| Dir {
            dir,
            queue: VecDeque::new(),
            capacity: capacity.max(1),
            sent: 0,
            delivered: 0,
            last_release: now,
            sink_closed: false,
            stream_dropped: false,
            stalled: false,
            sink_failed: false,
            stream_failed: false,
            eof_forced: false,
            fault_time: None,
            reader: None,
            writer: None,
            delay_fn: f,
            paused: false,
            unflushed: Vec::new(),
        };
        let shared = Arc::new(Mutex::new(Shared {
            dirs: [mk(0, delay_a2b), mk(1, delay_b2a)],
            faults,
            tap: Arc::new(Mutex::new(Vec::new())),
            start: now,
            record_payload: true,
            budget: None,
            budget_exceeded: false,
            budget_used: 0,
            flush_required: false,
            copy_frames: false,
        }));
        {
            let mut s = shared.lock().unwrap();
            s.apply_faults(0);
            s.apply_faults(1);
        }
        let a = Endpoint {
            sink: SimSink { shared: shared.clone(), dir: 0 },
            stream: SimStream { shared: shared.clone(), dir: 1, sleep: None },
        };
        let b = Endpoint {
            sink: SimSink { shared: shared.clone(), dir: 1 },
            stream: SimStream { shared: shared.clone(), dir: 0, sleep: None },
        };
        (SimLink { shared }, a, b)
    }

    /// Plain link without delays and faults.
    pub fn plain(capacity: usize) -> (SimLink, Endpoint, Endpoint) {
        Self::new(capacity, Box::new(|_| Delay::None), Box::new(|_| Delay::None), Vec::new())
    }

    pub fn tap(&self) -> Vec<TapEv> {
        let s = self.shared.lock().unwrap();
        let t = s.tap.lock().unwrap();
        t.clone()
    }

    pub fn tap_len(&self) -> usize {
        let s = self.shared.lock().unwrap();
        let t = s.tap.lock().unwrap();
        t.len()
    }

    /// Number of frames put on the link in a direction.
    pub fn sent(&self, dir: u8) -> u32 {
        self.shared.lock().unwrap().dirs[dir as usize].sent
    }

    pub fn delivered(&self, dir: u8) -> u32 {
        self.shared.lock().unwrap().dirs[dir as usize].delivered
    }

    /// Virtual time (ms since link creation) at which the first fault became active in `dir`.
    pub fn fault_time_ms(&self, dir: u8) -> Option<u64> {
        let s = self.shared.lock().unwrap();
        s.dirs[dir as usize].fault_time.map(|t| t.saturating_duration_since(s.start).as_millis() as u64)
    }

    pub fn now_ms(&self) -> u64 {
        self.shared.lock().unwrap().now_ms()
    }

    /// Pauses / resumes delivery in a direction (frames are held back, not lost).
    pub fn set_paused(&self, dir: u8, paused: bool) {
        let mut s = self.shared.lock().unwrap();
        let d = &mut s.dirs[dir as usize];
        d.paused = paused;
        if !paused {
            if let Some(w) = d.reader.take() {
                w.wake();
            }
        }
    }

    /// Frames are held back until the sink is flushed (like FramedWrite / BufWriter transports).
    pub fn set_flush_required(&self, on: bool) {
        self.shared.lock().unwrap().flush_required = on;
    }

    /// Frames are copied when they enter the link (no memory shared with the sender's buffers).
    pub fn set_copy_frames(&self, on: bool) {
        self.shared.lock().unwrap().copy_frames = on;
    }

    /// Sets a total frame budget (both directions). Once exceeded, the sinks never become
    /// ready again, so that a frame-emitting livelock turns into quiescence.
    pub fn set_budget(&self, frames: u64) {
        self.shared.lock().unwrap().budget = Some(frames);
    }

    pub fn budget_exceeded(&self) -> bool {
        self.shared.lock().unwrap().budget_exceeded
    }

    /// Arms an additional fault now.
    pub fn arm(&self, fault: Fault) {
        let mut s = self.shared.lock().unwrap();
        s.faults.push(fault);
        s.apply_faults(fault.dir);
    }

    /// Both stream halves have been dropped or sinks closed (endpoint gone)?
    pub fn sink_closed(&self, dir: u8) -> bool {
        self.shared.lock().unwrap().dirs[dir as usize].sink_closed
    }
}

fn link_err(what: &str) -> io::Error {
    io::Error::new(io::ErrorKind::BrokenPipe, format!("simlink: {what}"))
}

impl Sink<Bytes> for SimSink {
    type Error = io::Error;

    fn poll_ready(self: Pin<&mut Self>, cx: &mut Context<'_>) -> Poll<Result<(), Self::Error>> {
        let mut s = self.shared.lock().unwrap();
        if let Some(b) = s.budget {
            if s.budget_used >= b {
                s.budget_exceeded = true;
                return Poll::Pending;
            }
        }
        let d = &mut s.dirs[self.dir as usize];
        if d.sink_failed {
            return Poll::Ready(Err(link_err("sink error injected")));
        }
        if d.stream_dropped && !d.stalled {
            return Poll::Ready(Err(link_err("peer stream dropped")));
        }
        if d.queue.len() >= d.capacity {
            d.writer = Some(cx.waker().clone());
            return Poll::Pending;
        }
        Poll::Ready(Ok(()))
    }

    fn start_send(self: Pin<&mut Self>, item: Bytes) -> Result<(), Self::Error> {
        let dir = self.dir;
        let mut s = self.shared.lock().unwrap();
        let t_ms = s.now_ms();
        let tap = s.tap.clone();
        let flush_required = s.flush_required;
        let item = if s.copy_frames { Bytes::copy_from_slice(&item) } else { item };
        if item[..] != [3u8] {
            s.budget_used += 1;
        }
        let d = &mut s.dirs[dir as usize];
        if d.sink_failed {
            return Err(link_err("sink error injected"));
        }
        let idx = d.sent;
        d.sent += 1;
        let now = Instant::now();
        let (delay, ticks) = match (d.delay_fn)(idx) {
            Delay::None => (Duration::ZERO, 0),
            Delay::Ms(ms) => (Duration::from_millis(ms), 0),
            Delay::Ticks(n) => (Duration::ZERO, n),
        };
        let release = (now + delay).max(d.last_release);
        d.last_release = release;
        tap.lock().unwrap().push(TapEv { dir, idx, delivered: false, bytes: item.clone(), t_ms });
        if d.stalled {
            // Swallowed: counts as sent, never delivered. Keep it out of the queue so that the
            // sender does not see back-pressure from a silent link.
        } else if flush_required {
            d.unflushed.push(Frame { idx, bytes: item, release, ticks });
        } else {
            d.queue.push_back(Frame { idx, bytes: item, release, ticks });
            if let Some(w) = d.reader.take() {
                w.wake();
            }
        }
        s.apply_faults(dir);
        Ok(())
    }

    fn poll_flush(self: Pin<&mut Self>, _cx: &mut Context<'_>) -> Poll<Result<(), Self::Error>> {
        let mut s = self.shared.lock().unwrap();
        let d = &mut s.dirs[self.dir as usize];
        if d.sink_failed {
            return Poll::Ready(Err(link_err("sink error injected")));
        }
        if !d.unflushed.is_empty() {
            let frames = std::mem::take(&mut d.unflushed);
            d.queue.extend(frames);
            if let Some(w) = d.reader.take() {
                w.wake();
            }
        }
        Poll::Ready(Ok(()))
    }

    fn poll_close(self: Pin<&mut Self>, _cx: &mut Context<'_>) -> Poll<Result<(), Self::Error>> {
        let mut s = self.shared.lock().unwrap();
        let d = &mut s.dirs[self.dir as usize];
        d.sink_closed = true;
        if let Some(w) = d.reader.take() {
            w.wake();
        }
        Poll::Ready(Ok(()))
    }
}

impl Drop for SimSink {
    fn drop(&mut self) {
        let mut s = self.shared.lock().unwrap();
        let d = &mut s.dirs[self.dir as usize];
        d.sink_closed = true;
        if let Some(w) = d.reader.take() {
            w.wake();
        }
    }
}

impl Drop for SimStream {
    fn drop(&mut self) {
        let mut s = self.shared.lock().unwrap();
        let d = &mut s.dirs[self.dir as usize];
        d.stream_dropped = true;
        d.queue.clear();
        if let Some(w) = d.writer.take() {
            w.wake();
        }
    }
}

impl Stream for SimStream {
    type Item = Result<Bytes, io::Error>;

    fn poll_next(mut self: Pin<&mut Self>, cx: &mut Context<'_>) -> Poll<Option<Self::Item>> {
        let dir = self.dir;
        let shared = self.shared.clone();
        let mut s = shared.lock().unwrap();
        let t_ms = s.now_ms();
        let tap = s.tap.clone();
        let d = &mut s.dirs[dir as usize];
        debug_assert_eq!(d.dir, dir);
        if d.stream_failed {
            d.queue.clear();
            // Report the error once, then end of stream.
            if !d.eof_forced {
                d.eof_forced = true;
                return Poll::Ready(Some(Err(link_err("stream error injected"))));
            }
            return Poll::Ready(None);
        }
        if d.eof_forced {
            d.queue.clear();
            return Poll::Ready(None);
        }
        if d.stalled {
            d.queue.clear();
            d.reader = Some(cx.waker().clone());
            return Poll::Pending;
        }
        if d.paused {
            d.reader = Some(cx.waker().clone());
            return Poll::Pending;
        }
        let now = Instant::now();
        match d.queue.front_mut() {
            Some(f) => {
                if f.ticks > 0 {
                    f.ticks -= 1;
                    cx.waker().wake_by_ref();
                    return Poll::Pending;
                }
                if f.release <= now {
                    let f = d.queue.pop_front().unwrap();
                    d.delivered += 1;
                    if let Some(w) = d.writer.take() {
                        w.wake();
                    }
                    tap.lock().unwrap().push(TapEv {
                        dir,
                        idx: f.idx,
                        delivered: true,
                        bytes: f.bytes.clone(),
                        t_ms,
                    });
                    drop(s);
                    self.sleep = None;
                    Poll::Ready(Some(Ok(f.bytes)))
                } else {
                    let release = f.release;
                    d.reader = Some(cx.waker().clone());
                    drop(s);
                    let mut sl = Box::pin(tokio::time::sleep_until(release));
                    // Register timer.
                    if sl.as_mut().poll(cx).is_ready() {
                        cx.waker().wake_by_ref();
                    }
                    self.sleep = Some(sl);
                    Poll::Pending
                }
            }
            None => {
                if d.sink_closed {
                    return Poll::Ready(None);
                }
                d.reader = Some(cx.waker().clone());
                Poll::Pending
            }
        }
    }
}

use std::future::Future;
