//! Deterministic simulation helpers: runtime, schedule tape, deferral decider,
//! cancellation adapter, panic accounting.

use std::{
    cell::{Cell, RefCell},
    future::Future,
    pin::Pin,
    sync::{
        atomic::{AtomicBool, Ordering},
        Arc, Mutex, Once,
    },
    task::{Context, Poll},
    time::Duration,
};

thread_local! {
    static PANICS: RefCell<Vec<String>> = const { RefCell::new(Vec::new()) };
    static QUIET: Cell<bool> = const { Cell::new(false) };
}

static HOOK: Once = Once::new();
static VERBOSE: AtomicBool = AtomicBool::new(false);

pub fn set_verbose(v: bool) {
    VERBOSE.store(v, Ordering::Relaxed);
}

/// Installs the process panic hook: records panic location + message per thread, silent.
pub fn install_panic_hook() {
    HOOK.call_once(|| {
        std::panic::set_hook(Box::new(|info| {
            if info.payload().downcast_ref::<SimDeadline>().is_some() {
                return;
            }
            let loc = info.location().map(|l| format!("{}:{}", l.file(), l.line())).unwrap_or_default();
            let msg = if let Some(s) = info.payload().downcast_ref::<&str>() {
                s.to_string()
            } else if let Some(s) = info.payload().downcast_ref::<String>() {
                s.clone()
            } else {
                "<non-string panic>".to_string()
            };
            if VERBOSE.load(Ordering::Relaxed) {
                eprintln!("[panic] {loc}: {msg}");
            }
            PANICS.with(|p| p.borrow_mut().push(format!("{loc}: {msg}")));
        }));
    });
}

pub fn take_panics() -> Vec<String> {
    PANICS.with(|p| std::mem::take(&mut *p.borrow_mut()))
}

/// Cyclic schedule tape.
#[derive(Clone)]
pub struct Tape {
    bytes: Arc<Vec<u8>>,
    pos: Arc<Mutex<usize>>,
}

impl Tape {
    pub fn new(bytes: Vec<u8>) -> Self {
        Self { bytes: Arc::new(bytes), pos: Arc::new(Mutex::new(0)) }
    }

    pub fn next(&self) -> u8 {
        if self.bytes.is_empty() {
            return 0;
        }
        let mut p = self.pos.lock().unwrap();
        let b = self.bytes[*p % self.bytes.len()];
        *p += 1;
        b
    }
}

/// Runs `fut` to completion on a fresh current-thread runtime with paused clock.
/// `defer_level`: a poll of a wrapped task is deferred iff the next tape byte < defer_level.
pub fn run_sim<F: Future>(tokio_seed: u64, tape: &Tape, defer_level: u8, fut: F) -> F::Output {
    warm_up_threads();
    let rt = tokio::runtime::Builder::new_current_thread()
        .enable_time()
        .start_paused(true)
        .rng_seed(tokio::runtime::RngSeed::from_bytes(&tokio_seed.to_le_bytes()))
        .build()
        .unwrap();
    // Spin guard: on a paused clock, tasks that keep waking each other without ever waiting for
    // a timer are a livelock (virtual time never advances, the case never ends in real time).
    // When the wrapped tasks (all of remoc's own tasks and the harness actors) have been polled
    // SPIN_LIMIT times at one and the same virtual instant, they are parked for the rest of the
    // case: the runtime becomes idle, the clock advances to the harness's deadlines and the
    // oracle reports what never completed. Healthy cases stay far below the limit (measured
    // maximum in `spin_max()`).
    remoc::exec::verif::set_parked(false);
    let t = tape.clone();
    let mut polls: u64 = 0;
    let mut stagnant_since: u64 = 0;
    let mut last_now: Option<tokio::time::Instant> = None;
    remoc::exec::verif::set_decider(Some(Box::new(move || {
        polls += 1;
        if polls % SPIN_STRIDE == 0 {
            let now = tokio::time::Instant::now();
            if last_now != Some(now) {
                last_now = Some(now);
                stagnant_since = polls;
            }
            let stagnant = polls - stagnant_since;
            SPIN_MAX.fetch_max(stagnant, std::sync::atomic::Ordering::Relaxed);
            if stagnant >= spin_limit() * SPIN_SCALE.with(|c| c.get()) {
                SPIN_TRIPPED.with(|c| c.set(true));
                remoc::exec::verif::set_parked(true);
            }
        }
        defer_level > 0 && t.next() < defer_level
    })));
    // Safety net: a harness future that waits for something that can never happen would leave
    // the paused runtime parked for ever in real time. The timer makes the clock jump to the
    // global virtual deadline instead; the case then counts as inconclusive (never a violation).
    let out = rt.block_on(async { tokio::time::timeout(std::time::Duration::from_secs(GLOBAL_DEADLINE_S), fut).await });
    remoc::exec::verif::set_decider(None);
    remoc::exec::verif::set_parked(false);
    // Dropping the runtime drops all remaining tasks.
    drop(rt);
    match out {
        Ok(v) => v,
        Err(_) => {
            SIM_DEADLINE.with(|c| c.set(true));
            std::panic::panic_any(SimDeadline)
        }
    }
}

/// Virtual seconds after which a simulated case is abandoned as inconclusive (115 days; the
/// longest legitimate deadline of any check is below 10^6 s).
pub const GLOBAL_DEADLINE_S: u64 = 10_000_000;

/// Panic payload of an abandoned case.
pub struct SimDeadline;

thread_local! {
    static SIM_DEADLINE: std::cell::Cell<bool> = const { std::cell::Cell::new(false) };
}

/// True if a `run_sim` on this thread hit the global virtual deadline since the last call.
pub fn take_sim_deadline() -> bool {
    SIM_DEADLINE.with(|c| c.replace(false))
}

const SPIN_STRIDE: u64 = 256;
/// Polls of wrapped tasks at one virtual instant after which a case counts as livelocked.
const SPIN_LIMIT_DEFAULT: u64 = 2_000_000;
static SPIN_MAX: std::sync::atomic::AtomicU64 = std::sync::atomic::AtomicU64::new(0);

thread_local! {
    static SPIN_TRIPPED: std::cell::Cell<bool> = const { std::cell::Cell::new(false) };
    static SPIN_SCALE: std::cell::Cell<u64> = const { std::cell::Cell::new(1) };
}

/// Runs `f` with the spin guard's poll budget multiplied by `scale` (confirmation runs).
pub fn with_spin_scale<T>(scale: u64, f: impl FnOnce() -> T) -> T {
    let old = SPIN_SCALE.with(|c| c.replace(scale));
    let r = f();
    SPIN_SCALE.with(|c| c.set(old));
    r
}

fn spin_limit() -> u64 {
    static L: std::sync::OnceLock<u64> = std::sync::OnceLock::new();
    *L.get_or_init(|| std::env::var("VERIF_SPIN_LIMIT").ok().and_then(|s| s.parse().ok()).unwrap_or(SPIN_LIMIT_DEFAULT))
}

/// True if the spin guard parked the tasks of a `run_sim` on this thread since the last call.
pub fn take_spin() -> bool {
    SPIN_TRIPPED.with(|c| c.replace(false))
}

/// Largest number of polls at one virtual instant seen in this process (healthy-case headroom).
pub fn spin_max() -> u64 {
    SPIN_MAX.load(std::sync::atomic::Ordering::Relaxed)
}

/// Like run_sim, but with real (unpaused) time; for cases that use helper threads.
pub fn run_real<F: Future>(tokio_seed: u64, tape: &Tape, defer_level: u8, fut: F) -> F::Output {
    warm_up_threads();
    let rt = tokio::runtime::Builder::new_current_thread()
        .enable_time()
        .rng_seed(tokio::runtime::RngSeed::from_bytes(&tokio_seed.to_le_bytes()))
        .build()
        .unwrap();
    if defer_level > 0 {
        let t = tape.clone();
        remoc::exec::verif::set_decider(Some(Box::new(move || t.next() < defer_level)));
    } else {
        remoc::exec::verif::set_decider(None);
    }
    let out = rt.block_on(fut);
    remoc::exec::verif::set_decider(None);
    drop(rt);
    out
}

static WARM: Once = Once::new();

/// `remoc::exec::are_threads_available()` waits for a plain std thread the first time; do
/// that once on a non-paused runtime so that no paused clock ever jumps because of it.
pub fn warm_up_threads() {
    WARM.call_once(|| {
        let rt = tokio::runtime::Builder::new_current_thread().enable_time().build().unwrap();
        rt.block_on(async {
            let _ = remoc::exec::are_threads_available().await;
        });
    });
}

/// Spawns a harness actor wrapped in the same deferral adapter as remoc's own tasks.
pub fn spawn_actor<F>(fut: F) -> tokio::task::JoinHandle<F::Output>
where
    F: Future + Send + 'static,
    F::Output: Send + 'static,
{
    remoc::exec::verif::spawn(fut)
}

/// Result of `CancelAfter`.
pub enum Cancelled<T> {
    /// The future completed within the poll budget.
    Done(T),
    /// The future was dropped while pending after the given number of polls.
    Dropped,
}

/// Polls `fut` at most `polls` times (None = unlimited), then drops it.
pub struct CancelAfter<F> {
    fut: Option<Pin<Box<F>>>,
    left: Option<u32>,
}

impl<F: Future> CancelAfter<F> {
    pub fn new(fut: F, polls: Option<u32>) -> Self {
        Self { fut: Some(Box::pin(fut)), left: polls }
    }
}

impl<F: Future> Future for CancelAfter<F> {
    type Output = Cancelled<F::Output>;

    fn poll(mut self: Pin<&mut Self>, cx: &mut Context<'_>) -> Poll<Self::Output> {
        // The future is dropped when it is polled again after having been pending `polls` times,
        // i.e. at a wake-up (like a select! whose other branch fires at that moment); with
        // `polls == 0` it is dropped without ever being polled.
        if let Some(0) = self.left {
            self.fut = None;
            return Poll::Ready(Cancelled::Dropped);
        }
        let res = self.fut.as_mut().expect("polled after completion").as_mut().poll(cx);
        match res {
            Poll::Ready(v) => {
                self.fut = None;
                Poll::Ready(Cancelled::Done(v))
            }
            Poll::Pending => {
                if let Some(left) = &mut self.left {
                    *left -= 1;
                }
                Poll::Pending
            }
        }
    }
}

/// Sleeps for `n` scheduler passes (yield-based, no timer).
pub async fn ticks(n: u32) {
    for _ in 0..n {
        tokio::task::yield_now().await;
    }
}

/// Pause drawn from the tape: mostly none, sometimes some ticks, sometimes virtual time.
pub async fn tape_pause(tape: &Tape, use_time: bool) {
    let b = tape.next();
    match b {
        0..=159 => {}
        160..=219 => ticks((b - 159) as u32 % 8 + 1).await,
        _ => {
            if use_time {
                let ms = [1u64, 10, 100, 1000, 5000][(b as usize - 220) % 5];
                tokio::time::sleep(Duration::from_millis(ms)).await;
            } else {
                ticks(3).await;
            }
        }
    }
}

/// Virtual timeout helper: Ok(output) or Err(()) when the virtual deadline passed.
pub async fn within<F: Future>(secs: u64, fut: F) -> Result<F::Output, ()> {
    tokio::time::timeout(Duration::from_secs(secs), fut).await.map_err(|_| ())
}

/// Counts polls of a wrapped future (used to learn how many await points an op has).
pub struct PollCount<F> {
    fut: Pin<Box<F>>,
    pub count: Arc<Mutex<u32>>,
}

impl<F: Future> PollCount<F> {
    pub fn new(fut: F, count: Arc<Mutex<u32>>) -> Self {
        Self { fut: Box::pin(fut), count }
    }
}

impl<F: Future> Future for PollCount<F> {
    type Output = F::Output;
    fn poll(mut self: Pin<&mut Self>, cx: &mut Context<'_>) -> Poll<Self::Output> {
        *self.count.lock().unwrap() += 1;
        self.fut.as_mut().poll(cx)
    }
}

pub fn quiet(q: bool) {
    QUIET.with(|c| c.set(q));
}
