//! Deterministic simulation helpers: runtime, schedule tape, deferral decider,
//! cancellation adapter, panic accounting.

use std::{
    cell::{Cell, RefCell},
    future::Future,
    pin::Pin,
    sync::{
        atomic::{AtomicBool, Ordering},
        Arc, Mutex, Once,
    },
    task::{Context, Poll},
    time::Duration,
};

thread_local! {
    static PANICS: RefCell<Vec<String>> = const { RefCell::new(Vec::new()) };
    static QUIET: Cell<bool> = const { Cell::new(false) };
}

static HOOK: Once = Once::new();
static VERBOSE: AtomicBool = AtomicBool::new(false);

pub fn set_verbose(v: bool) {
    VERBOSE.store(v, Ordering::Relaxed);
}

/// Installs the process panic hook: records panic location + message per thread, silent.
pub fn install_panic_hook() {
    HOOK.call_once(|| {
        std::panic::set_hook(Box::new(|info| {
            let loc = info.location().map(|l| format!("{}:{}", l.file(), l.line())).unwrap_or_default();
            let msg = if let Some(s) = info.payload().downcast_ref::<&str>() {
                s.to_string()
            } else if let Some(s) = info.payload().downcast_ref::<String>() {
                s.clone()
            } else {
                "<non-string panic>".to_string()
            };
            if VERBOSE.load(Ordering::Relaxed) {
                eprintln!("[panic] {loc}: {msg}");
            }
            PANICS.with(|p| p.borrow_mut().push(format!("{loc}: {msg}")));
        }));
    });
}

pub fn take_panics() -> Vec<String> {
    PANICS.with(|p| std::mem::take(&mut *p.borrow_mut()))
}

/// Cyclic schedule tape.
#[derive(Clone)]
pub struct Tape {
    bytes: Arc<Vec<u8>>,
    pos: Arc<Mutex<usize>>,
}

impl Tape {
    pub fn new(bytes: Vec<u8>) -> Self {
        Self { bytes: Arc::new(bytes), pos: Arc::new(Mutex::new(0)) }
    }

    pub fn next(&self) -> u8 {
        if self.bytes.is_empty() {
            return 0;
        }
        let mut p = self.pos.lock().unwrap();
        let b = self.bytes[*p % self.bytes.len()];
        *p += 1;
        b
    }
}

/// Runs `fut` to completion on a fresh current-thread runtime with paused clock.
/// `defer_level`: a poll of a wrapped task is deferred iff the next tape byte < defer_level.
pub fn run_sim<F: Future>(tokio_seed: u64, tape: &Tape, defer_level: u8, fut: F) -> F::Output {
    warm_up_threads();
    let rt = tokio::runtime::Builder::new_current_thread()
        .enable_time()
        .start_paused(true)
        .rng_seed(tokio::runtime::RngSeed::from_bytes(&tokio_seed.to_le_bytes()))
        .build()
        .unwrap();
    if defer_level > 0 {
        let t = tape.clone();
        remoc::exec::verif::set_decider(Some(Box::new(move || t.next() < defer_level)));
    } else {
        remoc::exec::verif::set_decider(None);
    }
    let out = rt.block_on(fut);
    remoc::exec::verif::set_decider(None);
    // Dropping the runtime drops all remaining tasks.
    drop(rt);
    out
}

/// Like run_sim, but with real (unpaused) time; for cases that use helper threads.
pub fn run_real<F: Future>(tokio_seed: u64, tape: &Tape, defer_level: u8, fut: F) -> F::Output {
    warm_up_threads();
    let rt = tokio::runtime::Builder::new_current_thread()
        .enable_time()
        .rng_seed(tokio::runtime::RngSeed::from_bytes(&tokio_seed.to_le_bytes()))
        .build()
        .unwrap();
    if defer_level > 0 {
        let t = tape.clone();
        remoc::exec::verif::set_decider(Some(Box::new(move || t.next() < defer_level)));
    } else {
        remoc::exec::verif::set_decider(None);
    }
    let out = rt.block_on(fut);
    remoc::exec::verif::set_decider(None);
    drop(rt);
    out
}

static WARM: Once = Once::new();

/// `remoc::exec::are_threads_available()` waits for a plain std thread the first time; do
/// that once on a non-paused runtime so that no paused clock ever jumps because of it.
pub fn warm_up_threads() {
    WARM.call_once(|| {
        let rt = tokio::runtime::Builder::new_current_thread().enable_time().build().unwrap();
        rt.block_on(async {
            let _ = remoc::exec::are_threads_available().await;
        });
    });
}

/// Spawns a harness actor wrapped in the same deferral adapter as remoc's own tasks.
pub fn spawn_actor<F>(fut: F) -> tokio::task::JoinHandle<F::Output>
where
    F: Future + Send + 'static,
    F::Output: Send + 'static,
{
    remoc::exec::verif::spawn(fut)
}

/// Result of `CancelAfter`.
pub enum Cancelled<T> {
    /// The future completed within the poll budget.
    Done(T),
    /// The future was dropped while pending after the given number of polls.
    Dropped,
}

/// Polls `fut` at most `polls` times (None = unlimited), then drops it.
pub struct CancelAfter<F> {
    fut: Option<Pin<Box<F>>>,
    left: Option<u32>,
}

impl<F: Future> CancelAfter<F> {
    pub fn new(fut: F, polls: Option<u32>) -> Self {
        Self { fut: Some(Box::pin(fut)), left: polls }
    }
}

impl<F: Future> Future for CancelAfter<F> {
    type Output = Cancelled<F::Output>;

    fn poll(mut self: Pin<&mut Self>, cx: &mut Context<'_>) -> Poll<Self::Output> {
        // The future is dropped when it is polled again after having been pending `polls` times,
        // i.e. at a wake-up (like a select! whose other branch fires at that moment); with
        // `polls == 0` it is dropped without ever being polled.
        if let Some(0) = self.left {
            self.fut = None;
            return Poll::Ready(Cancelled::Dropped);
        }
        let res = self.fut.as_mut().expect("polled after completion").as_mut().poll(cx);
        match res {
            Poll::Ready(v) => {
                self.fut = None;
                Poll::Ready(Cancelled::Done(v))
            }
            Poll::Pending => {
                if let Some(left) = &mut self.left {
                    *left -= 1;
                }
                Poll::Pending
            }
        }
    }
}

/// Sleeps for `n` scheduler passes (yield-based, no timer).
pub async fn ticks(n: u32) {
    for _ in 0..n {
        tokio::task::yield_now().await;
    }
}

/// Pause drawn from the tape: mostly none, sometimes some ticks, sometimes virtual time.
pub async fn tape_pause(tape: &Tape, use_time: bool) {
    let b = tape.next();
    match b {
        0..=159 => {}
        160..=219 => ticks((b - 159) as u32 % 8 + 1).await,
        _ => {
            if use_time {
                let ms = [1u64, 10, 100, 1000, 5000][(b as usize - 220) % 5];
                tokio::time::sleep(Duration::from_millis(ms)).await;
            } else {
                ticks(3).await;
            }
        }
    }
}

/// Virtual timeout helper: Ok(output) or Err(()) when the virtual deadline passed.
pub async fn within<F: Future>(secs: u64, fut: F) -> Result<F::Output, ()> {
    tokio::time::timeout(Duration::from_secs(secs), fut).await.map_err(|_| ())
}

/// Counts polls of a wrapped future (used to learn how many await points an op has).
pub struct PollCount<F> {
    fut: Pin<Box<F>>,
    pub count: Arc<Mutex<u32>>,
}

impl<F: Future> PollCount<F> {
    pub fn new(fut: F, count: Arc<Mutex<u32>>) -> Self {
        Self { fut: Box::pin(fut), count }
    }
}

impl<F: Future> Future for PollCount<F> {
    type Output = F::Output;
    fn poll(mut self: Pin<&mut Self>, cx: &mut Context<'_>) -> Poll<Self::Output> {
        *self.count.lock().unwrap() += 1;
        self.fut.as_mut().poll(cx)
    }
}

pub fn quiet(q: bool) {
    QUIET.with(|c| c.set(q));
}
