//! Sharded proptest runner, evidence writer, known-findings handling, replay.

use proptest::{
    strategy::{BoxedStrategy, Strategy},
    test_runner::{Config, RngAlgorithm, TestCaseError, TestError, TestRng, TestRunner},
};
use serde::{de::DeserializeOwned, Deserialize, Serialize};
use serde_json::{json, Value};
use std::{
    collections::{BTreeMap, HashSet},
    fmt::Debug,
    hash::{Hash, Hasher},
    path::PathBuf,
    sync::{
        atomic::{AtomicBool, Ordering},
        Mutex,
    },
    time::Instant,
};

#[derive(Clone, Copy, Debug, PartialEq, Eq)]
pub enum Tier {
    Quick,
    Thorough,
}

impl Tier {
    pub fn name(self) -> &'static str {
        match self {
            Tier::Quick => "quick",
            Tier::Thorough => "thorough",
        }
    }
    pub fn pick<T>(self, quick: T, thorough: T) -> T {
        match self {
            Tier::Quick => quick,
            Tier::Thorough => thorough,
        }
    }
}

#[derive(Clone, Debug)]
pub struct Failure {
    /// Stable class of the failure, e.g. `C03/livelock`.
    pub sig: String,
    pub msg: String,
}

impl Failure {
    pub fn new(sig: impl Into<String>, msg: impl Into<String>) -> Self {
        Self { sig: sig.into(), msg: msg.into() }
    }
}

#[derive(Clone, Debug, Default)]
pub struct Outcome {
    pub fail: Option<Failure>,
    /// Non-trivial by the property's stated rule (measured on what actually happened).
    pub nontrivial: bool,
    /// Classification labels of what happened in this case.
    pub classes: Vec<String>,
    /// Frames seen on the wire.
    pub frames: u64,
    /// Case could not be decided (e.g. stall caused outside this property's scope).
    pub inconclusive: bool,
}

impl Outcome {
    pub fn class(&mut self, c: impl Into<String>) {
        let c = c.into();
        if !self.classes.contains(&c) {
            self.classes.push(c);
        }
    }
    pub fn fail(&mut self, sig: impl Into<String>, msg: impl Into<String>) {
        if self.fail.is_none() {
            self.fail = Some(Failure::new(sig, msg));
        }
    }
}

#[derive(Clone, Debug, Serialize, Deserialize)]
pub struct KnownFinding {
    pub property: String,
    pub signature: String,
    /// "known" or "fixed"
    pub status: String,
    pub what: String,
    #[serde(default)]
    pub commit: Option<String>,
    /// Optional replay file (relative to /verif) that reproduces the finding.
    #[serde(default)]
    pub replay: Option<String>,
}

pub fn verif_root() -> PathBuf {
    if let Ok(r) = std::env::var("VERIF_ROOT") {
        return PathBuf::from(r);
    }
    let mut p = PathBuf::from(env!("CARGO_MANIFEST_DIR"));
    p.pop();
    p
}

pub fn load_known() -> Vec<KnownFinding> {
    let p = verif_root().join("known_findings.json");
    match std::fs::read_to_string(&p) {
        Ok(s) => serde_json::from_str(&s).unwrap_or_else(|e| panic!("known_findings.json invalid: {e}")),
        Err(_) => Vec::new(),
    }
}

pub struct Report {
    pub property: String,
    pub tier: Tier,
    pub seed: u64,
    pub level: String,
    pub evaluations: u64,
    pub nontrivial: HashSet<u64>,
    pub classes: BTreeMap<String, u64>,
    pub samples: Vec<Value>,
    pub frames: u64,
    pub inconclusive: u64,
    pub excluded_known: u64,
    pub violations: Vec<(String, String, String)>,
    pub known_hits: Vec<String>,
    pub rule: String,
    pub assumptions: Vec<String>,
    pub exhaustive: bool,
    pub extra: serde_json::Map<String, Value>,
    pub parts: Vec<Value>,
    pub start: Instant,
}

impl Report {
    pub fn new(property: &str, tier: Tier, seed: u64) -> Self {
        Self {
            property: property.to_string(),
            tier,
            seed,
            level: "exploration".into(),
            evaluations: 0,
            nontrivial: HashSet::new(),
            classes: BTreeMap::new(),
            samples: Vec::new(),
            frames: 0,
            inconclusive: 0,
            excluded_known: 0,
            violations: Vec::new(),
            known_hits: Vec::new(),
            rule: String::new(),
            assumptions: Vec::new(),
            exhaustive: false,
            extra: serde_json::Map::new(),
            parts: Vec::new(),
            start: Instant::now(),
        }
    }

    /// Records a failure found on a concrete case: classifies as known finding or violation,
    /// writes the replay file, prints the interface line.
    pub fn record_failure<C: Serialize>(&mut self, part: &str, case: &C, f: &Failure) {
        let known = load_known();
        let case_json = serde_json::to_value(case).unwrap();
        let mut h = std::collections::hash_map::DefaultHasher::new();
        case_json.to_string().hash(&mut h);
        let hash = h.finish();
        let sig_file: String =
            f.sig.chars().map(|c| if c.is_ascii_alphanumeric() || c == '-' { c } else { '_' }).collect();
        let dir = verif_root().join("replays");
        let _ = std::fs::create_dir_all(&dir);
        let path = dir.join(format!("{}-{}-{:016x}.json", self.property, sig_file, hash));
        let doc = json!({
            "property": self.property,
            "part": part,
            "signature": f.sig,
            "message": f.msg,
            "case": case_json,
        });
        let _ = std::fs::write(&path, serde_json::to_string_pretty(&doc).unwrap());
        let is_known =
            known.iter().find(|k| k.property == self.property && k.status == "known" && k.signature == f.sig);
        match is_known {
            Some(k) => {
                let line = format!("KNOWN-FINDING: property={} {} [{}]", self.property, k.what, f.sig);
                if !self.known_hits.contains(&line) {
                    println!("{line}");
                    self.known_hits.push(line);
                }
            }
            None => {
                if !self.violations.iter().any(|(s, _, _)| s == &f.sig) {
                    println!("VIOLATION property={} replay={}", self.property, path.display());
                    println!("  signature: {}", f.sig);
                    println!("  detail: {}", f.msg);
                }
                self.violations.push((f.sig.clone(), f.msg.clone(), path.display().to_string()));
            }
        }
    }

    pub fn absorb(&mut self, case_hash: u64, sample: impl FnOnce() -> Value, out: &Outcome) {
        self.evaluations += 1;
        self.frames += out.frames;
        if out.inconclusive {
            self.inconclusive += 1;
        }
        for c in &out.classes {
            *self.classes.entry(c.clone()).or_insert(0) += 1;
        }
        if out.nontrivial {
            let fresh = self.nontrivial.insert(case_hash);
            if fresh && self.samples.len() < 3 {
                self.samples.push(sample());
            }
        }
    }

    pub fn write_evidence(&self) {
        // VERIF_EVIDENCE_DIR: scratch location used by tools/try_seed.sh, so that runs against a
        // deliberately broken tree never overwrite the evidence of the unchanged tree.
        let dir = match std::env::var("VERIF_EVIDENCE_DIR") {
            Ok(d) if !d.is_empty() => PathBuf::from(d),
            _ => verif_root().join("evidence"),
        };
        let _ = std::fs::create_dir_all(&dir);
        let mut coverage = serde_json::Map::new();
        coverage.insert("evaluations".into(), json!(self.evaluations));
        coverage.insert("distinct_nontrivial".into(), json!(self.nontrivial.len()));
        coverage.insert("rule".into(), json!(self.rule));
        coverage.insert("samples".into(), json!(self.samples));
        coverage.insert("classes".into(), json!(self.classes));
        coverage.insert("frames_observed".into(), json!(self.frames));
        coverage.insert("inconclusive_cases".into(), json!(self.inconclusive));
        coverage.insert("excluded_known".into(), json!(self.excluded_known));
        coverage.insert("exhaustive".into(), json!(self.exhaustive));
        coverage.insert("known_findings_reproduced".into(), json!(self.known_hits));
        coverage.insert("parts".into(), json!(self.parts));
        for (k, v) in &self.extra {
            coverage.insert(k.clone(), v.clone());
        }
        let doc = json!({
            "property_id": self.property,
            "tier": self.tier.name(),
            "seed": self.seed,
            "level": self.level,
            "coverage": coverage,
            "assumptions": self.assumptions,
            "wall_s": self.start.elapsed().as_secs_f64(),
            "violations": self.violations.len(),
            "violation_details": self.violations.iter().map(|(s,m,p)| json!({"signature": s, "message": m, "replay": p})).collect::<Vec<_>>(),
        });
        let path = dir.join(format!("{}.json", self.property));
        std::fs::write(&path, serde_json::to_string_pretty(&doc).unwrap()).expect("write evidence");
    }

    pub fn exit_code(&self) -> i32 {
        if !self.violations.is_empty() {
            1
        } else {
            0
        }
    }
}

pub fn hash_json<C: Serialize>(c: &C) -> u64 {
    let mut h = std::collections::hash_map::DefaultHasher::new();
    serde_json::to_string(c).unwrap().hash(&mut h);
    h.finish()
}

pub fn n_threads() -> usize {
    std::env::var("VERIF_THREADS").ok().and_then(|s| s.parse().ok()).unwrap_or(16)
}

#[derive(Default)]
struct ShardStats {
    evaluations: u64,
    frames: u64,
    inconclusive: u64,
    nontrivial: HashSet<u64>,
    classes: BTreeMap<String, u64>,
    samples: Vec<Value>,
}

/// Runs `cases` generated cases of one part of a property, sharded over threads.
pub fn run_generated<C, S, R>(report: &mut Report, part: &str, cases: u64, strategy: S, run: R)
where
    C: Clone + Debug + Serialize + DeserializeOwned + Send + 'static,
    S: Fn() -> BoxedStrategy<C> + Sync,
    R: Fn(&C) -> Outcome + Sync,
{
    let threads = n_threads().min(cases.max(1) as usize).max(1);
    let per = cases.div_ceil(threads as u64);
    let stop = AtomicBool::new(false);
    let failures: Mutex<Vec<(C, String)>> = Mutex::new(Vec::new());
    let stats: Mutex<Vec<ShardStats>> = Mutex::new(Vec::new());
    let seed = report.seed;
    let part_hash = {
        let mut h = std::collections::hash_map::DefaultHasher::new();
        part.hash(&mut h);
        report.property.hash(&mut h);
        h.finish()
    };
    let t0 = Instant::now();

    std::thread::scope(|scope| {
        for shard in 0..threads {
            let stop = &stop;
            let failures = &failures;
            let stats = &stats;
            let strategy = &strategy;
            let run = &run;
            std::thread::Builder::new()
                .stack_size(16 << 20)
                .spawn_scoped(scope, move || {
                    super::sim::install_panic_hook();
                    let mut seed_bytes = [0u8; 32];
                    seed_bytes[..8].copy_from_slice(&seed.to_le_bytes());
                    seed_bytes[8..16].copy_from_slice(&(shard as u64).to_le_bytes());
                    seed_bytes[16..24].copy_from_slice(&part_hash.to_le_bytes());
                    let rng = TestRng::from_seed(RngAlgorithm::ChaCha, &seed_bytes);
                    let config = Config {
                        cases: per as u32,
                        failure_persistence: None,
                        max_shrink_iters: 4000,
                        // Bounds shrinking of slow (e.g. livelocked, parked after the poll budget)
                        // cases in real time; only the size of the replay file depends on it.
                        max_shrink_time: 60_000,
                        max_global_rejects: 8,
                        max_local_rejects: 65536,
                        ..Config::default()
                    };
                    let mut runner = TestRunner::new_with_rng(config, rng);
                    let st = std::cell::RefCell::new(ShardStats::default());
                    let failed_once = std::cell::Cell::new(false);
                    let strat = strategy();
                    let res = runner.run(&strat, |case| {
                        if !failed_once.get() && stop.load(Ordering::Relaxed) {
                            return Err(TestCaseError::reject("stopped"));
                        }
                        let _ = super::sim::take_panics();
                        let trace = std::env::var("VERIF_TRACE").is_ok();
                        if trace {
                            eprintln!("[case shard {shard}] {}", serde_json::to_string(&case).unwrap());
                        }
                        let tc = Instant::now();
                        let out = run_one(run, &case, 1);
                        if trace {
                            eprintln!("[done shard {shard}] {:.3}s fail={:?}", tc.elapsed().as_secs_f64(), out.fail.as_ref().map(|f| &f.sig));
                        }
                        if !failed_once.get() {
                            let mut st = st.borrow_mut();
                            st.evaluations += 1;
                            st.frames += out.frames;
                            if out.inconclusive {
                                st.inconclusive += 1;
                            }
                            for c in &out.classes {
                                *st.classes.entry(c.clone()).or_insert(0) += 1;
                            }
                            if out.nontrivial {
                                let h = hash_json(&case);
                                if st.nontrivial.insert(h) && st.samples.len() < 2 {
                                    st.samples.push(serde_json::to_value(&case).unwrap());
                                }
                            }
                        }
                        match out.fail {
                            Some(f) => {
                                failed_once.set(true);
                                stop.store(true, Ordering::Relaxed);
                                Err(TestCaseError::fail(format!("{}|{}", f.sig, f.msg)))
                            }
                            None => Ok(()),
                        }
                    });
                    match res {
                        Ok(()) => {}
                        Err(TestError::Fail(reason, case)) => {
                            failures.lock().unwrap().push((case, reason.message().to_string()));
                        }
                        Err(TestError::Abort(_)) => {}
                    }
                    stats.lock().unwrap().push(st.into_inner());
                })
                .unwrap();
        }
    });

    let mut evals = 0;
    for st in stats.into_inner().unwrap() {
        evals += st.evaluations;
        report.evaluations += st.evaluations;
        report.frames += st.frames;
        report.inconclusive += st.inconclusive;
        for (k, v) in st.classes {
            *report.classes.entry(k).or_insert(0) += v;
        }
        for h in st.nontrivial {
            report.nontrivial.insert(h ^ part_hash);
        }
        for s in st.samples {
            if report.samples.len() < 4 {
                report.samples.push(json!({"part": part, "case": s}));
            }
        }
    }
    let mut fails = failures.into_inner().unwrap();
    // One failure per signature (each shard that found one has shrunk its own).
    let mut seen_reason_sigs: HashSet<String> = HashSet::new();
    fails.retain(|(_, reason)| seen_reason_sigs.insert(reason.split('|').next().unwrap_or("").to_string()));
    for (case, reason) in &fails {
        // Re-run the shrunk case to obtain its own signature. A livelock verdict is confirmed with
        // four times the poll budget: a genuine livelock trips any budget, a busy case does not.
        let out = run_confirmed(&run, case);
        if out.fail.is_none() && reason.contains("[spin guard") {
            // The failure was produced by parking a case that is busy but not livelocked.
            report.inconclusive += 1;
            continue;
        }
        let f = out.fail.unwrap_or_else(|| {
            let mut it = reason.splitn(2, '|');
            let sig = it.next().unwrap_or("unknown").to_string();
            let msg = it.next().unwrap_or("").to_string();
            Failure::new(sig, format!("{msg} (did not reproduce on re-run of the shrunk case)"))
        });
        report.record_failure(part, case, &f);
    }
    report.parts.push(json!({
        "part": part, "cases_requested": cases, "evaluations": evals, "wall_s": t0.elapsed().as_secs_f64(),
        "failures": fails.len(),
    }));
}

/// Runs explicit cases (regression / enumeration), in parallel.
pub fn run_cases<C, R>(report: &mut Report, part: &str, cases: Vec<C>, run: R)
where
    C: Clone + Debug + Serialize + Send + Sync + 'static,
    R: Fn(&C) -> Outcome + Sync,
{
    let t0 = Instant::now();
    let threads = n_threads().min(cases.len().max(1));
    let next = std::sync::atomic::AtomicUsize::new(0);
    let results: Mutex<Vec<(usize, Outcome)>> = Mutex::new(Vec::new());
    std::thread::scope(|scope| {
        for _ in 0..threads {
            let next = &next;
            let cases = &cases;
            let run = &run;
            let results = &results;
            std::thread::Builder::new()
                .stack_size(16 << 20)
                .spawn_scoped(scope, move || {
                    super::sim::install_panic_hook();
                    loop {
                        let i = next.fetch_add(1, Ordering::Relaxed);
                        if i >= cases.len() {
                            break;
                        }
                        let out = run_confirmed(run, &cases[i]);
                        results.lock().unwrap().push((i, out));
                    }
                })
                .unwrap();
        }
    });
    let mut results = results.into_inner().unwrap();
    results.sort_by_key(|(i, _)| *i);
    let mut fails = 0;
    let n = results.len();
    let mut seen_sigs: HashSet<String> = HashSet::new();
    for (i, out) in results {
        let h = hash_json(&cases[i]);
        let c = cases[i].clone();
        report.absorb(h, || json!({"part": part, "case": serde_json::to_value(&c).unwrap()}), &out);
        if let Some(f) = &out.fail {
            fails += 1;
            if seen_sigs.insert(f.sig.clone()) {
                report.record_failure(part, &cases[i], f);
            }
        }
    }
    report.parts.push(json!({
        "part": part, "cases_requested": n, "evaluations": n, "wall_s": t0.elapsed().as_secs_f64(), "failures": fails,
    }));
}

/// Loads regression cases for a property part from /verif/regress/<id>/<part>-*.json.
pub fn load_regress<C: DeserializeOwned>(property: &str, part: &str) -> Vec<(String, C)> {
    let dir = verif_root().join("regress").join(property);
    let mut out = Vec::new();
    if let Ok(rd) = std::fs::read_dir(&dir) {
        let mut names: Vec<_> = rd.filter_map(|e| e.ok()).map(|e| e.path()).collect();
        names.sort();
        for p in names {
            if p.extension().and_then(|e| e.to_str()) != Some("json") {
                continue;
            }
            let Ok(s) = std::fs::read_to_string(&p) else { continue };
            let Ok(v) = serde_json::from_str::<Value>(&s) else { continue };
            if v.get("part").and_then(|x| x.as_str()) != Some(part) {
                continue;
            }
            if let Some(c) = v.get("case") {
                match serde_json::from_value::<C>(c.clone()) {
                    Ok(c) => out.push((p.display().to_string(), c)),
                    Err(e) => eprintln!("warning: regress file {} does not parse: {e}", p.display()),
                }
            }
        }
    }
    out
}

/// Parses a replay file and returns (part, case json).
pub fn load_replay(path: &str) -> (String, Value) {
    let s = std::fs::read_to_string(path).unwrap_or_else(|e| {
        eprintln!("cannot read replay file {path}: {e}");
        std::process::exit(2)
    });
    let v: Value = serde_json::from_str(&s).unwrap_or_else(|e| {
        eprintln!("replay file {path} is not JSON: {e}");
        std::process::exit(2)
    });
    let part = v.get("part").and_then(|x| x.as_str()).unwrap_or("").to_string();
    let case = v.get("case").cloned().unwrap_or(Value::Null);
    (part, case)
}

/// Records that the simulation's spin guard parked the tasks of this case (sim::run_sim): a
/// failure then says so; a case that passed nevertheless is counted inconclusive.
fn note_spin(out: &mut Outcome) {
    if super::sim::take_spin() {
        out.classes.push("engine:spin-guard-tripped".into());
        match &mut out.fail {
            Some(f) => f.msg.push_str(" [spin guard: the tasks kept waking each other without virtual time advancing (livelock); they were parked so that the deadlines could fire]"),
            None => out.inconclusive = true,
        }
    }
}

/// Runs one case: panics become failures, the simulation's global virtual deadline (a harness
/// future that can never complete) becomes an inconclusive outcome, the spin guard is noted.
fn run_one<C, R>(run: &R, case: &C, spin_scale: u64) -> Outcome
where
    R: Fn(&C) -> Outcome,
{
    let _ = super::sim::take_panics();
    let _ = super::sim::take_sim_deadline();
    let out = std::panic::catch_unwind(std::panic::AssertUnwindSafe(|| super::sim::with_spin_scale(spin_scale, || run(case))));
    let panics = super::sim::take_panics();
    if super::sim::take_sim_deadline() {
        let _ = super::sim::take_spin();
        return Outcome { inconclusive: true, classes: vec!["engine:global-virtual-deadline".into()], ..Default::default() };
    }
    let mut out = out.unwrap_or_default();
    if out.fail.is_none() {
        if let Some(p) = panics.first() {
            let loc = p.split(": ").next().unwrap_or("").to_string();
            out.fail = Some(Failure::new(format!("panic/{loc}"), p.clone()));
        }
    }
    note_spin(&mut out);
    out
}

/// Like `run_one`; a livelock verdict of the spin guard is confirmed with four times the poll
/// budget and the confirmed run's verdict counts.
fn run_confirmed<C, R>(run: &R, case: &C) -> Outcome
where
    R: Fn(&C) -> Outcome,
{
    let out = run_one(run, case, 1);
    if out.classes.iter().any(|c| c == "engine:spin-guard-tripped") {
        return run_one(run, case, 4);
    }
    out
}

/// Replays one case several times; returns the failure (if any) and reproduction rate.
pub fn replay_case<C, R>(case: &C, run: R, times: u32) -> (Option<Failure>, u32)
where
    R: Fn(&C) -> Outcome,
{
    super::sim::install_panic_hook();
    let mut first = None;
    let mut hits = 0;
    for _ in 0..times {
        let out = run_confirmed(&run, case);
        if let Some(f) = out.fail {
            hits += 1;
            if first.is_none() {
                first = Some(f);
            }
        }
    }
    (first, hits)
}

pub fn boxed<T: Debug + 'static>(s: impl Strategy<Value = T> + 'static) -> BoxedStrategy<T> {
    s.boxed()
}

/// Number of replay repetitions (VERIF_REPLAY_N overrides the default).
pub fn replay_times(default: u32) -> u32 {
    std::env::var("VERIF_REPLAY_N").ok().and_then(|s| s.parse().ok()).unwrap_or(default)
}
