//! RefPeer: the harness as a chmux endpoint, speaking the wire protocol through the
//! independent reference codec. Used for C09 (conformance in both directions) and C08
//! (hostile peer).

use bytes::Bytes;
use futures::{SinkExt, StreamExt};
use std::{collections::VecDeque, time::Duration};

use super::{
    link::{Endpoint, SimSink, SimStream},
    refcodec::{RefCfg, RefMsg},
};

/// A message received from the real endpoint.
#[derive(Clone, Debug)]
pub struct Rx {
    /// Raw header frame.
    pub raw: Bytes,
    pub msg: RefMsg,
    /// Payload frame of a Data message.
    pub payload: Option<Bytes>,
}

pub struct RefPeer {
    pub sink: SimSink,
    pub stream: SimStream,
    /// What the peer advertises.
    pub cfg: RefCfg,
    pub version: u8,
    /// What the real endpoint advertised.
    pub real_cfg: Option<RefCfg>,
    pub real_version: Option<u8>,
    /// Non-matching frames seen while waiting for something else (credits, pings).
    pub credits_seen: Vec<(u32, u32)>,
    pub pings_seen: u32,
    pub log: Vec<String>,
    pub ended: bool,
    pushed_back: VecDeque<Rx>,
}

#[derive(Debug)]
pub enum PeerErr {
    /// Nothing arrived within the virtual wait.
    Timeout,
    /// Stream ended or failed.
    Closed(String),
    /// Frame did not decode with the reference decoder or is not canonical.
    Bad(String),
}

impl RefPeer {
    pub fn new(ep: Endpoint, cfg: RefCfg, version: u8) -> Self {
        Self {
            sink: ep.sink,
            stream: ep.stream,
            cfg,
            version,
            real_cfg: None,
            real_version: None,
            credits_seen: Vec::new(),
            pings_seen: 0,
            log: Vec::new(),
            ended: false,
            pushed_back: VecDeque::new(),
        }
    }

    pub async fn send_raw(&mut self, b: impl Into<Bytes>) -> Result<(), String> {
        // Bounded in virtual time: a link whose other end is gone or never reads must not park
        // the (paused) runtime for ever.
        match tokio::time::timeout(Duration::from_secs(600), self.sink.send(b.into())).await {
            Ok(r) => r.map_err(|e| e.to_string()),
            Err(_) => Err("peer send timed out (600 virtual s)".into()),
        }
    }

    pub async fn send(&mut self, m: &RefMsg) -> Result<(), String> {
        self.log.push(format!("peer-> {m:?}"));
        self.send_raw(m.encode()).await
    }

    pub async fn send_data(&mut self, port: u32, first: bool, last: bool, payload: Bytes) -> Result<(), String> {
        self.log.push(format!("peer-> Data{{port {port}, first {first}, last {last}}} + {} bytes", payload.len()));
        self.send_raw(RefMsg::Data { port, first, last }.encode()).await?;
        self.send_raw(payload).await
    }

    /// Reads the next raw frame, waiting at most `wait_ms` virtual milliseconds.
    pub async fn next_raw(&mut self, wait_ms: u64) -> Result<Bytes, PeerErr> {
        match tokio::time::timeout(Duration::from_millis(wait_ms), self.stream.next()).await {
            Err(_) => Err(PeerErr::Timeout),
            Ok(None) => {
                self.ended = true;
                Err(PeerErr::Closed("end of stream".into()))
            }
            Ok(Some(Err(e))) => {
                self.ended = true;
                Err(PeerErr::Closed(e.to_string()))
            }
            Ok(Some(Ok(b))) => Ok(b),
        }
    }

    /// Reads the next protocol message (header + payload for Data). The header must be in
    /// canonical reference encoding (decode -> encode reproduces the bytes).
    pub async fn next_msg(&mut self, wait_ms: u64) -> Result<Rx, PeerErr> {
        if let Some(rx) = self.pushed_back.pop_front() {
            return Ok(rx);
        }
        let raw = self.next_raw(wait_ms).await?;
        let msg = RefMsg::decode(&raw).map_err(|e| PeerErr::Bad(format!("frame {:?} does not decode: {e}", &raw[..])))?;
        let enc = msg.encode();
        if enc != raw[..] {
            return Err(PeerErr::Bad(format!(
                "frame {:?} is not the documented encoding of {msg:?} (expected {:?})",
                &raw[..],
                enc
            )));
        }
        let payload = if matches!(msg, RefMsg::Data { .. }) {
            match self.next_raw(60_000).await {
                Ok(p) => Some(p),
                Err(e) => return Err(PeerErr::Bad(format!("Data header not followed by a payload frame: {e:?}"))),
            }
        } else {
            None
        };
        self.log.push(format!("real-> {msg:?}{}", payload.as_ref().map(|p| format!(" + {} bytes", p.len())).unwrap_or_default()));
        Ok(Rx { raw, msg, payload })
    }

    /// Next message that is not a PortCredits or Ping (those are recorded).
    pub async fn next_significant(&mut self, wait_ms: u64) -> Result<Rx, PeerErr> {
        let deadline = tokio::time::Instant::now() + Duration::from_millis(wait_ms);
        loop {
            let left = deadline.saturating_duration_since(tokio::time::Instant::now()).as_millis() as u64;
            if left == 0 && self.pushed_back.is_empty() {
                return Err(PeerErr::Timeout);
            }
            let rx = self.next_msg(left).await?;
            match &rx.msg {
                RefMsg::PortCredits { port, credits } => self.credits_seen.push((*port, *credits)),
                RefMsg::Ping => self.pings_seen += 1,
                _ => return Ok(rx),
            }
        }
    }

    pub fn push_back(&mut self, rx: Rx) {
        self.pushed_back.push_back(rx);
    }

    /// Performs the handshake as the documented protocol prescribes: send Reset, Hello; read
    /// until the real endpoint's Hello arrives. Returns the raw frames received.
    pub async fn handshake(&mut self) -> Result<Vec<Bytes>, String> {
        self.send(&RefMsg::Reset).await?;
        self.send(&RefMsg::Hello { version: self.version, cfg: self.cfg.clone() }).await?;
        let mut frames = Vec::new();
        loop {
            let raw = match self.next_raw(120_000).await {
                Ok(r) => r,
                Err(e) => return Err(format!("handshake: {e:?}")),
            };
            frames.push(raw.clone());
            if let Ok(RefMsg::Hello { version, cfg }) = RefMsg::decode(&raw) {
                self.real_cfg = Some(cfg);
                self.real_version = Some(version);
                return Ok(frames);
            }
            if frames.len() > 8 {
                return Err("handshake: no Hello within 8 frames".into());
            }
        }
    }

    /// Takes the total credits the real endpoint returned for one of its receiving ports.
    pub fn take_credits(&mut self, peer_port: u32) -> u64 {
        let mut sum = 0u64;
        self.credits_seen.retain(|(p, c)| {
            if *p == peer_port {
                sum += *c as u64;
                false
            } else {
                true
            }
        });
        sum
    }
}
