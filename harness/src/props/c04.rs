//! C04 — Typed channels: per-sender prefix delivery; item failures never create gaps.
//!
//! Parts:
//! * `buf`    — no item exceeds `max_data_size` (everything is serialised into one buffer);
//!              deterministic simulation with paused virtual clock, link delays, faults.
//! * `stream` — `max_data_size` is small, big items are streamed chunk-wise through helper
//!              threads (`spawn_blocking`); real clock, tick-based pacing, real-time budget.
//! Both parts run over the simulated transport and over `remoc::Connect::io` on a
//! `tokio::io::duplex` pipe, with general and with tiny (4..16) chunk sizes / receive buffers.

use proptest::prelude::*;
use serde::{
    de::{self, SeqAccess, Visitor},
    ser::{self, SerializeSeq, SerializeTuple},
    Deserialize, Deserializer, Serialize, Serializer,
};
use std::{
    any::Any,
    cell::Cell,
    collections::{BTreeMap, BTreeSet},
    fmt,
    future::Future,
    pin::Pin,
    sync::{Arc, Mutex},
    time::Duration,
};

use crate::engine::{
    gen::{self, connect_pair, sched, small_u32, GCfg, Sched},
    link::{Fault, FaultKind, SimLink},
    runner::{self, Outcome, Report, Tier},
    sim::{self, spawn_actor, tape_pause, CancelAfter, Cancelled, Tape},
};
use remoc::{
    codec::{self, Codec},
    rch::{base, lr, mpsc, oneshot},
    RemoteSend,
};

// ---------------------------------------------------------------------------------------------
// Switches.
// ---------------------------------------------------------------------------------------------

/// Small item size limit used when a case limits the item size on a side.
const LIM: usize = 200;
/// "No limit" (library default, 16 MiB).
const DEF: usize = remoc::rch::DEFAULT_MAX_ITEM_SIZE;

/// Finding F1 (see REPORT.md): a streamed item whose serialiser fails only AFTER having emitted
/// its last byte is delivered to the receiver as `Ok` although its sender got a `Serialize`
/// error (base::Receiver accepts the result of the deserialiser thread without having seen the
/// final chunk of the message). While this is `true` the generator never lets a poisoned
/// serialiser fail after the last byte (it fails one byte earlier instead), so that the search
/// continues past the known finding.
pub const EXCLUDE_F1_SER_FAILS_AFTER_LAST_BYTE: bool = false;

/// Same root cause as F1, timing-dependent flavour that the generator cannot exclude without
/// giving up cancellation of streamed sends altogether: a streamed send that is cancelled (or
/// fails with a final error) after its last payload chunk has been queued but before the final
/// marker chunk (`ChunkSender::finish`) is delivered by the receiver. While this is `true`, such
/// a delivery (value intact, in order, not duplicated, item larger than the receiver's
/// max_data_size) is counted under the class `obs:F1-abandoned-streamed-item-delivered` instead
/// of being reported as `C04/failed-item-delivered`.
pub const KNOWN_F1_TOLERATE_ABANDONED_STREAMED_DELIVERY: bool = false;

/// Real-time budget (ms) of one streaming case; a time-out is re-checked with 5x the budget.
const REAL_BUDGET_MS_DEFAULT: u64 = 2_000;

/// `C04_BUDGET_MS` overrides the real-time budget (slow or heavily loaded machines).
fn real_budget_ms() -> u64 {
    std::env::var("C04_BUDGET_MS").ok().and_then(|s| s.parse().ok()).unwrap_or(REAL_BUDGET_MS_DEFAULT)
}

static CONFIRMED_HANGS: std::sync::atomic::AtomicU32 = std::sync::atomic::AtomicU32::new(0);
static CONFIRMED_HANG_CASES: Mutex<BTreeSet<u64>> = Mutex::new(BTreeSet::new());
/// Number of real-time hangs that are confirmed with the full budgets per process.
const MAX_CONFIRMED_HANGS: u32 = 4;

// ---------------------------------------------------------------------------------------------
// The item type: (sender id, seq, padding) with programmable (de)serialisation behaviour.
// ---------------------------------------------------------------------------------------------

const F_POISON_DE_EARLY: u8 = 1;
const F_POISON_DE_LATE: u8 = 2;
const F_SLOW_DE: u8 = 4;

thread_local! {
    /// Set on the thread that drives the runtime of a case: a slow deserialiser only sleeps on
    /// helper threads, never on the runtime thread.
    static DRIVER_THREAD: Cell<bool> = const { Cell::new(false) };
}

#[derive(Clone, Debug, Serialize, Deserialize, PartialEq, Eq)]
struct Head {
    #[serde(rename = "_0")]
    sender: u8,
    #[serde(rename = "_1")]
    seq: u16,
    #[serde(rename = "_2")]
    flags: u8,
    #[serde(rename = "_3")]
    slow_ms: u8,
}

#[derive(Clone)]
pub struct Item {
    head: Head,
    pad: Vec<u8>,
    /// Local only (not on the wire): the serialiser fails after having emitted that many
    /// padding bytes.
    fail_after: Option<u16>,
}

impl fmt::Debug for Item {
    fn fmt(&self, f: &mut fmt::Formatter) -> fmt::Result {
        write!(f, "Item(s{} #{} flags {} pad {})", self.head.sender, self.head.seq, self.head.flags, self.pad.len())
    }
}

struct PadSer<'a> {
    pad: &'a [u8],
    fail_after: Option<u16>,
}

impl Serialize for PadSer<'_> {
    fn serialize<S: Serializer>(&self, s: S) -> Result<S::Ok, S::Error> {
        // `fail_after == None`: never fails. `Some(k)`: fails instead of emitting padding byte k;
        // k == len fails after the last byte, k > len fails before anything of the padding
        // (not even its length) has been emitted.
        if self.fail_after.map(|k| k as usize > self.pad.len()).unwrap_or(false) {
            return Err(ser::Error::custom("C04 poisoned serialiser"));
        }
        let mut q = s.serialize_seq(Some(self.pad.len()))?;
        for (i, b) in self.pad.iter().enumerate() {
            if self.fail_after.map(|k| k as usize == i).unwrap_or(false) {
                return Err(ser::Error::custom("C04 poisoned serialiser"));
            }
            q.serialize_element(b)?;
        }
        if self.fail_after.is_some() {
            return Err(ser::Error::custom("C04 poisoned serialiser"));
        }
        q.end()
    }
}

impl Serialize for Item {
    fn serialize<S: Serializer>(&self, s: S) -> Result<S::Ok, S::Error> {
        let mut t = s.serialize_tuple(2)?;
        t.serialize_element(&self.head)?;
        t.serialize_element(&PadSer { pad: &self.pad, fail_after: self.fail_after })?;
        t.end()
    }
}

struct ItemVisitor;

impl<'de> Visitor<'de> for ItemVisitor {
    type Value = Item;

    fn expecting(&self, f: &mut fmt::Formatter) -> fmt::Result {
        write!(f, "a C04 item")
    }

    fn visit_seq<A: SeqAccess<'de>>(self, mut seq: A) -> Result<Item, A::Error> {
        let head: Head = seq.next_element()?.ok_or_else(|| de::Error::custom("C04 item without head"))?;
        let slow = head.flags & F_SLOW_DE != 0 && !DRIVER_THREAD.with(|d| d.get());
        if slow {
            std::thread::sleep(Duration::from_millis(head.slow_ms as u64));
        }
        if head.flags & F_POISON_DE_EARLY != 0 {
            return Err(de::Error::custom("C04 poisoned deserialiser (early)"));
        }
        let pad: Vec<u8> = seq.next_element()?.ok_or_else(|| de::Error::custom("C04 item without padding"))?;
        if slow {
            std::thread::sleep(Duration::from_millis(head.slow_ms as u64));
        }
        if head.flags & F_POISON_DE_LATE != 0 {
            return Err(de::Error::custom("C04 poisoned deserialiser (late)"));
        }
        Ok(Item { head, pad, fail_after: None })
    }
}

impl<'de> Deserialize<'de> for Item {
    fn deserialize<D: Deserializer<'de>>(d: D) -> Result<Self, D::Error> {
        d.deserialize_tuple(2, ItemVisitor)
    }
}

fn pad_bytes(sender: u8, seq: u16, len: usize) -> Vec<u8> {
    let mut v = Vec::with_capacity(len);
    let mut x = (sender as u32).wrapping_mul(0x9E37_79B1) ^ (seq as u32).wrapping_mul(0x85EB_CA6B) ^ 0x5bd1_e995;
    for i in 0..len {
        x = x.wrapping_mul(1_664_525).wrapping_add(1_013_904_223).wrapping_add(i as u32);
        v.push((x >> 17) as u8 & 0x7f);
    }
    v
}

/// Encoded size of an item on the wire of the given channel kind (mpsc-based channels wrap the
/// item into `Result<T, mpsc::RecvError>`).
fn enc_len(item: &Item, wrapped: bool) -> usize {
    let mut clean = item.clone();
    clean.fail_after = None;
    let mut buf = Vec::new();
    let res = if wrapped {
        let v: Result<Item, mpsc::RecvError> = Ok(clean);
        <codec::Default as Codec>::serialize(&mut buf, &v)
    } else {
        <codec::Default as Codec>::serialize(&mut buf, &clean)
    };
    res.expect("reference serialisation of a C04 item failed");
    buf.len()
}

// ---------------------------------------------------------------------------------------------
// Case.
// ---------------------------------------------------------------------------------------------

#[derive(Clone, Copy, Debug, Serialize, Deserialize, PartialEq, Eq, Hash)]
pub enum Kind {
    /// `base::Sender` at A, `base::Receiver` at B, directly on a raw port.
    Base,
    /// mpsc channel created at A, sender moved to B (1-3 clones send from B).
    MpscRemoteTx,
    /// mpsc channel created at A, receiver moved to B (1-3 clones send from A).
    MpscRemoteRx,
    /// lr channel created at A, sender moved to B.
    LrRemoteTx,
    /// lr channel created at A, receiver moved to B.
    LrRemoteRx,
    /// oneshot channel created at A, sender moved to B.
    OneshotRemoteTx,
    /// oneshot channel created at A, receiver moved to B.
    OneshotRemoteRx,
}

impl Kind {
    fn wrapped(self) -> bool {
        matches!(self, Kind::MpscRemoteTx | Kind::MpscRemoteRx | Kind::OneshotRemoteTx | Kind::OneshotRemoteRx)
    }
    fn multi(self) -> bool {
        matches!(self, Kind::MpscRemoteTx | Kind::MpscRemoteRx)
    }
    fn oneshot(self) -> bool {
        matches!(self, Kind::OneshotRemoteTx | Kind::OneshotRemoteRx)
    }
    /// Is the receiving half at endpoint B?
    fn rx_at_b(self) -> bool {
        matches!(self, Kind::Base | Kind::MpscRemoteRx | Kind::LrRemoteRx | Kind::OneshotRemoteRx)
    }
    fn name(self) -> &'static str {
        match self {
            Kind::Base => "base",
            Kind::MpscRemoteTx => "mpsc-remote-tx",
            Kind::MpscRemoteRx => "mpsc-remote-rx",
            Kind::LrRemoteTx => "lr-remote-tx",
            Kind::LrRemoteRx => "lr-remote-rx",
            Kind::OneshotRemoteTx => "oneshot-remote-tx",
            Kind::OneshotRemoteRx => "oneshot-remote-rx",
        }
    }
}

#[derive(Clone, Copy, Debug, Serialize, Deserialize, PartialEq, Eq, Hash)]
pub enum Transport {
    /// Harness-owned simulated frame transport.
    Sim,
    /// `remoc::Connect::io` over `tokio::io::duplex(buf)`.
    Duplex { buf: u16 },
}

#[derive(Clone, Copy, Debug, Serialize, Deserialize, PartialEq, Eq, Hash)]
pub enum Len {
    /// Padding length.
    Pad(u16),
    /// Encoded size = boundary `sel` + `off`.
    Enc(u8, i8),
}

#[derive(Clone, Copy, Debug, Serialize, Deserialize, PartialEq, Eq, Hash)]
pub enum IKind {
    Plain,
    /// `Serialize` fails after having emitted `after` padding bytes (clamped to the length).
    PoisonSer { after: u16 },
    /// `Deserialize` fails; `early`: before the padding has been read.
    PoisonDe { early: bool },
    /// `Deserialize` sleeps `ms` real milliseconds before and after the padding when it runs on a
    /// helper thread.
    SlowDe { ms: u8 },
}

#[derive(Clone, Copy, Debug, Serialize, Deserialize, PartialEq, Eq, Hash)]
pub struct ItemSpec {
    pub kind: IKind,
    pub len: Len,
    /// Drop the send future after that many pending polls.
    pub cancel: Option<u8>,
}

#[derive(Clone, Copy, Debug, Serialize, Deserialize, PartialEq, Eq, Hash)]
pub enum Event {
    None,
    /// The receiver is dropped after having obtained n values.
    DropRx { after: u8 },
    /// The receiver is closed after having obtained n values and keeps receiving.
    CloseRx { after: u8 },
    /// The transport is cut `after` frames (counted from the end of the set-up) into direction
    /// `dir`; `how`: 0 end of stream, 1 stream error, 2 sink error. Simulated transport only.
    Cut { dir: u8, after: u16, how: u8 },
}

#[derive(Clone, Debug, Serialize, Deserialize, PartialEq, Eq, Hash)]
pub struct Case {
    pub cfg_a: GCfg,
    pub cfg_b: GCfg,
    pub sched: Sched,
    pub transport: Transport,
    pub kind: Kind,
    /// Item size limited to `LIM` on the sending side.
    pub lim_tx: bool,
    /// Item size limited to `LIM` on the receiving side.
    pub lim_rx: bool,
    /// One script per sender (mpsc: 1-3, others: 1; oneshot: exactly one item).
    pub scripts: Vec<Vec<ItemSpec>>,
    /// mpsc: collect the `Sending` handles and await them after the script.
    pub pipeline: bool,
    /// mpsc: local buffer.
    pub buffer: u8,
    /// Receive-cancellation codes, cyclic: 0 = await `recv` to completion, n = drop the `recv`
    /// future after n pending polls and call `recv` again.
    pub rcancel: Vec<u8>,
    /// The receiver pauses (tape-driven) between two `recv` calls.
    pub rslow: bool,
    pub event: Event,
    /// Streaming part (real clock)?
    pub stream: bool,
    /// Let a poisoned serialiser fail after its last byte (trigger of finding F1) and report the
    /// delivery of an abandoned streamed item; the generator sets this to
    /// `!EXCLUDE_F1_SER_FAILS_AFTER_LAST_BYTE`. Replay files of finding F1 set it to `true`.
    #[serde(default)]
    pub allow_f1: bool,
}

impl Case {
    fn rx_cfg(&self) -> &GCfg {
        if self.kind.rx_at_b() {
            &self.cfg_b
        } else {
            &self.cfg_a
        }
    }
    fn tx_cfg(&self) -> &GCfg {
        if self.kind.rx_at_b() {
            &self.cfg_a
        } else {
            &self.cfg_b
        }
    }
    fn lim_tx(&self) -> usize {
        if self.lim_tx {
            LIM
        } else {
            DEF
        }
    }
    fn lim_rx(&self) -> usize {
        if self.lim_rx {
            LIM
        } else {
            DEF
        }
    }

    /// Builds the item of a script position.
    fn item(&self, sender: usize, seq: usize) -> Item {
        let spec = &self.scripts[sender][seq];
        let (flags, slow_ms) = match spec.kind {
            IKind::Plain | IKind::PoisonSer { .. } => (0, 0),
            IKind::PoisonDe { early: true } => (F_POISON_DE_EARLY, 0),
            IKind::PoisonDe { early: false } => (F_POISON_DE_LATE, 0),
            IKind::SlowDe { ms } => (F_SLOW_DE, ms.clamp(1, 5)),
        };
        let head = Head { sender: sender as u8, seq: seq as u16, flags, slow_ms };
        let max_pad = if self.stream { 3000 } else { 700 };
        let pad_len = match spec.len {
            Len::Pad(n) => (n as usize).min(max_pad),
            Len::Enc(sel, off) => {
                let rx = self.rx_cfg();
                let tx = self.tx_cfg();
                let mds = if rx.max_data_size <= 4096 { rx.max_data_size } else { rx.chunk_size as usize * 2 };
                let bases = [
                    mds,
                    rx.chunk_size as usize,
                    LIM,
                    rx.receive_buffer as usize,
                    mds * 2,
                    tx.chunk_size as usize,
                    rx.chunk_size as usize * 3,
                    mds + rx.chunk_size as usize,
                ];
                let target = (bases[sel as usize % bases.len()] as i64 + off as i64).max(0) as usize;
                let target = target.min(max_pad);
                // Fixed-point search: the encoded size is monotonic in the padding length.
                let probe = |pad: usize| enc_len(&Item { head: head.clone(), pad: vec![0; pad], fail_after: None }, self.kind.wrapped());
                let ovh = probe(0);
                let mut pad = target.saturating_sub(ovh);
                for _ in 0..4 {
                    let e = probe(pad);
                    if e == target || (e > target && pad == 0) {
                        break;
                    }
                    if e > target {
                        pad -= (e - target).min(pad);
                    } else {
                        pad += target - e;
                    }
                }
                pad
            }
        };
        let fail_after = match spec.kind {
            IKind::PoisonSer { after } => {
                let k = (after as usize).min(pad_len);
                if !self.allow_f1 && k == pad_len {
                    // One byte earlier; with empty padding: before the padding's length.
                    Some(if pad_len == 0 { 1 } else { pad_len as u16 - 1 })
                } else {
                    Some(k as u16)
                }
            }
            _ => None,
        };
        Item { pad: pad_bytes(head.sender, head.seq, pad_len), head, fail_after }
    }
}

// ---------------------------------------------------------------------------------------------
// Strategies.
// ---------------------------------------------------------------------------------------------

fn cfg_strategy(stream: bool) -> BoxedStrategy<GCfg> {
    let sizes = prop_oneof![
        // tiny chunk sizes and receive buffers
        3 => (4u32..=16, 4u32..=16),
        1 => (Just(4u32), Just(4u32)),
        3 => (small_u32(4, 64), small_u32(4, 256)),
        2 => (prop_oneof![Just(16u32), Just(64u32), Just(1024u32)], prop_oneof![Just(64u32), Just(256u32), Just(4096u32)]),
    ];
    let mds = if stream {
        prop_oneof![
            2 => Just(8usize),
            2 => Just(16usize),
            3 => 16usize..=128,
            2 => Just(256usize),
            1 => Just(512usize),
        ]
        .boxed()
    } else {
        Just(1usize << 20).boxed()
    };
    (sizes, mds, 1usize..=4, 1usize..=4, 1usize..=4)
        .prop_map(|((chunk_size, receive_buffer), max_data_size, shared_q, tsend_q, trecv_q)| GCfg {
            chunk_size,
            receive_buffer,
            max_data_size,
            shared_q,
            tsend_q,
            trecv_q,
            connect_queue: 4,
            max_ports: 64,
            max_received_ports: 16,
            timeout_s: Some(60),
        })
        .boxed()
}

fn len_strategy(stream: bool) -> BoxedStrategy<Len> {
    if stream {
        prop_oneof![
            3 => (0u16..=40).prop_map(Len::Pad),
            3 => (any::<u8>(), -2i8..=2).prop_map(|(s, o)| Len::Enc(s, o)),
            3 => (40u16..=600).prop_map(Len::Pad),
            2 => (600u16..=3000).prop_map(Len::Pad),
        ]
        .boxed()
    } else {
        prop_oneof![
            4 => (0u16..=40).prop_map(Len::Pad),
            3 => (any::<u8>(), -2i8..=2).prop_map(|(s, o)| Len::Enc(s, o)),
            2 => (40u16..=700).prop_map(Len::Pad),
        ]
        .boxed()
    }
}

fn item_strategy(stream: bool) -> BoxedStrategy<ItemSpec> {
    let kind = if stream {
        prop_oneof![
            8 => Just(IKind::Plain),
            2 => (0u16..=600).prop_map(|after| IKind::PoisonSer { after }),
            2 => any::<bool>().prop_map(|early| IKind::PoisonDe { early }),
            2 => (1u8..=4).prop_map(|ms| IKind::SlowDe { ms }),
        ]
        .boxed()
    } else {
        prop_oneof![
            8 => Just(IKind::Plain),
            2 => (0u16..=100).prop_map(|after| IKind::PoisonSer { after }),
            2 => any::<bool>().prop_map(|early| IKind::PoisonDe { early }),
        ]
        .boxed()
    };
    (kind, len_strategy(stream), prop_oneof![5 => Just(None), 2 => (0u8..=6).prop_map(Some), 1 => (0u8..=60).prop_map(Some)])
        .prop_map(|(kind, len, cancel)| ItemSpec { kind, len, cancel })
        .boxed()
}

pub fn strategy(stream: bool, tier: Tier) -> BoxedStrategy<Case> {
    let max_items = if stream { tier.pick(6usize, 8usize) } else { tier.pick(8usize, 12usize) };
    let kind = prop_oneof![
        4 => Just(Kind::Base),
        3 => Just(Kind::MpscRemoteTx),
        3 => Just(Kind::MpscRemoteRx),
        2 => Just(Kind::LrRemoteTx),
        2 => Just(Kind::LrRemoteRx),
        1 => Just(Kind::OneshotRemoteTx),
        1 => Just(Kind::OneshotRemoteRx),
    ];
    let transport = prop_oneof![
        3 => Just(Transport::Sim),
        1 => prop_oneof![Just(8u16), Just(64u16), Just(4096u16), 1u16..=64].prop_map(|buf| Transport::Duplex { buf }),
    ];
    let event = prop_oneof![
        8 => Just(Event::None),
        1 => (0u8..=6).prop_map(|after| Event::DropRx { after }),
        1 => (0u8..=6).prop_map(|after| Event::CloseRx { after }),
        1 => (0u8..2, prop_oneof![0u16..=12, 0u16..=200], 0u8..3).prop_map(|(dir, after, how)| Event::Cut { dir, after, how }),
    ];
    let scripts = proptest::collection::vec(proptest::collection::vec(item_strategy(stream), 1..=max_items), 1..=3);
    let rcancel = prop_oneof![
        3 => Just(vec![0u8]),
        3 => proptest::collection::vec(prop_oneof![2 => Just(0u8), 3 => 1u8..=4, 1 => 1u8..=40], 1..8),
        1 => Just(vec![1u8]),
    ];
    (
        (cfg_strategy(stream), cfg_strategy(stream), any::<bool>(), sched(!stream), transport),
        (kind, any::<bool>(), any::<bool>(), prop_oneof![3 => Just(false), 1 => Just(true)], prop_oneof![3 => Just(false), 1 => Just(true)]),
        (scripts, any::<bool>(), 1u8..=4, rcancel, any::<bool>(), event),
    )
        .prop_map(move |((cfg_a, cfg_b, same_cfg, sched, transport), (kind, lim_tx_on, lim_rx_on, lim_tx, lim_rx), (mut scripts, pipeline, buffer, rcancel, rslow, event))| {
            // Identical configurations on both ends for half of the duplex cases.
            let cfg_b = if same_cfg && matches!(transport, Transport::Duplex { .. }) { cfg_a.clone() } else { cfg_b };
            if !kind.multi() {
                scripts.truncate(1);
            }
            if kind.oneshot() {
                scripts[0].truncate(1);
            }
            let event = match (event, transport) {
                (Event::Cut { .. }, Transport::Duplex { .. }) => Event::None,
                (e, _) => e,
            };
            Case {
                cfg_a,
                cfg_b,
                sched,
                transport,
                kind,
                lim_tx: lim_tx && lim_tx_on,
                lim_rx: lim_rx && lim_rx_on,
                scripts,
                pipeline,
                buffer,
                rcancel,
                rslow,
                event,
                stream,
                allow_f1: !EXCLUDE_F1_SER_FAILS_AFTER_LAST_BYTE,
            }
        })
        .boxed()
}

// ---------------------------------------------------------------------------------------------
// Channel halves of all kinds behind one interface.
// ---------------------------------------------------------------------------------------------

type MRx<const M: usize> = mpsc::Receiver<Item, codec::Default, { remoc::rch::DEFAULT_BUFFER }, M>;
type ORx<const M: usize> = oneshot::Receiver<Item, codec::Default, M>;

enum Tx {
    Base(base::Sender<Item>),
    Lr(lr::Sender<Item>),
    Mpsc(mpsc::Sender<Item>),
    One(Option<oneshot::Sender<Item>>),
}

enum Rx {
    Base(base::Receiver<Item>),
    Lr(lr::Receiver<Item>),
    MpscD(MRx<DEF>),
    MpscS(MRx<LIM>),
    OneD(ORx<DEF>),
    OneS(ORx<LIM>),
}

/// What one `recv` produced.
#[derive(Clone, Debug)]
enum REv {
    Item(Item),
    /// End of the channel (`Ok(None)`; oneshot: `Closed`).
    End,
    Err { fin: bool, what: String },
    /// The harness dropped the receiver (event).
    Dropped,
}

fn short(e: impl fmt::Debug) -> String {
    let s = format!("{e:?}");
    s.chars().take(80).collect()
}

impl Rx {
    async fn recv1(&mut self) -> REv {
        fn conv<E: fmt::Debug>(r: Result<Option<Item>, E>, fin: impl Fn(&E) -> bool) -> REv {
            match r {
                Ok(Some(v)) => REv::Item(v),
                Ok(None) => REv::End,
                Err(e) => REv::Err { fin: fin(&e), what: short(&e) },
            }
        }
        match self {
            Rx::Base(r) => conv(r.recv().await, |e| e.is_final()),
            Rx::Lr(r) => conv(r.recv().await, |e| e.is_final()),
            Rx::MpscD(r) => conv(r.recv().await, |e| e.is_final()),
            Rx::MpscS(r) => conv(r.recv().await, |e| e.is_final()),
            Rx::OneD(r) => one(std::future::poll_fn(|cx| Pin::new(&mut *r).poll(cx)).await),
            Rx::OneS(r) => one(std::future::poll_fn(|cx| Pin::new(&mut *r).poll(cx)).await),
        }
    }

    async fn close(&mut self) {
        match self {
            Rx::Base(r) => r.close().await,
            Rx::Lr(r) => r.close().await,
            Rx::MpscD(r) => r.close(),
            Rx::MpscS(r) => r.close(),
            Rx::OneD(r) => r.close(),
            Rx::OneS(r) => r.close(),
        }
    }

    fn is_oneshot(&self) -> bool {
        matches!(self, Rx::OneD(_) | Rx::OneS(_))
    }
}

fn one(r: Result<Item, oneshot::RecvError>) -> REv {
    match r {
        Ok(v) => REv::Item(v),
        Err(oneshot::RecvError::Closed) => REv::End,
        Err(e) => REv::Err { fin: e.is_final(), what: short(&e) },
    }
}

/// Final status of an item the sender tried to send.
#[derive(Clone, Debug, PartialEq)]
enum St {
    /// `send` returned `Ok` / the `Sending` handle resolved to `Ok`.
    Acked,
    /// Item-specific error reported to the sender.
    ItemErr(String),
    /// The send future was dropped by the harness.
    Cancelled,
    /// Final error (closed, dropped, connection failed).
    FinalErr(String),
    /// mpsc: `send` accepted the item, the `Sending` handle reported `Dropped`.
    Unknown,
    /// mpsc/oneshot: `send` itself refused the item (not accepted by the API).
    Rejected(String),
}

type Keep = Vec<Box<dyn Any + Send>>;

/// A base channel A -> B over the transport of the case.
struct Conn<S, R> {
    tx: base::Sender<S>,
    rx: base::Receiver<R>,
    link: Option<SimLink>,
    keep: Keep,
}

async fn establish<S: RemoteSend, R: RemoteSend>(case: &Case) -> Result<Conn<S, R>, String> {
    match case.transport {
        Transport::Sim => {
            let (link, a, b) = connect_pair(&case.cfg_a, &case.cfg_b, &case.sched, vec![]).await?;
            let gen::Side { client: ca, listener: la, run: ra } = a;
            let gen::Side { client: cb, listener: mut lb, run: rb } = b;
            let (conn, acc) = tokio::join!(ca.connect(), lb.accept());
            let ((raw_tx, raw_rx_a), (raw_tx_b, raw_rx)) = match (conn, acc) {
                (Ok(c), Ok(Some(l))) => (c, l),
                (c, l) => return Err(format!("port set-up failed: connect {:?} accept {:?}", c.err(), l.map(|o| o.is_some()))),
            };
            let keep: Keep = vec![Box::new(ca), Box::new(la), Box::new(cb), Box::new(lb), Box::new(raw_rx_a), Box::new(raw_tx_b), Box::new(AbortOnDrop(ra)), Box::new(AbortOnDrop(rb))];
            Ok(Conn { tx: base::Sender::new(raw_tx), rx: base::Receiver::new(raw_rx), link: Some(link), keep })
        }
        Transport::Duplex { buf } => {
            let (sa, sb) = tokio::io::duplex(buf.max(1) as usize);
            let (ra, wa) = tokio::io::split(sa);
            let (rb, wb) = tokio::io::split(sb);
            // The connection future must be polled as soon as `Connect::io` returns, otherwise the
            // peer's channel set-up cannot complete.
            let cfg_a = case.cfg_a.to_cfg();
            let cfg_b = case.cfg_b.to_cfg();
            let (a, b) = tokio::join!(
                async move {
                    let (conn, tx, rx) = remoc::Connect::io::<_, _, S, (), codec::Default>(cfg_a, ra, wa).await.map_err(|e| format!("Connect::io at A failed: {e}"))?;
                    Ok::<_, String>((AbortOnDrop(spawn_actor(conn)), tx, rx))
                },
                async move {
                    let (conn, tx, rx) = remoc::Connect::io::<_, _, (), R, codec::Default>(cfg_b, rb, wb).await.map_err(|e| format!("Connect::io at B failed: {e}"))?;
                    Ok::<_, String>((AbortOnDrop(spawn_actor(conn)), tx, rx))
                }
            );
            let (ha, tx_a, rx_a) = a?;
            let (hb, tx_b, rx_b) = b?;
            let keep: Keep = vec![Box::new(rx_a), Box::new(tx_b), Box::new(ha), Box::new(hb)];
            Ok(Conn { tx: tx_a, rx: rx_b, link: None, keep })
        }
    }
}

struct AbortOnDrop<T>(tokio::task::JoinHandle<T>);

impl<T> Drop for AbortOnDrop<T> {
    fn drop(&mut self) {
        self.0.abort();
    }
}

/// Moves a channel half from A to B over a fresh base channel.
async fn move_half<S: RemoteSend, R: RemoteSend>(case: &Case, half: S) -> Result<(R, Option<SimLink>, Keep), String> {
    let mut c = establish::<S, R>(case).await?;
    let (s, r) = tokio::join!(c.tx.send(half), c.rx.recv());
    if let Err(e) = s {
        return Err(format!("sending the channel half failed: {:?}", e.kind));
    }
    let half = match r {
        Ok(Some(h)) => h,
        Ok(None) => return Err("receiving the channel half: end of channel".into()),
        Err(e) => return Err(format!("receiving the channel half failed: {e:?}")),
    };
    let Conn { tx, rx, link, mut keep } = c;
    keep.push(Box::new(tx));
    keep.push(Box::new(rx));
    Ok((half, link, keep))
}

/// Creates the channel of the case: (senders, receiver, link, keep-alive).
async fn build(case: &Case) -> Result<(Vec<Tx>, Rx, Option<SimLink>, Keep), String> {
    let n = case.scripts.len();
    match case.kind {
        Kind::Base => {
            let Conn { mut tx, mut rx, link, keep } = establish::<Item, Item>(case).await?;
            tx.set_max_item_size(case.lim_tx());
            rx.set_max_item_size(case.lim_rx());
            Ok((vec![Tx::Base(tx)], Rx::Base(rx), link, keep))
        }
        Kind::LrRemoteTx => {
            let (mut tx, mut rx) = lr::channel::<Item, codec::Default>();
            tx.set_max_item_size(case.lim_tx());
            rx.set_max_item_size(case.lim_rx());
            let (tx, link, keep) = move_half::<lr::Sender<Item>, lr::Sender<Item>>(case, tx).await?;
            Ok((vec![Tx::Lr(tx)], Rx::Lr(rx), link, keep))
        }
        Kind::LrRemoteRx => {
            let (mut tx, mut rx) = lr::channel::<Item, codec::Default>();
            tx.set_max_item_size(case.lim_tx());
            rx.set_max_item_size(case.lim_rx());
            let (rx, link, keep) = move_half::<lr::Receiver<Item>, lr::Receiver<Item>>(case, rx).await?;
            Ok((vec![Tx::Lr(tx)], Rx::Lr(rx), link, keep))
        }
        Kind::MpscRemoteTx => {
            let (mut tx, rx) = mpsc::channel::<Item, codec::Default>(case.buffer.max(1) as usize);
            tx.set_max_item_size(case.lim_tx());
            let rx = if case.lim_rx { Rx::MpscS(rx.set_max_item_size::<LIM>()) } else { Rx::MpscD(rx) };
            let (tx, link, keep) = move_half::<mpsc::Sender<Item>, mpsc::Sender<Item>>(case, tx).await?;
            Ok(((0..n).map(|_| Tx::Mpsc(tx.clone())).collect(), rx, link, keep))
        }
        Kind::MpscRemoteRx => {
            let (tx, rx) = mpsc::channel::<Item, codec::Default>(case.buffer.max(1) as usize);
            // The const parameter of the receiver that is serialised limits the sending side,
            // the one of the receiver that is deserialised limits the receiving side.
            let (rx, link, keep) = match (case.lim_tx, case.lim_rx) {
                (false, false) => {
                    let (r, l, k) = move_half::<MRx<DEF>, MRx<DEF>>(case, rx).await?;
                    (Rx::MpscD(r), l, k)
                }
                (true, false) => {
                    let (r, l, k) = move_half::<MRx<LIM>, MRx<DEF>>(case, rx.set_max_item_size::<LIM>()).await?;
                    (Rx::MpscD(r), l, k)
                }
                (false, true) => {
                    let (r, l, k) = move_half::<MRx<DEF>, MRx<LIM>>(case, rx).await?;
                    (Rx::MpscS(r), l, k)
                }
                (true, true) => {
                    let (r, l, k) = move_half::<MRx<LIM>, MRx<LIM>>(case, rx.set_max_item_size::<LIM>()).await?;
                    (Rx::MpscS(r), l, k)
                }
            };
            Ok(((0..n).map(|_| Tx::Mpsc(tx.clone())).collect(), rx, link, keep))
        }
        Kind::OneshotRemoteTx => {
            let (mut tx, rx) = oneshot::channel::<Item, codec::Default>();
            tx.set_max_item_size(case.lim_tx());
            let rx = if case.lim_rx { Rx::OneS(rx.set_max_item_size::<LIM>()) } else { Rx::OneD(rx) };
            let (tx, link, keep) = move_half::<oneshot::Sender<Item>, oneshot::Sender<Item>>(case, tx).await?;
            Ok((vec![Tx::One(Some(tx))], rx, link, keep))
        }
        Kind::OneshotRemoteRx => {
            let (tx, rx) = oneshot::channel::<Item, codec::Default>();
            let (rx, link, keep) = match (case.lim_tx, case.lim_rx) {
                (false, false) => {
                    let (r, l, k) = move_half::<ORx<DEF>, ORx<DEF>>(case, rx).await?;
                    (Rx::OneD(r), l, k)
                }
                (true, false) => {
                    let (r, l, k) = move_half::<ORx<LIM>, ORx<DEF>>(case, rx.set_max_item_size::<LIM>()).await?;
                    (Rx::OneD(r), l, k)
                }
                (false, true) => {
                    let (r, l, k) = move_half::<ORx<DEF>, ORx<LIM>>(case, rx).await?;
                    (Rx::OneS(r), l, k)
                }
                (true, true) => {
                    let (r, l, k) = move_half::<ORx<LIM>, ORx<LIM>>(case, rx.set_max_item_size::<LIM>()).await?;
                    (Rx::OneS(r), l, k)
                }
            };
            Ok((vec![Tx::One(Some(tx))], rx, link, keep))
        }
    }
}

// ---------------------------------------------------------------------------------------------
// Execution.
// ---------------------------------------------------------------------------------------------

#[derive(Default)]
struct Hist {
    /// Per sender: (seq, status) in the order the sends were issued.
    slog: Vec<Vec<(usize, St)>>,
    sender_done: Vec<bool>,
    rlog: Vec<REv>,
    receiver_done: bool,
    recv_cancels: u32,
    setup_done: bool,
    setup_err: Option<String>,
    frames: u64,
    finished: bool,
}

type SharedHist = Arc<Mutex<Hist>>;

fn classify_base(kind: &base::SendErrorKind) -> St {
    if kind.is_item_specific() {
        St::ItemErr(short(kind))
    } else {
        St::FinalErr(short(kind))
    }
}

async fn run_sender(case: Arc<Case>, si: usize, mut tx: Tx, hist: SharedHist, tape: Tape) {
    let n = case.scripts[si].len();
    let timers = !case.stream;
    let push = |seq: usize, st: St| hist.lock().unwrap().slog[si].push((seq, st));
    let mut pending: Vec<(usize, remoc::rch::Sending<Item>)> = Vec::new();
    for seq in 0..n {
        tape_pause(&tape, timers).await;
        let item = case.item(si, seq);
        let polls = case.scripts[si][seq].cancel.map(|c| c as u32);
        match &mut tx {
            Tx::Base(tx) => match CancelAfter::new(tx.send(item), polls).await {
                Cancelled::Dropped => push(seq, St::Cancelled),
                Cancelled::Done(Ok(())) => push(seq, St::Acked),
                Cancelled::Done(Err(e)) => {
                    let st = classify_base(&e.kind);
                    let stop = matches!(st, St::FinalErr(_));
                    push(seq, st);
                    if stop {
                        break;
                    }
                }
            },
            Tx::Lr(tx) => match CancelAfter::new(tx.send(item), polls).await {
                Cancelled::Dropped => push(seq, St::Cancelled),
                Cancelled::Done(Ok(())) => push(seq, St::Acked),
                Cancelled::Done(Err(e)) => {
                    let st = if e.is_item_specific() { St::ItemErr(short(&e.kind)) } else { St::FinalErr(short(&e.kind)) };
                    let stop = matches!(st, St::FinalErr(_));
                    push(seq, st);
                    if stop {
                        break;
                    }
                }
            },
            Tx::Mpsc(tx) => match CancelAfter::new(tx.send(item), polls).await {
                // A cancelled mpsc `send` has not queued the item.
                Cancelled::Dropped => push(seq, St::Cancelled),
                Cancelled::Done(Err(e)) => {
                    push(seq, St::Rejected(short(e.without_item())));
                    break;
                }
                Cancelled::Done(Ok(sending)) => {
                    if case.pipeline {
                        pending.push((seq, sending));
                    } else {
                        let st = resolve(sending.await);
                        push(seq, st);
                    }
                }
            },
            Tx::One(tx) => {
                let tx = tx.take().expect("oneshot sender used twice");
                match tx.send(item) {
                    Err(e) => push(seq, St::Rejected(short(e.without_item()))),
                    Ok(sending) => {
                        let st = resolve(sending.await);
                        push(seq, st);
                    }
                }
            }
        }
    }
    for (seq, sending) in pending {
        let st = resolve(sending.await);
        push(seq, st);
    }
    drop(tx);
    hist.lock().unwrap().sender_done[si] = true;
}

fn resolve(r: Result<(), remoc::rch::SendingError<Item>>) -> St {
    match r {
        Ok(()) => St::Acked,
        Err(remoc::rch::SendingError::Send(e)) => classify_base(&e.kind),
        Err(remoc::rch::SendingError::Dropped) => St::Unknown,
    }
}

async fn run_receiver(case: Arc<Case>, mut rx: Rx, hist: SharedHist, tape: Tape) {
    let timers = !case.stream;
    let total: usize = case.scripts.iter().map(|s| s.len()).sum();
    let mut got = 0usize;
    let mut closed = false;
    let mut k = 0usize;
    let mut events = 0usize;
    loop {
        match case.event {
            Event::DropRx { after } if got >= after as usize => {
                drop(rx);
                let mut h = hist.lock().unwrap();
                h.rlog.push(REv::Dropped);
                h.receiver_done = true;
                return;
            }
            Event::CloseRx { after } if !closed && got >= after as usize => {
                rx.close().await;
                closed = true;
            }
            _ => {}
        }
        let ev = loop {
            let code = if case.rcancel.is_empty() { 0 } else { case.rcancel[k % case.rcancel.len()] };
            k += 1;
            let polls = if code == 0 { None } else { Some(code as u32) };
            match CancelAfter::new(rx.recv1(), polls).await {
                Cancelled::Done(ev) => break ev,
                Cancelled::Dropped => {
                    hist.lock().unwrap().recv_cancels += 1;
                    if case.rslow {
                        tape_pause(&tape, timers).await;
                    }
                }
            }
        };
        events += 1;
        let stop = match &ev {
            REv::Item(_) => {
                got += 1;
                rx.is_oneshot()
            }
            REv::End | REv::Dropped => true,
            REv::Err { fin, .. } => *fin || rx.is_oneshot(),
        };
        hist.lock().unwrap().rlog.push(ev);
        if stop || events > total + 64 {
            break;
        }
        if case.rslow {
            tape_pause(&tape, timers).await;
        }
    }
    drop(rx);
    hist.lock().unwrap().receiver_done = true;
}

async fn execute(case: Arc<Case>, hist: SharedHist, tape: Tape) {
    let (txs, rx, link, keep) = match build(&case).await {
        Ok(x) => x,
        Err(e) => {
            let mut h = hist.lock().unwrap();
            h.setup_err = Some(e);
            h.finished = true;
            return;
        }
    };
    hist.lock().unwrap().setup_done = true;
    if let (Event::Cut { dir, after, how }, Some(link)) = (case.event, &link) {
        let kind = match how % 3 {
            0 => FaultKind::Eof,
            1 => FaultKind::StreamError,
            _ => FaultKind::SinkError,
        };
        let dir = dir % 2;
        link.arm(Fault { dir, after: link.sent(dir) + after as u32, kind });
    }
    let mut handles = Vec::new();
    for (si, tx) in txs.into_iter().enumerate() {
        handles.push(spawn_actor(run_sender(case.clone(), si, tx, hist.clone(), tape.clone())));
    }
    let rh = spawn_actor(run_receiver(case.clone(), rx, hist.clone(), tape.clone()));
    for h in handles {
        let _ = h.await;
    }
    let _ = rh.await;
    let mut h = hist.lock().unwrap();
    h.frames = link.as_ref().map(|l| l.tap_len() as u64 / 2).unwrap_or(0);
    h.finished = true;
    drop(h);
    drop(keep);
}

/// Upper bound of the frames a case needs (for the virtual deadline).
fn frame_estimate(case: &Case) -> u64 {
    let unit = case.cfg_a.chunk_size.min(case.cfg_b.chunk_size).min(case.cfg_a.receive_buffer).min(case.cfg_b.receive_buffer).max(1) as u64;
    let bytes: u64 = case.scripts.iter().map(|s| s.len() as u64 * 800).sum();
    400 + 4 * bytes / unit
}

fn new_hist(case: &Case) -> SharedHist {
    let n = case.scripts.len();
    Arc::new(Mutex::new(Hist { slog: vec![Vec::new(); n], sender_done: vec![false; n], ..Default::default() }))
}

/// Runs the case once; returns the history and whether it ran to completion in time.
fn run_once(case: &Case, real_budget_ms: u64) -> (SharedHist, bool) {
    let hist = new_hist(case);
    let tape = case.sched.tape();
    let acase = Arc::new(case.clone());
    DRIVER_THREAD.with(|d| d.set(true));
    let fut = execute(acase, hist.clone(), tape.clone());
    let done = if case.stream {
        sim::run_real(case.sched.tokio_seed, &tape, case.sched.defer, async move {
            tokio::time::timeout(Duration::from_millis(real_budget_ms), fut).await.is_ok()
        })
    } else {
        let deadline = case.sched.deadline_s(frame_estimate(case), gen::delay_cap_ms(&case.cfg_a, &case.cfg_b));
        sim::run_sim(case.sched.tokio_seed, &tape, case.sched.defer, async move { sim::within(deadline, fut).await.is_ok() })
    };
    DRIVER_THREAD.with(|d| d.set(false));
    (hist, done)
}

// ---------------------------------------------------------------------------------------------
// Oracle.
// ---------------------------------------------------------------------------------------------

fn describe_hang(h: &Hist) -> String {
    let senders: Vec<String> = h
        .slog
        .iter()
        .enumerate()
        .map(|(i, l)| format!("sender {i}: {} ({} statuses, last {:?})", if h.sender_done[i] { "done" } else { "STUCK" }, l.len(), l.last()))
        .collect();
    format!(
        "set-up {}; {}; receiver {} after {} events (last {:?}), {} cancelled recv calls",
        if h.setup_done { "done" } else { "STUCK" },
        senders.join("; "),
        if h.receiver_done { "done" } else { "STUCK" },
        h.rlog.len(),
        h.rlog.last(),
        h.recv_cancels
    )
}

fn judge(case: &Case, h: &Hist, out: &mut Outcome) {
    let wrapped = case.kind.wrapped();
    let healthy = matches!(case.event, Event::None);
    let min_lim = case.lim_tx().min(case.lim_rx());
    let mds = case.rx_cfg().max_data_size;

    // Reference data of every script position.
    struct Pos {
        item: Item,
        enc: usize,
        status: Option<St>,
        received: bool,
    }
    let mut pos: Vec<Vec<Pos>> = Vec::new();
    for (si, script) in case.scripts.iter().enumerate() {
        let mut v = Vec::new();
        for seq in 0..script.len() {
            let item = case.item(si, seq);
            let enc = enc_len(&item, wrapped);
            v.push(Pos { item, enc, status: None, received: false });
        }
        pos.push(v);
    }
    for (si, log) in h.slog.iter().enumerate() {
        for (seq, st) in log {
            pos[si][*seq].status = Some(st.clone());
        }
    }

    // 1. What the receiver obtained.
    let mut last_seq: Vec<Option<usize>> = vec![None; case.scripts.len()];
    let mut nonfinal_errors = 0usize;
    let mut final_error: Option<String> = None;
    let mut ended = false;
    for ev in &h.rlog {
        match ev {
            REv::Item(v) => {
                let (si, seq) = (v.head.sender as usize, v.head.seq as usize);
                if si >= pos.len() || seq >= pos[si].len() {
                    out.fail("C04/corrupt-item", format!("receiver obtained {v:?}, which no sender sent"));
                    return;
                }
                let p = &mut pos[si][seq];
                if v.head != p.item.head || v.pad != p.item.pad {
                    out.fail(
                        "C04/corrupt-item",
                        format!("receiver obtained {v:?} but sender {si} sent {:?} at position {seq} (padding equal: {})", p.item, v.pad == p.item.pad),
                    );
                    return;
                }
                if p.received {
                    out.fail("C04/duplicate", format!("item {:?} was received twice", p.item));
                    return;
                }
                p.received = true;
                if let Some(l) = last_seq[si] {
                    if seq < l {
                        out.fail("C04/reorder", format!("sender {si}: item #{seq} received after item #{l}"));
                        return;
                    }
                }
                last_seq[si] = Some(seq);
                match &p.status {
                    None => {
                        // The send of this item is still in progress only if its sender is stuck;
                        // a finished sender has a status for everything it tried.
                        if h.sender_done[si] {
                            out.fail("C04/phantom-item", format!("receiver obtained {:?}, which its sender never tried to send", p.item));
                            return;
                        }
                    }
                    Some(St::Acked) | Some(St::Unknown) => {}
                    Some(St::Cancelled | St::FinalErr(_)) if KNOWN_F1_TOLERATE_ABANDONED_STREAMED_DELIVERY && !case.allow_f1 && p.enc > mds => {
                        out.class("obs:F1-abandoned-streamed-item-delivered");
                    }
                    Some(st @ (St::ItemErr(_) | St::Cancelled | St::FinalErr(_) | St::Rejected(_))) => {
                        out.fail(
                            "C04/failed-item-delivered",
                            format!("receiver obtained {:?} although its send was reported as {st:?}", p.item),
                        );
                        return;
                    }
                }
                if matches!(case.scripts[si][seq].kind, IKind::PoisonDe { .. }) {
                    out.fail("C04/corrupt-item", format!("receiver obtained {:?} whose deserialiser always fails", p.item));
                    return;
                }
            }
            REv::Err { fin: false, .. } => nonfinal_errors += 1,
            REv::Err { fin: true, what } => final_error = Some(what.clone()),
            REv::End => ended = true,
            REv::Dropped => {}
        }
    }

    // 2. Failing items are reported to their sender.
    for (si, v) in pos.iter().enumerate() {
        for (seq, p) in v.iter().enumerate() {
            let spec = &case.scripts[si][seq];
            let must_fail_at_sender = matches!(spec.kind, IKind::PoisonSer { .. }) || p.enc > case.lim_tx();
            if must_fail_at_sender && p.status == Some(St::Acked) {
                out.fail(
                    "C04/failed-item-acked",
                    format!(
                        "sender {si} item #{seq} ({:?}, encoded {} bytes, sender limit {}) cannot be sent but was acknowledged",
                        spec.kind,
                        p.enc,
                        case.lim_tx()
                    ),
                );
                return;
            }
        }
    }

    // 3. No gaps: an acknowledged, deliverable item may be missing only as part of a suffix,
    //    and only if the channel or connection ended.
    for (si, v) in pos.iter().enumerate() {
        for (seq, p) in v.iter().enumerate() {
            let spec = &case.scripts[si][seq];
            let deliverable = !matches!(spec.kind, IKind::PoisonDe { .. } | IKind::PoisonSer { .. }) && p.enc <= min_lim;
            if !(deliverable && p.status == Some(St::Acked) && !p.received) {
                continue;
            }
            let later = last_seq[si].map(|l| l > seq).unwrap_or(false);
            if later {
                out.fail(
                    "C04/gap",
                    format!(
                        "sender {si}: acknowledged item #{seq} ({:?}, encoded {} bytes, max_data_size {mds}) was not received but the later item #{} was; sender log {:?}; receiver log {}",
                        spec.kind,
                        p.enc,
                        last_seq[si].unwrap(),
                        h.slog[si],
                        rlog_summary(&h.rlog)
                    ),
                );
                return;
            }
            if healthy && h.receiver_done {
                out.fail(
                    "C04/acked-item-lost",
                    format!(
                        "sender {si}: acknowledged item #{seq} ({:?}, encoded {} bytes, max_data_size {mds}) was never received although neither the channel nor the connection ended early; sender log {:?}; receiver log {}",
                        spec.kind,
                        p.enc,
                        h.slog[si],
                        rlog_summary(&h.rlog)
                    ),
                );
                return;
            }
        }
    }

    // 4. Item failures show at the receiver as nothing or as a non-final error.
    if healthy {
        if let Some(e) = &final_error {
            out.fail(
                "C04/final-error-on-healthy-channel",
                format!("receiver got the final error {e} although nothing but items failed; receiver log {}", rlog_summary(&h.rlog)),
            );
            return;
        }
    }
    let not_received: usize = pos.iter().flatten().filter(|p| p.status.is_some() && !p.received).count();
    if nonfinal_errors > not_received {
        out.fail(
            "C04/spurious-recv-error",
            format!("receiver got {nonfinal_errors} non-final errors but only {not_received} attempted items were not received; receiver log {}", rlog_summary(&h.rlog)),
        );
        return;
    }
    let _ = ended;

    // Measurements.
    let mut failed_then_ok = false;
    let mut streamed = false;
    for (si, v) in pos.iter().enumerate() {
        let mut seen_failed = false;
        for (seq, p) in v.iter().enumerate() {
            let spec = &case.scripts[si][seq];
            if p.status.is_some() && p.enc > mds {
                streamed = true;
                out.class("obs:streamed-item");
            }
            let failed = matches!(p.status, Some(St::ItemErr(_)) | Some(St::Cancelled))
                || (p.status == Some(St::Acked) && !p.received && (matches!(spec.kind, IKind::PoisonDe { .. }) || p.enc > min_lim));
            if p.received && seen_failed {
                failed_then_ok = true;
            }
            if failed {
                seen_failed = true;
                if p.enc > mds {
                    out.class("obs:failed-streamed-item");
                }
            }
            match &p.status {
                Some(St::ItemErr(_)) => out.class("obs:send-item-error"),
                Some(St::Cancelled) => out.class("obs:send-cancelled"),
                Some(St::FinalErr(_)) => out.class("obs:send-final-error"),
                Some(St::Rejected(_)) => out.class("obs:send-rejected"),
                Some(St::Unknown) => out.class("obs:sending-dropped"),
                _ => {}
            }
        }
    }
    if nonfinal_errors > 0 {
        out.class("obs:recv-nonfinal-error");
    }
    if h.recv_cancels > 0 {
        out.class("obs:recv-cancelled-and-retried");
    }
    if failed_then_ok {
        out.class("obs:ok-after-failed-item");
    }
    out.nontrivial = failed_then_ok && (streamed || !case.stream);
}

fn rlog_summary(r: &[REv]) -> String {
    let v: Vec<String> = r
        .iter()
        .map(|e| match e {
            REv::Item(i) => format!("s{}#{}", i.head.sender, i.head.seq),
            REv::End => "end".into(),
            REv::Dropped => "dropped".into(),
            REv::Err { fin, what } => format!("{}err({what})", if *fin { "FINAL-" } else { "" }),
        })
        .collect();
    format!("[{}]", v.join(", "))
}

pub fn run(case: &Case) -> Outcome {
    let mut out = Outcome::default();
    out.class(format!("kind:{}", case.kind.name()));
    out.class(match case.transport {
        Transport::Sim => "transport:sim",
        Transport::Duplex { .. } => "transport:connect-io-duplex",
    });
    out.class(match case.event {
        Event::None => "event:none",
        Event::DropRx { .. } => "event:drop-rx",
        Event::CloseRx { .. } => "event:close-rx",
        Event::Cut { .. } => "event:cut",
    });
    if case.cfg_a.receive_buffer <= 16 || case.cfg_b.receive_buffer <= 16 {
        out.class("cfg:tiny-receive-buffer");
    }
    if case.scripts.len() > 1 {
        out.class("several-senders");
    }
    for spec in case.scripts.iter().flatten() {
        out.class(match spec.kind {
            IKind::Plain => "items:plain",
            IKind::PoisonSer { .. } => "items:poison-ser",
            IKind::PoisonDe { .. } => "items:poison-de",
            IKind::SlowDe { .. } => "items:slow-de",
        });
    }

    // Real-time hangs are expensive (2 s + 10 s each). The first few are confirmed with the full
    // procedure and remembered; after that (i.e. while proptest shrinks a hang) only remembered
    // cases get the full procedure again, any other case that exceeds a short budget is skipped
    // as inconclusive, so that shrinking ends quickly with a case that was really confirmed.
    let case_hash = runner::hash_json(case);
    let confirmed_before = CONFIRMED_HANG_CASES.lock().unwrap().contains(&case_hash);
    let many_hangs = !confirmed_before && CONFIRMED_HANGS.load(std::sync::atomic::Ordering::Relaxed) >= MAX_CONFIRMED_HANGS;
    let t0 = std::time::Instant::now();
    let (hist, done) = run_once(case, if many_hangs { real_budget_ms() / 4 } else { real_budget_ms() });
    if case.stream && t0.elapsed().as_millis() > 500 && std::env::var("C04_DEBUG").is_ok() {
        eprintln!("[C04 slow case] {} ms done={done}: {}", t0.elapsed().as_millis(), describe_hang(&hist.lock().unwrap()));
    }
    if !done && case.stream && many_hangs {
        out.inconclusive = true;
        out.class("hang-check-skipped-while-shrinking");
        return out;
    }
    let (hist, done) = if !done && case.stream {
        // Real-time budget exceeded: only a time-out that reproduces with 5x the budget counts.
        let first = describe_hang(&hist.lock().unwrap());
        let (h2, d2) = run_once(case, 5 * real_budget_ms());
        if !d2 {
            CONFIRMED_HANGS.fetch_add(1, std::sync::atomic::Ordering::Relaxed);
            CONFIRMED_HANG_CASES.lock().unwrap().insert(case_hash);
        }
        if d2 {
            out.inconclusive = true;
            out.class("real-time-budget-exceeded-once");
            if std::env::var("C04_DEBUG").is_ok() {
                eprintln!("[C04 budget exceeded once] {first}\n  case {}", serde_json::to_string(case).unwrap());
            }
        }
        (h2, d2)
    } else {
        (hist, done)
    };
    let h = hist.lock().unwrap();
    out.frames = h.frames;
    if let Some(e) = &h.setup_err {
        out.fail("C04/setup", e.clone());
        return out;
    }
    // Safety violations are judged on whatever was recorded, also for a run that hangs.
    judge(case, &h, &mut out);
    if !done && out.fail.is_none() {
        let what = if !h.setup_done {
            "C04/hang-setup"
        } else if h.sender_done.iter().any(|d| !d) {
            "C04/hang-sender"
        } else {
            "C04/hang-receiver"
        };
        out.fail(what, format!("case did not finish within its {} deadline: {}", if case.stream { "real-time (twice, 2 s and 10 s)" } else { "virtual" }, describe_hang(&h)));
        out.nontrivial = false;
    }
    out
}

pub const RULE: &str = "cases = (Cfg pair incl. tiny 4..16 chunk sizes/receive buffers, schedule, transport: simulated link or Connect::io over tokio duplex, channel kind: base / mpsc remote sender / mpsc remote receiver with 1-3 cloned senders / lr sender or receiver remote / oneshot, per-sender item scripts of plain, serialiser-poisoned (fails after k bytes), deserialiser-poisoned (early/late), slow-deserialiser items with sizes straddling chunk_size, receive_buffer, max_data_size and the item size limit (200 bytes on either side), send futures cancelled after n polls, recv futures cancelled after n polls and re-issued, optional end event: receiver dropped/closed after n items or transport cut). part buf: nothing exceeds max_data_size, paused virtual clock; part stream: small max_data_size, big items streamed through helper threads, real clock with 2 s budget (re-run with 10 s before a time-out counts). oracle: every received value equals the original at (sender, seq); no duplicates; per sender strictly increasing seq; never an item whose send was reported failed, cancelled or rejected; items that cannot be sent (poisoned serialiser, above the sender limit) are never acknowledged; an acknowledged deliverable item may be missing only as a suffix (no later item of its sender received) and, when nothing ended the channel, not at all; without an end event the receiver never sees a final error; non-final receive errors <= attempted items that were not received; no hang. known finding F1 (a streamed item abandoned by its sender after the last payload byte is delivered): the generator never lets a serialiser fail after its last byte (EXCLUDE_F1_SER_FAILS_AFTER_LAST_BYTE) and the delivery of a cancelled / finally-failed streamed item is only counted as class obs:F1-abandoned-streamed-item-delivered (KNOWN_F1_TOLERATE_ABANDONED_STREAMED_DELIVERY). non-trivial = some sender had an item that failed (item-specific send error, cancelled send, or acknowledged but failing at the receiver) and a LATER item of the same sender was received Ok; in part stream additionally at least one attempted item was larger than the receiver's max_data_size (streamed); distinct = distinct case hash";

pub fn main(tier: Tier, seed: u64) -> Report {
    let mut rep = Report::new("C04", tier, seed);
    rep.rule = RULE.into();
    rep.assumptions = vec![
        "part stream uses helper threads and a real clock: schedules are not fully reproducible; a real-time time-out only counts if it reproduces on an immediate re-run with 5x the budget".into(),
        "an mpsc item-specific send failure marks the channel failed for later send calls; such later items are not part of the accepted sequence".into(),
        "finding F1 (a streamed item abandoned by its sender was delivered) is repaired in the library (fix commit cb575a0); both switches that used to keep it out of the search (EXCLUDE_F1_SER_FAILS_AFTER_LAST_BYTE, KNOWN_F1_TOLERATE_ABANDONED_STREAMED_DELIVERY) are off".into(),
        "the effective receive-side size limit of some kinds is the sender's limit (mpsc with remote sender); the oracle only requires delivery of items not larger than the smaller of both limits".into(),
    ];
    for (part, stream) in [("buf", false), ("stream", true)] {
        let regress: Vec<Case> = runner::load_regress::<Case>("C04", part).into_iter().map(|(_, c)| c).collect();
        if !regress.is_empty() {
            runner::run_cases(&mut rep, &format!("regress-{part}"), regress, run);
        }
        let fixed = fixed_cases(stream);
        runner::run_cases(&mut rep, &format!("fixed-{part}"), fixed, run);
    }
    runner::run_generated(&mut rep, "buf", tier.pick(15_000, 400_000), || strategy(false, tier), run);
    runner::run_generated(&mut rep, "stream", tier.pick(6000, 150_000), || strategy(true, tier), run);
    rep
}

/// Explicit cases: one item larger than a 4-byte receive buffer over `Connect::io` (reviewer's
/// report) and over the simulated link, all channel kinds.
fn fixed_cases(stream: bool) -> Vec<Case> {
    let mut v = Vec::new();
    for (rb, cs) in [(4u32, 4u32), (4, 16), (5, 4), (8, 4), (16, 16)] {
        for transport in [Transport::Duplex { buf: 64 }, Transport::Duplex { buf: 1 }, Transport::Sim] {
            for kind in [Kind::Base, Kind::MpscRemoteTx, Kind::MpscRemoteRx, Kind::LrRemoteTx, Kind::LrRemoteRx, Kind::OneshotRemoteTx, Kind::OneshotRemoteRx] {
                for pad in [0u16, 4, 40] {
                    let cfg = GCfg {
                        chunk_size: cs,
                        receive_buffer: rb,
                        max_data_size: if stream { 16 } else { 1 << 20 },
                        shared_q: 2,
                        tsend_q: 2,
                        trecv_q: 2,
                        connect_queue: 4,
                        max_ports: 64,
                        max_received_ports: 16,
                        timeout_s: Some(60),
                    };
                    let n = if kind.oneshot() { 1 } else { 3 };
                    v.push(Case {
                        cfg_a: cfg.clone(),
                        cfg_b: cfg,
                        sched: Sched::plain(),
                        transport,
                        kind,
                        lim_tx: false,
                        lim_rx: false,
                        scripts: vec![(0..n).map(|_| ItemSpec { kind: IKind::Plain, len: Len::Pad(pad), cancel: None }).collect()],
                        pipeline: false,
                        buffer: 1,
                        rcancel: vec![0],
                        rslow: false,
                        event: Event::None,
                        stream,
                        allow_f1: false,
                    });
                }
            }
        }
    }
    // Targeted scripts: a failing / cancelled (streamed) item followed by good items.
    let it = |kind: IKind, pad: u16, cancel: Option<u8>| ItemSpec { kind, len: Len::Pad(pad), cancel };
    let scripts: Vec<(Vec<ItemSpec>, bool, bool)> = vec![
        (vec![it(IKind::Plain, 300, Some(3)), it(IKind::Plain, 3, None), it(IKind::Plain, 120, Some(9)), it(IKind::Plain, 90, None), it(IKind::Plain, 5, None)], false, false),
        (vec![it(IKind::PoisonSer { after: 50 }, 150, None), it(IKind::Plain, 3, None), it(IKind::PoisonSer { after: 0 }, 90, None), it(IKind::Plain, 100, None)], false, false),
        (vec![it(IKind::PoisonDe { early: true }, 150, None), it(IKind::Plain, 3, None), it(IKind::PoisonDe { early: false }, 150, None), it(IKind::Plain, 100, None)], false, false),
        (vec![it(IKind::Plain, 400, None), it(IKind::Plain, 3, None), it(IKind::SlowDe { ms: 2 }, 150, None), it(IKind::Plain, 7, None)], false, true),
        (vec![it(IKind::Plain, 400, None), it(IKind::Plain, 3, None), it(IKind::Plain, 150, None)], true, false),
    ];
    for kind in [Kind::Base, Kind::MpscRemoteTx, Kind::MpscRemoteRx, Kind::LrRemoteTx, Kind::LrRemoteRx] {
        for (script, lim_tx, lim_rx) in &scripts {
            for rcancel in [vec![0u8], vec![1, 2, 0]] {
                let cfg = GCfg {
                    chunk_size: 16,
                    receive_buffer: 64,
                    max_data_size: if stream { 32 } else { 1 << 20 },
                    shared_q: 2,
                    tsend_q: 2,
                    trecv_q: 2,
                    connect_queue: 4,
                    max_ports: 64,
                    max_received_ports: 16,
                    timeout_s: Some(60),
                };
                v.push(Case {
                    cfg_a: cfg.clone(),
                    cfg_b: cfg,
                    sched: Sched::plain(),
                    transport: Transport::Sim,
                    kind,
                    lim_tx: *lim_tx,
                    lim_rx: *lim_rx,
                    scripts: vec![script.clone()],
                    pipeline: true,
                    buffer: 4,
                    rcancel,
                    rslow: false,
                    event: Event::None,
                    stream,
                    allow_f1: false,
                });
            }
        }
    }
    v
}

pub fn replay(part: &str, case: serde_json::Value) -> (Option<runner::Failure>, u32, u32) {
    let _ = part;
    let n = runner::replay_times(3);
    let c: Case = serde_json::from_value(case).expect("replay case does not parse as C04 case");
    let (f, h) = runner::replay_case(&c, run, n);
    (f, h, n)
}
