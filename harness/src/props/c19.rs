//! C19 — Abandoned or failing calls are cancelled and never wedge the server.
//!
//! A harness-defined remote trait (`Obj`: `&self` / `&mut self`, cancellable / `#[no_cancel]`
//! methods) is served by every generated server flavour; a read-only twin (`Ro`) covers the
//! `ServerRef` / `ServerShared` flavours. Clients live behind one or two simulated chmux
//! connections (or locally on the server endpoint), are clones of one client, and run scripts of
//! calls concurrently. Every call may be abandoned (future dropped before the first poll, after n
//! pending polls, exactly when the server execution reaches a chosen suspension point / finishes,
//! or after a virtual delay); the second connection may be cut. Calls to methods the server does
//! not know and undecodable requests are produced by a client built from a superset trait
//! (`ObjV2` / `RoV2`) that is type-punned through the base channel.
//!
//! The served object writes an execution log with a drop guard (started / step / finished /
//! cancelled); the oracle is a set of invariants over that log, the client log and `serve()`.

use proptest::prelude::*;
use serde::{Deserialize, Serialize};
use std::{
    collections::{BTreeMap, HashSet},
    future::Future,
    pin::Pin,
    sync::{
        atomic::{AtomicU64, Ordering},
        Arc, Mutex,
    },
    time::Duration,
};
use tokio::task::JoinHandle;

use crate::engine::{
    gen::{self, connect_pair, sched, GCfg, Sched},
    link::{Fault, FaultKind, SimLink},
    runner::{self, Outcome, Report, Tier},
    sim::{self, spawn_actor, CancelAfter, Cancelled},
};
use remoc::{
    chmux,
    rch::base,
    rtc::{CallError, Client as _, OnReqReceiveError, ServeError, Server, ServerBase, ServerRef, ServerRefMut, ServerShared, ServerSharedMut},
    RemoteSend,
};

/// Known finding D6 ("C19/oversized-reply-stops-server"): a reply exceeding the client's
/// `max_reply_size` makes `serve()` return `ServeError::ReplySend`, i.e. it does not fail "only
/// that call". While this is `true` the generated search places an oversized reply only as the
/// very last call of a case (after the probes), where the stopped server cannot mask anything else.
pub const EXCLUDE_OVERSIZED_REPLY_EXCEPT_LAST: bool = true;

// ---------------------------------------------------------------------------------------------
// Remote traits.
// ---------------------------------------------------------------------------------------------

#[derive(Clone, Debug, Serialize, Deserialize)]
pub struct Args {
    pub id: u32,
    /// Suspension points before the (optional) gate.
    pub steps: u8,
    pub step_code: u8,
    /// After the steps wait on a harness gate that only opens when the harness releases this id.
    pub hold: bool,
    pub reply_len: u32,
}

#[derive(Clone, Debug, Serialize, Deserialize)]
pub struct Reply {
    pub id: u32,
    pub pad: Vec<u8>,
}

#[derive(Clone, Copy, Debug, Serialize, Deserialize)]
pub enum Small {
    A,
    B,
}

#[remoc::rtc::remote(clone)]
pub trait Obj {
    async fn get(&self, a: Args) -> Result<Reply, CallError>;
    #[no_cancel]
    async fn get_nc(&self, a: Args) -> Result<Reply, CallError>;
    async fn typed(&self, a: Args, sel: Small) -> Result<Reply, CallError>;
    async fn add(&mut self, a: Args) -> Result<Reply, CallError>;
    #[no_cancel]
    /// The marker is deliberately not the last attribute here (and is the last one on `get_nc`):
    /// its position among a method's attributes must not matter.
    async fn add_nc(&mut self, a: Args) -> Result<Reply, CallError>;
}

/// "Newer" version of `Obj`: two methods the server does not know and one whose argument the
/// server cannot decode. Only its client is used.
#[remoc::rtc::remote(clone, server())]
pub trait ObjV2 {
    async fn get(&self, a: Args) -> Result<Reply, CallError>;
    #[no_cancel]
    async fn get_nc(&self, a: Args) -> Result<Reply, CallError>;
    async fn typed(&self, a: Args, sel: String) -> Result<Reply, CallError>;
    async fn extra(&self, a: Args) -> Result<Reply, CallError>;
    async fn add(&mut self, a: Args) -> Result<Reply, CallError>;
    #[no_cancel]
    async fn add_nc(&mut self, a: Args) -> Result<Reply, CallError>;
    async fn extra_mut(&mut self, a: Args) -> Result<Reply, CallError>;
}

#[remoc::rtc::remote(clone)]
pub trait Ro {
    async fn get(&self, a: Args) -> Result<Reply, CallError>;
    /// Marker between other attributes.
    #[no_cancel]
    #[allow(clippy::needless_lifetimes)]
    async fn get_nc(&self, a: Args) -> Result<Reply, CallError>;
    async fn typed(&self, a: Args, sel: Small) -> Result<Reply, CallError>;
}

#[remoc::rtc::remote(clone, server())]
pub trait RoV2 {
    async fn get(&self, a: Args) -> Result<Reply, CallError>;
    #[no_cancel]
    async fn get_nc(&self, a: Args) -> Result<Reply, CallError>;
    async fn typed(&self, a: Args, sel: String) -> Result<Reply, CallError>;
    async fn extra(&self, a: Args) -> Result<Reply, CallError>;
    async fn extra_mut(&mut self, a: Args) -> Result<Reply, CallError>;
}

// ---------------------------------------------------------------------------------------------
// Shared observation state (harness-owned, same thread as everything else).
// ---------------------------------------------------------------------------------------------

#[derive(Clone, Copy, Debug, PartialEq, Eq)]
enum SWhat {
    Start,
    Step(u8),
    Finish,
    Cancel,
}

#[derive(Clone, Debug)]
struct SEv {
    seq: u64,
    t_ms: u64,
    id: u32,
    what: SWhat,
}

#[derive(Clone, Debug, PartialEq)]
enum COut {
    Ok,
    /// Reply carried a different id.
    WrongReply(u32),
    Err(String),
    /// The harness dropped the call future.
    Dropped,
    /// The call did not complete within the virtual deadline.
    Timeout,
}

#[derive(Clone, Debug)]
struct CEv {
    seq: u64,
    t_ms: u64,
    id: u32,
    out: COut,
}

struct Shared {
    seq: AtomicU64,
    slog: Mutex<Vec<SEv>>,
    clog: Mutex<Vec<CEv>>,
    released: Mutex<HashSet<u32>>,
    serve_end_seq: Mutex<Option<u64>>,
    bump: tokio::sync::watch::Sender<u64>,
    start: tokio::time::Instant,
}

impl Shared {
    fn new() -> Arc<Self> {
        Arc::new(Self {
            seq: AtomicU64::new(0),
            slog: Mutex::new(Vec::new()),
            clog: Mutex::new(Vec::new()),
            released: Mutex::new(HashSet::new()),
            serve_end_seq: Mutex::new(None),
            bump: tokio::sync::watch::channel(0).0,
            start: tokio::time::Instant::now(),
        })
    }

    fn now_ms(&self) -> u64 {
        tokio::time::Instant::now().saturating_duration_since(self.start).as_millis() as u64
    }

    fn server_ev(&self, id: u32, what: SWhat) {
        let ev = SEv { seq: self.seq.fetch_add(1, Ordering::Relaxed), t_ms: self.now_ms(), id, what };
        {
            let mut l = self.slog.lock().unwrap();
            l.push(ev);
        }
        self.bump.send_modify(|v| *v += 1);
    }

    fn client_ev(&self, id: u32, out: COut) {
        let ev = CEv { seq: self.seq.fetch_add(1, Ordering::Relaxed), t_ms: self.now_ms(), id, out };
        let mut l = self.clog.lock().unwrap();
        l.push(ev);
    }

    fn release(&self, id: u32) {
        {
            let mut r = self.released.lock().unwrap();
            r.insert(id);
        }
        self.bump.send_modify(|v| *v += 1);
    }

    fn is_released(&self, id: u32) -> bool {
        let r = self.released.lock().unwrap();
        r.contains(&id)
    }

    fn has_server_ev(&self, id: u32, what: SWhat) -> bool {
        let l = self.slog.lock().unwrap();
        l.iter().any(|e| e.id == id && e.what == what)
    }

    /// Ids of executions that started and have not ended.
    fn running(&self) -> Vec<u32> {
        let l = self.slog.lock().unwrap();
        let mut run: Vec<u32> = Vec::new();
        for e in l.iter() {
            match e.what {
                SWhat::Start => run.push(e.id),
                SWhat::Finish | SWhat::Cancel => {
                    if let Some(p) = run.iter().position(|x| *x == e.id) {
                        run.remove(p);
                    }
                }
                SWhat::Step(_) => {}
            }
        }
        run
    }

    /// Waits until `cond` holds (re-evaluated after every logged event / release).
    async fn wait_for(&self, cond: impl Fn(&Shared) -> bool) {
        let mut rx = self.bump.subscribe();
        loop {
            if cond(self) {
                return;
            }
            if rx.changed().await.is_err() {
                futures::future::pending::<()>().await;
            }
        }
    }
}

struct Guard {
    sh: Arc<Shared>,
    id: u32,
    done: bool,
}

impl Drop for Guard {
    fn drop(&mut self) {
        if !self.done {
            self.sh.server_ev(self.id, SWhat::Cancel);
        }
    }
}

async fn suspend(code: u8) {
    match code % 5 {
        0 => tokio::task::yield_now().await,
        1 => sim::ticks(3).await,
        2 => tokio::time::sleep(Duration::from_millis(1)).await,
        3 => tokio::time::sleep(Duration::from_millis(50)).await,
        _ => tokio::time::sleep(Duration::from_secs(2)).await,
    }
}

async fn exec(sh: Arc<Shared>, a: Args) -> Result<Reply, CallError> {
    sh.server_ev(a.id, SWhat::Start);
    let mut g = Guard { sh: sh.clone(), id: a.id, done: false };
    for k in 0..a.steps {
        suspend(a.step_code).await;
        sh.server_ev(a.id, SWhat::Step(k + 1));
    }
    if a.hold {
        let id = a.id;
        sh.wait_for(move |s| s.is_released(id)).await;
    }
    g.done = true;
    sh.server_ev(a.id, SWhat::Finish);
    Ok(Reply { id: a.id, pad: vec![0u8; a.reply_len as usize] })
}

pub struct Target {
    sh: Arc<Shared>,
    mutations: u64,
}

impl Obj for Target {
    async fn get(&self, a: Args) -> Result<Reply, CallError> {
        exec(self.sh.clone(), a).await
    }
    async fn get_nc(&self, a: Args) -> Result<Reply, CallError> {
        exec(self.sh.clone(), a).await
    }
    async fn typed(&self, a: Args, _sel: Small) -> Result<Reply, CallError> {
        exec(self.sh.clone(), a).await
    }
    async fn add(&mut self, a: Args) -> Result<Reply, CallError> {
        self.mutations += 1;
        exec(self.sh.clone(), a).await
    }
    async fn add_nc(&mut self, a: Args) -> Result<Reply, CallError> {
        self.mutations += 1;
        exec(self.sh.clone(), a).await
    }
}

impl Ro for Target {
    async fn get(&self, a: Args) -> Result<Reply, CallError> {
        exec(self.sh.clone(), a).await
    }
    async fn get_nc(&self, a: Args) -> Result<Reply, CallError> {
        exec(self.sh.clone(), a).await
    }
    async fn typed(&self, a: Args, _sel: Small) -> Result<Reply, CallError> {
        exec(self.sh.clone(), a).await
    }
}

// ---------------------------------------------------------------------------------------------
// Case model.
// ---------------------------------------------------------------------------------------------

#[derive(Clone, Copy, Debug, Serialize, Deserialize, PartialEq, Eq, Hash)]
pub enum Flavour {
    Value,
    RefMut,
    SharedMut { spawn: bool },
    Ref,
    Shared { spawn: bool },
}

impl Flavour {
    fn ro(self) -> bool {
        matches!(self, Flavour::Ref | Flavour::Shared { .. })
    }
}

#[derive(Clone, Copy, Debug, Serialize, Deserialize, PartialEq, Eq, Hash)]
pub enum Policy {
    Ignore,
    Send,
    Fail,
}

#[derive(Clone, Copy, Debug, Serialize, Deserialize, PartialEq, Eq, Hash)]
pub enum Kind {
    Get,
    GetNc,
    Typed,
    Add,
    AddNc,
    /// `&self` method the server does not know.
    Unknown,
    /// `&mut self` method the server does not know.
    UnknownMut,
    /// Known method whose argument the server cannot decode.
    Undecodable,
}

impl Kind {
    /// The kind actually callable on a client (monotone fallback, no rejection).
    fn effective(self, ro: bool, newer: bool) -> Kind {
        match self {
            Kind::Get | Kind::GetNc | Kind::Typed => self,
            Kind::Add => {
                if ro {
                    Kind::Get
                } else {
                    Kind::Add
                }
            }
            Kind::AddNc => {
                if ro {
                    Kind::GetNc
                } else {
                    Kind::AddNc
                }
            }
            Kind::Unknown => {
                if newer {
                    Kind::Unknown
                } else {
                    Kind::Get
                }
            }
            Kind::UnknownMut => {
                if newer {
                    Kind::UnknownMut
                } else if ro {
                    Kind::Get
                } else {
                    Kind::Add
                }
            }
            Kind::Undecodable => {
                if newer {
                    Kind::Undecodable
                } else {
                    Kind::Typed
                }
            }
        }
    }
    fn no_cancel(self) -> bool {
        matches!(self, Kind::GetNc | Kind::AddNc)
    }
    fn trigger(self) -> bool {
        matches!(self, Kind::Unknown | Kind::UnknownMut | Kind::Undecodable)
    }
}

#[derive(Clone, Copy, Debug, Serialize, Deserialize, PartialEq, Eq, Hash)]
pub enum Abandon {
    None,
    /// Drop the call future when it is polled again after n pending polls (0 = never polled).
    Polls(u8),
    /// Drop the call future when the server execution logs event `ev` (0 = started, k = passed
    /// suspension point k, 255 = finished, i.e. while replying), plus `ticks` scheduler passes.
    At { ev: u8, ticks: u8 },
    /// Drop the call future after a virtual delay (code into a table of milliseconds).
    AfterMs(u8),
}

#[derive(Clone, Copy, Debug, Serialize, Deserialize, PartialEq, Eq, Hash)]
pub enum ReplySize {
    /// Certainly below the limit.
    Fit(u16),
    /// Certainly above the limit (limit + 1 + excess bytes of padding).
    Over(u16),
}

#[derive(Clone, Debug, Serialize, Deserialize, PartialEq, Eq, Hash)]
pub struct Call {
    pub kind: Kind,
    pub steps: u8,
    pub step_code: u8,
    pub hold: bool,
    pub reply: ReplySize,
    pub abandon: Abandon,
    /// Pause code before the call.
    pub pause: u8,
    /// Pause code between the caller vanishing and the release of a held `#[no_cancel]` call.
    pub release_pause: u8,
}

#[derive(Clone, Copy, Debug, Serialize, Deserialize, PartialEq, Eq, Hash)]
pub enum Place {
    /// On the server endpoint (no connection).
    Local,
    Conn1,
    /// Second connection (the one that may be cut).
    Conn2,
}

#[derive(Clone, Debug, Serialize, Deserialize, PartialEq, Eq, Hash)]
pub struct Script {
    pub place: Place,
    /// Client built from the superset trait.
    pub newer: bool,
    pub calls: Vec<Call>,
}

#[derive(Clone, Copy, Debug, Serialize, Deserialize, PartialEq, Eq, Hash)]
pub struct Cut {
    pub dir: u8,
    /// Frames of that direction after the end of the setup.
    pub after: u16,
    pub kind: FaultKind,
}

#[derive(Clone, Debug, Serialize, Deserialize, PartialEq, Eq, Hash)]
pub struct Case {
    pub cfg_srv: GCfg,
    pub cfg_cli: GCfg,
    pub sched: Sched,
    pub flavour: Flavour,
    pub policy: Policy,
    pub req_buffer: u8,
    pub max_reply: u16,
    pub clients: Vec<Script>,
    pub cut: Option<Cut>,
    /// Very last call of the case: a reply exceeding the limit by 1 + n bytes.
    #[serde(default)]
    pub final_oversized: Option<u16>,
}

const STEP_CODES: u8 = 5;
const AFTER_MS: [u64; 10] = [0, 1, 2, 3, 49, 50, 51, 100, 2000, 2050];

async fn pause(code: u8) {
    match code % 6 {
        0 => {}
        1 => sim::ticks(1).await,
        2 => sim::ticks(5).await,
        3 => tokio::time::sleep(Duration::from_millis(1)).await,
        4 => tokio::time::sleep(Duration::from_millis(60)).await,
        _ => tokio::time::sleep(Duration::from_secs(3)).await,
    }
}

fn cfg_strategy() -> BoxedStrategy<GCfg> {
    (
        prop_oneof![Just(16u32), Just(64u32), Just(1024u32)],
        prop_oneof![Just(64u32), Just(256u32), Just(4096u32)],
        1usize..=4,
        1usize..=4,
        1usize..=4,
        prop_oneof![3 => Just(60u32), 1 => Just(20u32)],
    )
        .prop_map(|(chunk_size, receive_buffer, shared_q, tsend_q, trecv_q, t)| GCfg {
            chunk_size,
            receive_buffer,
            // Large enough that no request or reply is streamed through helper threads.
            max_data_size: 1 << 16,
            shared_q,
            tsend_q,
            trecv_q,
            connect_queue: 8,
            max_ports: 256,
            max_received_ports: 16,
            timeout_s: Some(t),
        })
        .boxed()
}

fn call_strategy() -> BoxedStrategy<Call> {
    let kind = prop_oneof![
        3 => Just(Kind::Get),
        2 => Just(Kind::GetNc),
        1 => Just(Kind::Typed),
        3 => Just(Kind::Add),
        2 => Just(Kind::AddNc),
        1 => Just(Kind::Unknown),
        1 => Just(Kind::UnknownMut),
        1 => Just(Kind::Undecodable),
    ];
    let abandon = prop_oneof![
        4 => Just(Abandon::None),
        2 => (0u8..=4).prop_map(Abandon::Polls),
        4 => (prop_oneof![3 => 0u8..=3, 2 => Just(255u8)], 0u8..=3).prop_map(|(ev, ticks)| Abandon::At { ev, ticks }),
        2 => (0u8..AFTER_MS.len() as u8).prop_map(Abandon::AfterMs),
    ];
    let reply = if EXCLUDE_OVERSIZED_REPLY_EXCEPT_LAST {
        prop_oneof![3 => (0u16..=40).prop_map(ReplySize::Fit), 1 => (0u16..=4000).prop_map(ReplySize::Fit)].boxed()
    } else {
        prop_oneof![
            3 => (0u16..=40).prop_map(ReplySize::Fit),
            1 => (0u16..=4000).prop_map(ReplySize::Fit),
            1 => (0u16..=300).prop_map(ReplySize::Over),
        ]
        .boxed()
    };
    (kind, 0u8..=3, 0u8..STEP_CODES, prop_oneof![2 => Just(false), 1 => Just(true)], reply, abandon, 0u8..6, 0u8..6)
        .prop_map(|(kind, steps, step_code, hold, reply, abandon, pause, release_pause)| Call { kind, steps, step_code, hold, reply, abandon, pause, release_pause })
        .boxed()
}

pub fn strategy(tier: Tier) -> BoxedStrategy<Case> {
    let max_calls = tier.pick(5usize, 8usize);
    let script = (
        prop_oneof![1 => Just(Place::Local), 4 => Just(Place::Conn1), 3 => Just(Place::Conn2)],
        prop_oneof![1 => Just(false), 2 => Just(true)],
        proptest::collection::vec(call_strategy(), 1..=max_calls),
    )
        .prop_map(|(place, newer, calls)| Script { place, newer, calls });
    let flavour = prop_oneof![
        2 => Just(Flavour::Value),
        2 => Just(Flavour::RefMut),
        2 => Just(Flavour::SharedMut { spawn: false }),
        3 => Just(Flavour::SharedMut { spawn: true }),
        1 => Just(Flavour::Ref),
        1 => Just(Flavour::Shared { spawn: false }),
        2 => Just(Flavour::Shared { spawn: true }),
    ];
    let cut = prop_oneof![
        3 => Just(None),
        2 => (0u8..=1, 0u16..=40, prop_oneof![Just(FaultKind::Eof), Just(FaultKind::StreamError), Just(FaultKind::SinkError), Just(FaultKind::Stall)])
            .prop_map(|(dir, after, kind)| Some(Cut { dir, after, kind })),
    ];
    (
        cfg_strategy(),
        cfg_strategy(),
        sched(true),
        flavour,
        prop_oneof![2 => Just(Policy::Ignore), 2 => Just(Policy::Send), 1 => Just(Policy::Fail)],
        1u8..=3,
        prop_oneof![Just(256u16), Just(1024u16), Just(5000u16)],
        proptest::collection::vec(script, 1..=3),
        cut,
        prop_oneof![3 => Just(None), 1 => (0u16..=300).prop_map(Some)],
    )
        .prop_map(|(cfg_srv, cfg_cli, sched, flavour, policy, req_buffer, max_reply, clients, cut, final_oversized)| Case {
            cfg_srv,
            cfg_cli,
            sched,
            flavour,
            policy,
            req_buffer,
            max_reply,
            clients,
            cut,
            final_oversized,
        })
        .boxed()
}

// ---------------------------------------------------------------------------------------------
// Clients.
// ---------------------------------------------------------------------------------------------

type CallFut<'a> = Pin<Box<dyn Future<Output = Result<Reply, CallError>> + Send + 'a>>;

trait Caller: Send + 'static {
    fn call(&mut self, kind: Kind, a: Args) -> CallFut<'_>;
    fn limit_reply(&mut self, n: usize);
    fn dup(&self) -> Box<dyn Caller>;
    fn newer(&self) -> bool;
}

impl Caller for ObjClient {
    fn call(&mut self, kind: Kind, a: Args) -> CallFut<'_> {
        match kind {
            Kind::Get => Box::pin(Obj::get(&*self, a)),
            Kind::GetNc => Box::pin(Obj::get_nc(&*self, a)),
            Kind::Typed => Box::pin(Obj::typed(&*self, a, Small::B)),
            Kind::Add => Box::pin(Obj::add(self, a)),
            Kind::AddNc => Box::pin(Obj::add_nc(self, a)),
            other => panic!("kind {other:?} not callable on ObjClient"),
        }
    }
    fn limit_reply(&mut self, n: usize) {
        self.set_max_reply_size(n);
    }
    fn dup(&self) -> Box<dyn Caller> {
        Box::new(self.clone())
    }
    fn newer(&self) -> bool {
        false
    }
}

impl Caller for ObjV2Client {
    fn call(&mut self, kind: Kind, a: Args) -> CallFut<'_> {
        match kind {
            Kind::Get => Box::pin(ObjV2::get(&*self, a)),
            Kind::GetNc => Box::pin(ObjV2::get_nc(&*self, a)),
            Kind::Typed => Box::pin(ObjV2::typed(&*self, a, "B".to_string())),
            Kind::Undecodable => Box::pin(ObjV2::typed(&*self, a, "no such variant".to_string())),
            Kind::Unknown => Box::pin(ObjV2::extra(&*self, a)),
            Kind::Add => Box::pin(ObjV2::add(self, a)),
            Kind::AddNc => Box::pin(ObjV2::add_nc(self, a)),
            Kind::UnknownMut => Box::pin(ObjV2::extra_mut(self, a)),
        }
    }
    fn limit_reply(&mut self, n: usize) {
        self.set_max_reply_size(n);
    }
    fn dup(&self) -> Box<dyn Caller> {
        Box::new(self.clone())
    }
    fn newer(&self) -> bool {
        true
    }
}

impl Caller for RoClient {
    fn call(&mut self, kind: Kind, a: Args) -> CallFut<'_> {
        match kind {
            Kind::Get => Box::pin(Ro::get(&*self, a)),
            Kind::GetNc => Box::pin(Ro::get_nc(&*self, a)),
            Kind::Typed => Box::pin(Ro::typed(&*self, a, Small::B)),
            other => panic!("kind {other:?} not callable on RoClient"),
        }
    }
    fn limit_reply(&mut self, n: usize) {
        self.set_max_reply_size(n);
    }
    fn dup(&self) -> Box<dyn Caller> {
        Box::new(self.clone())
    }
    fn newer(&self) -> bool {
        false
    }
}

impl Caller for RoV2Client {
    fn call(&mut self, kind: Kind, a: Args) -> CallFut<'_> {
        match kind {
            Kind::Get => Box::pin(RoV2::get(&*self, a)),
            Kind::GetNc => Box::pin(RoV2::get_nc(&*self, a)),
            Kind::Typed => Box::pin(RoV2::typed(&*self, a, "B".to_string())),
            Kind::Undecodable => Box::pin(RoV2::typed(&*self, a, "no such variant".to_string())),
            Kind::Unknown => Box::pin(RoV2::extra(&*self, a)),
            Kind::UnknownMut => Box::pin(RoV2::extra_mut(self, a)),
            other => panic!("kind {other:?} not callable on RoV2Client"),
        }
    }
    fn limit_reply(&mut self, n: usize) {
        self.set_max_reply_size(n);
    }
    fn dup(&self) -> Box<dyn Caller> {
        Box::new(self.clone())
    }
    fn newer(&self) -> bool {
        true
    }
}

/// What the harness knows about one scripted call (resolved from the case).
#[derive(Clone, Debug)]
struct Plan {
    id: u32,
    script: usize,
    place: Place,
    kind: Kind,
    hold: bool,
    abandon: Abandon,
    /// Reply certainly exceeds the limit *and* the limit is enforced (remote client).
    oversized: bool,
}

fn reply_len(r: ReplySize, max_reply: u16) -> u32 {
    match r {
        // Leave 160 bytes for the envelope (ids, Result wrappers, field names).
        ReplySize::Fit(n) => (n as u32).min((max_reply as u32).saturating_sub(160)),
        ReplySize::Over(x) => max_reply as u32 + 1 + x as u32,
    }
}

fn plans(case: &Case) -> Vec<Plan> {
    let ro = case.flavour.ro();
    let mut v = Vec::new();
    for (si, s) in case.clients.iter().enumerate() {
        let newer = s.newer && s.place != Place::Local;
        for (ci, c) in s.calls.iter().enumerate() {
            let kind = c.kind.effective(ro, newer);
            // A held call needs a caller that certainly vanishes: an abandonment that certainly
            // fires, or a connection that is certainly cut (keep-alive frames keep counting).
            let cut_ends_it = c.abandon == Abandon::None && s.place == Place::Conn2 && case.cut.is_some();
            let hold = c.hold && !kind.trigger() && (matches!(c.abandon, Abandon::At { .. } | Abandon::AfterMs(_)) || cut_ends_it);
            v.push(Plan {
                id: (si as u32 + 1) * 100 + ci as u32,
                script: si,
                place: s.place,
                kind,
                hold,
                abandon: c.abandon,
                oversized: matches!(c.reply, ReplySize::Over(_)) && s.place != Place::Local && !kind.trigger(),
            });
        }
    }
    v
}

async fn run_script(mut caller: Box<dyn Caller>, script: Script, plans: Vec<Plan>, sh: Arc<Shared>, max_reply: u16, deadline: u64) {
    for (c, p) in script.calls.iter().zip(plans.iter()) {
        pause(c.pause).await;
        let args = Args { id: p.id, steps: c.steps, step_code: c.step_code, hold: p.hold, reply_len: reply_len(c.reply, max_reply) };
        let id = p.id;
        let out = {
            let fut = caller.call(p.kind, args);
            let res: Result<Cancelled<Result<Reply, CallError>>, ()> = match p.abandon {
                Abandon::None => sim::within(deadline, async { Cancelled::Done(fut.await) }).await,
                Abandon::Polls(n) => sim::within(deadline, CancelAfter::new(fut, Some(n as u32))).await,
                Abandon::At { ev, ticks } => {
                    // Events after the gate of a held call never happen: fall back to "started".
                    let what = match ev {
                        0 => SWhat::Start,
                        255 => {
                            if p.hold {
                                SWhat::Start
                            } else {
                                SWhat::Finish
                            }
                        }
                        k => {
                            if c.steps == 0 {
                                SWhat::Start
                            } else {
                                SWhat::Step((k - 1) % c.steps + 1)
                            }
                        }
                    };
                    let sh2 = sh.clone();
                    let trigger = async move {
                        sh2.wait_for(move |s| s.has_server_ev(id, what)).await;
                        sim::ticks(ticks as u32).await;
                    };
                    sim::within(deadline, async {
                        tokio::select! {
                            biased;
                            r = fut => Cancelled::Done(r),
                            () = trigger => Cancelled::Dropped,
                        }
                    })
                    .await
                }
                Abandon::AfterMs(code) => {
                    let ms = AFTER_MS[code as usize % AFTER_MS.len()];
                    sim::within(deadline, async {
                        tokio::select! {
                            biased;
                            r = fut => Cancelled::Done(r),
                            () = tokio::time::sleep(Duration::from_millis(ms)) => Cancelled::Dropped,
                        }
                    })
                    .await
                }
            };
            match res {
                Ok(Cancelled::Done(Ok(r))) => {
                    if r.id == id {
                        COut::Ok
                    } else {
                        COut::WrongReply(r.id)
                    }
                }
                Ok(Cancelled::Done(Err(e))) => COut::Err(format!("{e:?}")),
                Ok(Cancelled::Dropped) => COut::Dropped,
                Err(()) => COut::Timeout,
            }
        };
        let vanished = out != COut::Ok;
        let timeout = out == COut::Timeout;
        sh.client_ev(id, out);
        if p.hold && vanished && p.kind.no_cancel() {
            // The execution must run to completion: open its gate after a while.
            pause(c.release_pause).await;
            sh.release(id);
        }
        if timeout {
            break;
        }
    }
}

// ---------------------------------------------------------------------------------------------
// Server.
// ---------------------------------------------------------------------------------------------

#[derive(Clone, Debug, PartialEq)]
enum SrvEnd {
    Ok,
    ReqReceive(String),
    ReplySend(String),
}

fn srv_end(r: Result<(), ServeError>) -> SrvEnd {
    match r {
        Ok(()) => SrvEnd::Ok,
        Err(ServeError::ReqReceive(e)) => SrvEnd::ReqReceive(format!("{e:?}")),
        Err(ServeError::ReplySend(e)) => SrvEnd::ReplySend(format!("{e:?}")),
    }
}

enum AnyClient {
    Full(ObjClient),
    Ro(RoClient),
}

struct Srv {
    client: AnyClient,
    handle: JoinHandle<()>,
    end: Arc<Mutex<Option<SrvEnd>>>,
    recv_errors: Arc<AtomicU64>,
}

async fn start_server(case: &Case, sh: Arc<Shared>) -> Result<Srv, String> {
    let recv_errors = Arc::new(AtomicU64::new(0));
    let policy = match case.policy {
        Policy::Ignore => OnReqReceiveError::Ignore,
        Policy::Fail => OnReqReceiveError::Fail,
        Policy::Send => {
            let (tx, mut rx) = tokio::sync::mpsc::channel(2);
            let n = recv_errors.clone();
            tokio::spawn(async move {
                while rx.recv().await.is_some() {
                    n.fetch_add(1, Ordering::Relaxed);
                }
            });
            OnReqReceiveError::Send(tx)
        }
    };
    let buf = case.req_buffer.max(1) as usize;
    let end: Arc<Mutex<Option<SrvEnd>>> = Arc::new(Mutex::new(None));
    let end2 = end.clone();
    let sh_end = sh.clone();
    let set_end = move |e: SrvEnd| {
        // Logged in the same poll in which serve() returned: everything the return causes
        // (dropped request queue, failing calls) has a larger sequence number.
        let seq = sh_end.seq.fetch_add(1, Ordering::Relaxed);
        {
            let mut g = sh_end.serve_end_seq.lock().unwrap();
            *g = Some(seq);
        }
        let mut g = end2.lock().unwrap();
        *g = Some(e);
    };
    let target = Target { sh, mutations: 0 };
    let (client, handle) = match case.flavour {
        Flavour::Value => {
            let (mut server, client) = ObjServer::new(target, buf);
            server.set_on_req_receive_error(policy);
            let h = spawn_actor(async move {
                let (_t, r) = server.serve().await;
                set_end(srv_end(r));
            });
            (AnyClient::Full(client), h)
        }
        Flavour::RefMut => {
            let (ctx, crx) = tokio::sync::oneshot::channel();
            let h = spawn_actor(async move {
                let mut target = target;
                let (mut server, client) = ObjServerRefMut::new(&mut target, buf);
                server.set_on_req_receive_error(policy);
                let _ = ctx.send(client);
                let r = server.serve().await;
                set_end(srv_end(r));
            });
            let client = crx.await.map_err(|_| "server actor died".to_string())?;
            (AnyClient::Full(client), h)
        }
        Flavour::SharedMut { spawn } => {
            let (mut server, client) = ObjServerSharedMut::new(Arc::new(tokio::sync::RwLock::new(target)), buf);
            server.set_on_req_receive_error(policy);
            let h = spawn_actor(async move {
                let r = server.serve(spawn).await;
                set_end(srv_end(r));
            });
            (AnyClient::Full(client), h)
        }
        Flavour::Ref => {
            let (ctx, crx) = tokio::sync::oneshot::channel();
            let h = spawn_actor(async move {
                let target = target;
                let (mut server, client) = RoServerRef::new(&target, buf);
                server.set_on_req_receive_error(policy);
                let _ = ctx.send(client);
                let r = server.serve().await;
                set_end(srv_end(r));
            });
            let client = crx.await.map_err(|_| "server actor died".to_string())?;
            (AnyClient::Ro(client), h)
        }
        Flavour::Shared { spawn } => {
            let (mut server, client) = RoServerShared::new(Arc::new(target), buf);
            server.set_on_req_receive_error(policy);
            let h = spawn_actor(async move {
                let r = server.serve(spawn).await;
                set_end(srv_end(r));
            });
            (AnyClient::Ro(client), h)
        }
    };
    Ok(Srv { client, handle, end, recv_errors })
}

/// Sends `v` from the server endpoint over a fresh raw port and receives it as `R` at the client
/// endpoint (`S` and `R` may differ: that is the type pun producing a "newer" client).
async fn transfer<S: RemoteSend, R: RemoteSend>(
    from: &chmux::Client, to: &mut chmux::Listener, v: S, keep: &mut Vec<Box<dyn std::any::Any + Send>>,
) -> Result<R, String> {
    let (conn, acc) = tokio::join!(sim::within(3000, from.connect()), sim::within(3000, to.accept()));
    let ((raw_tx, raw_rx_a), (raw_tx_b, raw_rx)) = match (conn, acc) {
        (Ok(Ok(c)), Ok(Ok(Some(l)))) => (c, l),
        _ => return Err("base port setup failed".into()),
    };
    let mut btx = base::Sender::<S>::new(raw_tx);
    let mut brx = base::Receiver::<R>::new(raw_rx);
    let (s, r) = tokio::join!(sim::within(3000, btx.send(v)), sim::within(3000, brx.recv()));
    let out = match (s, r) {
        (Ok(Ok(())), Ok(Ok(Some(x)))) => x,
        (s, r) => return Err(format!("transfer of the client failed: send ok {:?}, recv ok {:?}", s.map(|x| x.is_ok()), r.map(|x| x.is_ok()))),
    };
    keep.push(Box::new((btx, brx, raw_rx_a, raw_tx_b)));
    Ok(out)
}

// ---------------------------------------------------------------------------------------------
// Interpreter + oracle.
// ---------------------------------------------------------------------------------------------

#[derive(Default)]
pub struct RunOut {
    pub fails: Vec<(String, String)>,
    pub classes: Vec<String>,
    pub nontrivial: bool,
    pub frames: u64,
    pub inconclusive: bool,
}

impl RunOut {
    fn fail(&mut self, sig: &str, msg: String) {
        self.fails.push((sig.to_string(), msg));
    }
    fn class(&mut self, c: impl Into<String>) {
        let c = c.into();
        if !self.classes.contains(&c) {
            self.classes.push(c);
        }
    }
}

fn debug() -> bool {
    std::env::var("VERIF_DEBUG").is_ok()
}

async fn execute(case: &Case) -> RunOut {
    let mut out = RunOut::default();
    let sh = Shared::new();
    let ro = case.flavour.ro();
    let plans = plans(case);
    let cap = gen::delay_cap_ms(&case.cfg_srv, &case.cfg_cli);
    let deadline = case.sched.deadline_s(600, cap);

    // Connections: endpoint A = server, endpoint B = clients.
    let (link1, a1, mut b1) = match connect_pair(&case.cfg_srv, &case.cfg_cli, &case.sched, vec![]).await {
        Ok(x) => x,
        Err(e) => {
            out.fail("C19/setup", e);
            return out;
        }
    };
    let need2 = case.clients.iter().any(|s| s.place == Place::Conn2);
    let mut conn2: Option<(SimLink, gen::Side, gen::Side)> = None;
    if need2 {
        match connect_pair(&case.cfg_srv, &case.cfg_cli, &case.sched, vec![]).await {
            Ok(x) => conn2 = Some(x),
            Err(e) => {
                out.fail("C19/setup", e);
                return out;
            }
        }
    }

    let srv = match start_server(case, sh.clone()).await {
        Ok(s) => s,
        Err(e) => {
            out.fail("C19/setup", e);
            return out;
        }
    };
    let Srv { client: local, handle: srv_handle, end: srv_end_slot, recv_errors } = srv;

    // Transfer clients: per connection one plain and one "newer" (type-punned) client.
    let mut keep: Vec<Box<dyn std::any::Any + Send>> = Vec::new();
    let local_caller: Box<dyn Caller> = match &local {
        AnyClient::Full(c) => Box::new(c.clone()),
        AnyClient::Ro(c) => Box::new(c.clone()),
    };
    let mut remote: [Option<(Box<dyn Caller>, Box<dyn Caller>)>; 2] = [None, None];
    for ci in 0..2usize {
        let (from, to) = match ci {
            0 => (&a1.client, &mut b1.listener),
            _ => match conn2.as_mut() {
                Some((_, a2, b2)) => (&a2.client, &mut b2.listener),
                None => continue,
            },
        };
        let pair: Result<(Box<dyn Caller>, Box<dyn Caller>), String> = match &local {
            AnyClient::Full(c) => transfer::<(ObjClient, ObjClient), (ObjClient, ObjV2Client)>(from, to, (c.clone(), c.clone()), &mut keep)
                .await
                .map(|(x, y)| (Box::new(x) as Box<dyn Caller>, Box::new(y) as Box<dyn Caller>)),
            AnyClient::Ro(c) => transfer::<(RoClient, RoClient), (RoClient, RoV2Client)>(from, to, (c.clone(), c.clone()), &mut keep)
                .await
                .map(|(x, y)| (Box::new(x) as Box<dyn Caller>, Box::new(y) as Box<dyn Caller>)),
        };
        match pair {
            Ok((mut x, mut y)) => {
                x.limit_reply(case.max_reply as usize);
                y.limit_reply(case.max_reply as usize);
                remote[ci] = Some((x, y));
            }
            Err(e) => {
                out.fail("C19/setup", e);
                return out;
            }
        }
    }
    drop(local);

    // Arm the cut of the second connection relative to the end of the setup.
    if let (Some(cut), Some((link2, _, _))) = (&case.cut, conn2.as_ref()) {
        let dir = cut.dir % 2;
        link2.arm(Fault { dir, after: link2.sent(dir) + cut.after as u32, kind: cut.kind });
    }

    // Scripts.
    let mut handles = Vec::new();
    for (si, s) in case.clients.iter().enumerate() {
        let caller: Box<dyn Caller> = match s.place {
            Place::Local => local_caller.dup(),
            Place::Conn1 | Place::Conn2 => {
                let (plain, newer) = remote[if s.place == Place::Conn1 { 0 } else { 1 }].as_ref().unwrap();
                if s.newer {
                    newer.dup()
                } else {
                    plain.dup()
                }
            }
        };
        let my: Vec<Plan> = plans.iter().filter(|p| p.script == si).cloned().collect();
        handles.push(spawn_actor(run_script(caller, s.clone(), my, sh.clone(), case.max_reply, deadline)));
    }
    let probe_plain = remote[0].as_ref().unwrap().0.dup();
    drop(local_caller);
    drop(remote);

    let n_calls: u64 = case.clients.iter().map(|s| s.calls.len() as u64).sum();
    let mut stuck_script = false;
    for (si, h) in handles.into_iter().enumerate() {
        if sim::within((n_calls + 2) * (deadline + 10), h).await.is_err() {
            out.fail("C19/harness-script-stuck", format!("script {si} did not finish"));
            stuck_script = true;
        }
    }
    if stuck_script {
        return out;
    }

    // What may legitimately have stopped the server early.
    let any_trigger = plans.iter().any(|p| p.kind.trigger());
    let fail_policy_trigger = case.policy == Policy::Fail && any_trigger;
    let over_anywhere = plans.iter().any(|p| p.oversized);
    let cut_active = case.cut.is_some() && conn2.is_some();

    // R1: every execution whose caller vanished ends (a held cancellable one can only end cancelled).
    let quiet = sim::within(deadline, sh.wait_for(|s| s.running().is_empty())).await.is_ok();
    if !quiet {
        let running = sh.running();
        let p = plans.iter().find(|p| running.contains(&p.id));
        let detail = format!(
            "executions {running:?} still running {deadline} virtual s after all callers had finished or vanished (first: {:?}); server log tail {:?}",
            p,
            log_tail(&sh)
        );
        match p {
            Some(p) if !p.kind.no_cancel() => out.fail("C19/not-cancelled", detail),
            _ => out.fail("C19/execution-stuck", detail),
        }
    }

    // R6: afterwards a `&mut` call and a `&self` call from another client complete.
    let mut probe = probe_plain;
    let early_end = {
        let g = srv_end_slot.lock().unwrap();
        g.clone()
    };
    let early_ok = fail_policy_trigger || over_anywhere;
    if let Some(e) = &early_end {
        if !early_ok {
            out.fail("C19/serve-ended-early", format!("serve() returned {e:?} while clients were still connected; {}", describe(case, &plans, &sh)));
        }
    }
    let mut probes_ok = true;
    if out.fails.is_empty() && !(early_ok && early_end.is_some()) {
        for (k, kind) in [Kind::Add.effective(ro, false), Kind::Get].into_iter().enumerate() {
            let id = 9000 + k as u32;
            let a = Args { id, steps: 1, step_code: 0, hold: false, reply_len: 3 };
            let r = sim::within(deadline, probe.call(kind, a)).await;
            match r {
                Ok(Ok(rep)) if rep.id == id => {}
                Ok(Ok(rep)) => {
                    probes_ok = false;
                    out.fail("C19/wrong-reply", format!("probe {kind:?} id {id} got the reply of call {}", rep.id));
                }
                Ok(Err(e)) => {
                    probes_ok = false;
                    let ended = {
                        let g = srv_end_slot.lock().unwrap();
                        g.clone()
                    };
                    if !(early_ok && ended.is_some()) {
                        out.fail("C19/later-call-failed", format!("probe {kind:?} from another client failed with {e:?} (serve state {ended:?}); {}", describe(case, &plans, &sh)));
                    }
                }
                Err(()) => {
                    probes_ok = false;
                    out.fail("C19/server-wedged", format!("probe {kind:?} from another client not answered within {deadline} virtual s; running executions {:?}; {}", sh.running(), describe(case, &plans, &sh)));
                }
            }
            if !probes_ok {
                break;
            }
        }
    }

    // Last call: oversized reply (D6 known; nothing is asserted about the server afterwards).
    let mut final_over_done = false;
    if let Some(x) = case.final_oversized {
        let alive = {
            let g = srv_end_slot.lock().unwrap();
            g.is_none()
        };
        if out.fails.is_empty() && alive {
            let id = 9100;
            let a = Args { id, steps: 0, step_code: 0, hold: false, reply_len: case.max_reply as u32 + 1 + x as u32 };
            match sim::within(deadline, probe.call(Kind::Get, a)).await {
                Ok(Err(_)) => final_over_done = true,
                Ok(Ok(_)) => out.fail("C19/oversized-reply-accepted", format!("a reply with {} bytes of payload was delivered although max_reply_size is {}", case.max_reply as u32 + 1 + x as u32, case.max_reply)),
                Err(()) => out.fail("C19/oversized-reply-call-hangs", format!("the call whose reply exceeds max_reply_size did not fail within {deadline} virtual s")),
            }
        }
    }

    // End: drop every client; serve() must return.
    drop(probe);
    let served = sim::within(deadline, srv_handle).await;
    let end = {
        let g = srv_end_slot.lock().unwrap();
        g.clone()
    };
    match (&served, &end) {
        (Ok(Ok(())), Some(e)) => match e {
            SrvEnd::Ok => {}
            SrvEnd::ReqReceive(err) => {
                if !fail_policy_trigger {
                    out.fail("C19/serve-failed", format!("serve() returned ReqReceive({err}) under policy {:?}; {}", case.policy, describe(case, &plans, &sh)));
                } else {
                    out.class("serve:ReqReceive(Fail policy)");
                }
            }
            SrvEnd::ReplySend(err) => {
                if over_anywhere {
                    // The property as written: an oversized reply fails only that call.
                    out.fails.insert(
                        0,
                        (
                            "C19/oversized-reply-stops-server".into(),
                            format!("serve() returned ReplySend({err}) after a reply exceeded max_reply_size {}: the server stopped serving all clients instead of failing only that call", case.max_reply),
                        ),
                    );
                } else if final_over_done {
                    out.class("d6:final-oversized-reply-stopped-serve");
                } else {
                    out.fail("C19/serve-failed", format!("serve() returned ReplySend({err}) although no reply exceeded the size limit; {}", describe(case, &plans, &sh)));
                }
            }
        },
        (Ok(Err(e)), _) => out.fail("C19/serve-panicked", format!("server task failed: {e}")),
        (Ok(Ok(())), None) => out.fail("C19/harness", "server task ended without result".into()),
        (Err(()), _) => {
            let running = sh.running();
            let cancellable_running = plans.iter().any(|p| running.contains(&p.id) && !p.kind.no_cancel());
            if cancellable_running {
                out.fail("C19/not-cancelled", format!("serve() does not return after all clients were dropped: executions {running:?} of vanished callers are still running; {}", describe(case, &plans, &sh)));
            } else {
                out.fail("C19/serve-hangs", format!("serve() does not return within {deadline} virtual s after all clients were dropped; running executions {running:?}; {}", describe(case, &plans, &sh)));
            }
        }
    }

    // Log invariants.
    let slog = {
        let g = sh.slog.lock().unwrap();
        g.clone()
    };
    let clog = {
        let g = sh.clog.lock().unwrap();
        g.clone()
    };
    // Failures of calls are excused by a server that legitimately stopped (policy Fail after a
    // failing request; the known oversized-reply finding) only from the moment serve() returned.
    let serve_end_seq = {
        let g = sh.serve_end_seq.lock().unwrap();
        *g
    };
    let stopped_legit_at: Option<u64> = match &end {
        Some(SrvEnd::ReqReceive(_)) if fail_policy_trigger => serve_end_seq,
        Some(SrvEnd::ReplySend(_)) if over_anywhere => serve_end_seq,
        _ => None,
    };
    let mut vanished_while_running = 0u32;
    let mut triggers_failed = 0u32;
    let mut served_after = false;
    for p in &plans {
        let evs: Vec<&SEv> = slog.iter().filter(|e| e.id == p.id).collect();
        let started = evs.iter().find(|e| e.what == SWhat::Start).map(|e| e.seq);
        let finished = evs.iter().find(|e| e.what == SWhat::Finish).map(|e| e.seq);
        let cancelled = evs.iter().find(|e| e.what == SWhat::Cancel).map(|e| e.seq);
        let c = clog.iter().find(|e| e.id == p.id);
        let starts = evs.iter().filter(|e| e.what == SWhat::Start).count();
        if starts > 1 {
            // At-most-once execution is C12's business; only recorded here.
            out.class("observed:executed-more-than-once(C12)");
        }
        // R3: a #[no_cancel] execution is never cancelled.
        if p.kind.no_cancel() && cancelled.is_some() {
            out.fail("C19/no-cancel-cancelled", format!("execution of #[no_cancel] call {} ({:?}) was dropped before it finished (caller outcome {:?}); {}", p.id, p.kind, c.map(|c| &c.out), describe(case, &plans, &sh)));
        }
        // A held cancellable execution cannot finish: its gate never opens.
        if p.hold && !p.kind.no_cancel() && finished.is_some() {
            out.fail("C19/harness", format!("held call {} finished", p.id));
        }
        let Some(c) = c else { continue };
        let on_cut_conn = p.place == Place::Conn2 && cut_active;
        let label = match (&c.out, started, finished, cancelled) {
            (COut::Dropped, None, _, _) => "dropped:never-started",
            (COut::Dropped, Some(_), Some(f), _) if f < c.seq => "dropped:after-finish(replying)",
            (COut::Dropped, Some(s), _, _) if s > c.seq => "dropped:before-start(queued)",
            (COut::Dropped, Some(_), _, Some(_)) => "dropped:executing->cancelled",
            (COut::Dropped, Some(_), Some(_), None) => "dropped:executing->finished",
            (COut::Dropped, Some(_), None, None) => "dropped:executing->running",
            (COut::Err(_), _, _, _) if p.kind.trigger() => "trigger-failed",
            (COut::Err(_), _, _, _) if on_cut_conn => "cut:call-failed",
            (COut::Err(_), _, _, _) => "call-failed",
            (COut::Ok, _, _, _) => "ok",
            (COut::Timeout, _, _, _) => "timeout",
            (COut::WrongReply(_), _, _, _) => "wrong-reply",
        };
        out.class(format!("call:{label}"));
        if matches!(c.out, COut::Dropped | COut::Err(_)) {
            if let Some(s) = started {
                let end = finished.or(cancelled);
                if s < c.seq && end.map(|e| e > c.seq).unwrap_or(true) {
                    vanished_while_running += 1;
                    out.class(format!("vanished-while-executing:{}", if p.kind.no_cancel() { "no_cancel" } else { "cancellable" }));
                }
            }
        }
        if on_cut_conn && matches!(c.out, COut::Err(_) | COut::Timeout) {
            if let Some(s) = started {
                let end = finished.or(cancelled);
                if s < c.seq && end.map(|e| e > c.seq).unwrap_or(true) {
                    out.class(format!("cut:caller-lost-while-executing:{}{}", if p.kind.no_cancel() { "no_cancel" } else { "cancellable" }, if p.hold { "+held" } else { "" }));
                }
            }
        }
        if p.kind.trigger() && matches!(c.out, COut::Err(_)) {
            triggers_failed += 1;
            out.class(format!("trigger:{:?}", p.kind));
        }
        // R4: outcome of calls that were not abandoned.
        match &c.out {
            COut::Ok => {
                if p.kind.trigger() {
                    out.fail("C19/bad-call-succeeded", format!("call {} of kind {:?} returned Ok", p.id, p.kind));
                }
                if p.oversized {
                    out.fail("C19/oversized-reply-accepted", format!("call {} returned a reply exceeding max_reply_size {}", p.id, case.max_reply));
                }
            }
            COut::WrongReply(other) => out.fail("C19/wrong-reply", format!("call {} got the reply of call {other}", p.id)),
            COut::Dropped => {}
            COut::Err(e) => {
                let excused = p.kind.trigger() || p.oversized || on_cut_conn || stopped_legit_at.map(|t| c.seq > t).unwrap_or(false);
                if !excused {
                    out.fail(
                        "C19/call-failed",
                        format!("call {} ({:?} from script {} at {:?}) on a healthy connection failed with {e}; {}", p.id, p.kind, p.script, p.place, describe(case, &plans, &sh)),
                    );
                }
            }
            COut::Timeout => {
                if on_cut_conn {
                    out.class("cut:call-timeout(not judged)");
                } else if p.kind.trigger() {
                    out.fail("C19/bad-call-hangs", format!("call {} of kind {:?} neither failed nor completed within {deadline} virtual s; {}", p.id, p.kind, describe(case, &plans, &sh)));
                } else {
                    out.fail("C19/call-hangs", format!("call {} ({:?} from script {} at {:?}) not answered within {deadline} virtual s; running executions {:?}; {}", p.id, p.kind, p.script, p.place, sh.running(), describe(case, &plans, &sh)));
                }
            }
        }
    }
    if probes_ok && out.fails.is_empty() {
        served_after = slog.iter().any(|e| e.id >= 9000 && e.what == SWhat::Finish);
    }
    // Final R1: nothing is running once serve() has returned.
    if served.is_ok() && out.fails.is_empty() {
        // Spawned executions may outlive a serve() that returned an error early; they still end.
        if sim::within(deadline, sh.wait_for(|s| s.running().is_empty())).await.is_err() {
            let running = sh.running();
            let cancellable_running = plans.iter().any(|p| running.contains(&p.id) && !p.kind.no_cancel());
            out.fail(
                if cancellable_running { "C19/not-cancelled" } else { "C19/execution-stuck" },
                format!("executions {running:?} still running {deadline} virtual s after serve() returned {end:?}; {}", describe(case, &plans, &sh)),
            );
        }
    }
    out.frames = link1.tap_len() as u64 / 2 + conn2.as_ref().map(|(l, _, _)| l.tap_len() as u64 / 2).unwrap_or(0);
    out.nontrivial = served_after && (vanished_while_running > 0 || triggers_failed > 0);
    out.class(format!("flavour:{:?}", case.flavour));
    out.class(format!("policy:{:?}", case.policy));
    if let (Some(c), true) = (&case.cut, cut_active) {
        out.class(format!("cut:{:?}", c.kind));
    }
    if case.clients.iter().any(|s| s.place == Place::Local) {
        out.class("client:local");
    }
    if case.clients.len() > 1 {
        out.class("clients:concurrent");
    }
    if case.policy == Policy::Send && recv_errors.load(Ordering::Relaxed) > 0 {
        out.class("policy:Send:error-forwarded");
    }
    if final_over_done {
        out.class("final-oversized-reply:failed-that-call");
    }
    if debug() {
        eprintln!("--- case done: fails {:?}", out.fails);
        for e in &slog {
            eprintln!("  S seq={} t={} id={} {:?}", e.seq, e.t_ms, e.id, e.what);
        }
        for e in &clog {
            eprintln!("  C seq={} t={} id={} {:?}", e.seq, e.t_ms, e.id, e.out);
        }
        eprintln!("  serve end {end:?}");
    }
    drop(keep);
    out
}

fn log_tail(sh: &Shared) -> Vec<String> {
    let l = sh.slog.lock().unwrap();
    l.iter().rev().take(6).rev().map(|e| format!("{}:{:?}@{}ms", e.id, e.what, e.t_ms)).collect()
}

fn describe(case: &Case, plans: &[Plan], sh: &Shared) -> String {
    let c = {
        let g = sh.clog.lock().unwrap();
        g.clone()
    };
    let calls: Vec<String> = plans
        .iter()
        .map(|p| {
            let o = c.iter().find(|e| e.id == p.id).map(|e| format!("{:?}", e.out)).unwrap_or_else(|| "-".into());
            format!("{}:{:?}{}{}->{}", p.id, p.kind, if p.hold { "+hold" } else { "" }, match p.abandon {
                Abandon::None => String::new(),
                a => format!("/{a:?}"),
            }, o)
        })
        .collect();
    format!("flavour {:?}, policy {:?}, cut {:?}, calls [{}], server log tail {:?}", case.flavour, case.policy, case.cut, calls.join(", "), log_tail(sh))
}

pub fn run(case: &Case) -> Outcome {
    let tape = case.sched.tape();
    let res = sim::run_sim(case.sched.tokio_seed, &tape, case.sched.defer, execute(case));
    let mut out = Outcome::default();
    out.frames = res.frames;
    out.inconclusive = res.inconclusive;
    if let Some((s, m)) = res.fails.first() {
        out.fail(s.clone(), m.clone());
    }
    for c in res.classes {
        out.class(c);
    }
    out.nontrivial = res.nontrivial;
    out
}

pub const RULE: &str = "cases = (Cfg pair, schedule, server flavour Value/RefMut/SharedMut(spawn)/Ref/Shared(spawn), receive-error policy Ignore/Send/Fail, request buffer, max_reply_size, 1-3 concurrent client scripts placed locally / on connection 1 / on connection 2 (clones of one client, plain or built from a superset trait), optional cut of connection 2 (Eof/StreamError/SinkError/Stall after n frames), optional final oversized reply); a call = (method: &self/&mut self x cancellable/#[no_cancel], unknown &self/&mut method, undecodable argument; 0-3 suspension points; optional gate that never opens; abandonment: none / drop after n pending polls / drop exactly when the execution logs started, step k or finished (+ticks) / drop after t ms). Oracle over the drop-guard execution log, the client log and serve(): executions of vanished callers end (a held cancellable one must end cancelled: C19/not-cancelled), #[no_cancel] executions are never dropped, calls that were not abandoned on a healthy connection succeed with their own reply, unknown/undecodable calls fail for their caller only, afterwards a &mut and a &self probe from another client are answered, serve() keeps running until all clients are dropped and returns Ok (ReqReceive only under policy Fail after a failing request; ReplySend only for the known oversized-reply finding). non-trivial = the probes were served after at least one caller vanished while its execution was running (measured by log order) or at least one unknown/undecodable call failed; distinct = distinct case hash";

pub fn main(tier: Tier, seed: u64) -> Report {
    let mut rep = Report::new("C19", tier, seed);
    rep.rule = RULE.into();
    rep.assumptions = vec![
        "single-threaded deterministic simulation; task-level interleavings only".into(),
        "'abandoned at its next suspension point' is judged at quiescence: a cancellable execution may pass further suspension points while the hang-up travels; only an execution that waits on a never-opening gate must end cancelled".into(),
        "oversized *requests* are outside the statement (they fail the client's own request channel) and are not generated".into(),
        format!("oversized replies are a known finding (C19/oversized-reply-stops-server); EXCLUDE_OVERSIZED_REPLY_EXCEPT_LAST = {EXCLUDE_OVERSIZED_REPLY_EXCEPT_LAST}: generated only as the last call of a case"),
        "callers on the cut connection are not judged (C06); only the server-side consequences are".into(),
    ];
    let regress: Vec<Case> = runner::load_regress::<Case>("C19", "rtc").into_iter().map(|(_, c)| c).collect();
    if !regress.is_empty() {
        runner::run_cases(&mut rep, "regress-rtc", regress, run);
    }
    runner::run_generated(&mut rep, "rtc", tier.pick(18_000, 200_000), || strategy(tier), run);
    rep
}

pub fn replay(_part: &str, case: serde_json::Value) -> (Option<runner::Failure>, u32, u32) {
    let n = runner::replay_times(3);
    let c: Case = serde_json::from_value(case).expect("replay case does not parse as C19 case");
    let (f, h) = runner::replay_case(&c, run, n);
    (f, h, n)
}

#[allow(dead_code)]
fn _unused(_: BTreeMap<u8, u8>) {}
