//! C13 — A mirror of an observable collection equals the collection.
//!
//! Parts: "vec", "vec_deque", "hash_map", "hash_set", "list". One generic driver (`execute`)
//! over the trait `Kind`, which binds an observable collection type to its op language,
//! subscription, mirror and event types.
//!
//! Oracle: the observed collection's *own* contents (read through its `Deref` / `borrow`) are the
//! expected value. At every checkpoint (generated positions inside the op sequence and always at
//! the end) the driver waits for quiescence (virtual-time barrier: with a paused clock a sleep
//! only completes after all tasks have gone idle; over connections it is repeated until no frame
//! moved during a window longer than the largest frame delay), then for every consumer:
//!   * mirror: `borrow()` is `Ok`, contents equal, `is_complete()`, `is_done()` ⇔ `done()` called;
//!   * hand-folded `recv()` stream (independent re-implementation of the documented event
//!     semantics): contents equal, initial value complete, `Done` seen ⇔ `done()` called;
//!   * at the end `detach()` yields the same contents.
//!
//! The hand consumer does not always await a `recv()` to completion: driven by the case's cyclic
//! `hand_cancel` list it polls the `recv()` future a generated number of times, drops it while it
//! is still pending (like a `select!` whose other branch fires) and calls `recv()` again. The
//! cancelled-and-reissued stream must be the same stream: no lost / duplicated / reordered event
//! or initial-value element, and `InitialComplete` exactly when the folded value equals the
//! observable's contents at the subscription point (documented meaning of the event).

use proptest::prelude::*;
use serde::{de::DeserializeOwned, Deserialize, Serialize};
use std::{
    collections::{BTreeMap, BTreeSet, HashMap, HashSet, VecDeque},
    fmt::Debug,
    future::Future,
    hash::{Hash, Hasher},
    ops::DerefMut,
    sync::{Arc, Mutex},
    time::Duration,
};
use tokio::{sync::Mutex as AMutex, task::JoinHandle};

use crate::engine::{
    gen::{self, connect_pair, sched, GCfg, Sched},
    link::SimLink,
    runner::{self, Outcome, Report, Tier},
    sim::{self, spawn_actor, tape_pause, CancelAfter, Cancelled, Tape},
};
use remoc::{rch::base, robs, RemoteSend};

// ---------------------------------------------------------------------------------------------
// Exclusions of confirmed findings (see REPORT.md). `true` = the generator does not produce the
// trigger any more; replays that contain the trigger still execute it.
// ---------------------------------------------------------------------------------------------

/// D4: `ObservableHashMap::retain` hands out `&mut V`; a value modified by the predicate and kept
/// produces no event, the mirror keeps the old value.
pub const EXCLUDE_HASH_MAP_RETAIN_MUTATION: bool = true;
/// D8: with an element type whose `Eq`/`Hash` ignore a field, `HashSetEvent::Set` is ambiguous
/// (`insert` keeps the stored element, `replace` swaps it; the mirror always keeps it).
pub const EXCLUDE_HASH_SET_PARTIAL_EQ: bool = true;
/// D14: an *incremental* subscription taken after `done()` yields a mirror that stops after the
/// first initial-value event (its `done` flag is pre-set and ends the mirror task).
pub const EXCLUDE_INCREMENTAL_AFTER_DONE: bool = false;
/// D15: a subscription to a mirror that is still loading its incremental initial value forwards
/// `InitialComplete`, which cannot be serialised: a remote second-level subscriber is cut off.
pub const EXCLUDE_REMOTE_SUB_OF_LOADING_MIRROR: bool = true;

const BIG: u64 = 2_000_000;
const BUFFER: usize = 1 << 20;
const MAX_SIZE: usize = 1 << 24;

// ---------------------------------------------------------------------------------------------
// Case
// ---------------------------------------------------------------------------------------------

#[derive(Clone, Copy, Debug, Serialize, Deserialize, PartialEq, Eq, Hash)]
pub enum ConsumerKind {
    /// `Subscription::mirror`.
    Mirror,
    /// `take_initial` + `recv` loop folded by hand.
    Hand,
    /// Mirror, then a subscription to that mirror (`Mirrored*::subscribe[_incremental]`) shipped
    /// over `hops` further connections and mirrored again. `late`: the second subscription is
    /// taken at the first checkpoint after the first mirror exists, otherwise immediately.
    MirrorOfMirror { incremental: bool, hops: u8, late: bool },
}

#[derive(Clone, Debug, Serialize, Deserialize, PartialEq, Eq, Hash)]
pub struct SubPoint {
    /// Position selector: the subscription is taken before op `at * (len + 1) / 256`.
    pub at: u8,
    /// Taken after `done()` (only when the case calls `done`).
    pub after_done: bool,
    pub incremental: bool,
    pub consumer: ConsumerKind,
    /// Connections crossed by the subscription (0 = local).
    pub hops: u8,
    /// Wait with `changed()` before the barrier (exercises the notification path; never fails).
    pub use_changed: bool,
}

#[derive(Clone, Debug, Serialize, Deserialize, PartialEq)]
pub struct Case<O> {
    pub init: Vec<u32>,
    pub ops: Vec<O>,
    pub done: bool,
    pub done_twice: bool,
    pub subs: Vec<SubPoint>,
    /// Intermediate checkpoints (position selectors like `SubPoint::at`).
    pub checks: Vec<u8>,
    /// Cyclic list of poll budgets for the hand consumers' `recv()` calls: the n-th `recv()`
    /// future of a consumer is dropped when it is polled again after having been pending
    /// `budget` times (`sim::CancelAfter`), then `recv()` is called anew; 0 = awaited to
    /// completion. Empty (old replay files) = never cancelled.
    #[serde(default)]
    pub hand_cancel: Vec<u8>,
    pub sched: Sched,
    pub cfg_a: GCfg,
    pub cfg_b: GCfg,
}

fn pos(sel: u8, len: usize) -> usize {
    sel as usize * (len + 1) / 256
}

/// How a reference obtained from the collection is used.
#[derive(Clone, Copy, Debug, Serialize, Deserialize, PartialEq, Eq, Hash)]
pub enum W {
    /// Only read through `Deref`.
    Read,
    /// `DerefMut` taken, nothing written.
    Touch,
    Set(u32),
    Add(u32),
}

impl W {
    fn writes(&self) -> bool {
        matches!(self, W::Set(_) | W::Add(_))
    }
    fn on_u32<R: DerefMut<Target = u32>>(&self, r: &mut R) {
        match self {
            W::Read => {
                let _x: u32 = **r;
            }
            W::Touch => {
                let _x: &mut u32 = &mut **r;
            }
            W::Set(v) => **r = *v,
            W::Add(d) => {
                let x = (**r).wrapping_add(*d);
                **r = x;
            }
        }
    }
    fn on_val<R: DerefMut<Target = Val>>(&self, r: &mut R) {
        match self {
            W::Read => {
                let _x: u32 = (**r).a;
            }
            W::Touch => {
                let _x: &mut Val = &mut **r;
            }
            W::Set(v) => (**r).a = *v,
            W::Add(d) => {
                let v: &mut Val = &mut **r;
                v.a = v.a.wrapping_add(*d);
                v.b = v.b.wrapping_add(1);
            }
        }
    }
}

/// Value type of the hash map.
#[derive(Clone, Debug, Default, Serialize, Deserialize, PartialEq, Eq, Hash, PartialOrd, Ord)]
pub struct Val {
    pub a: u32,
    pub b: u8,
}

/// Element type of the hash set: `Eq`/`Hash` look at `key` only, contents are compared field-wise.
#[derive(Clone, Debug, Serialize, Deserialize)]
pub struct El {
    pub key: u8,
    pub tag: u8,
}
impl PartialEq for El {
    fn eq(&self, o: &Self) -> bool {
        self.key == o.key
    }
}
impl Eq for El {}
impl Hash for El {
    fn hash<H: Hasher>(&self, h: &mut H) {
        self.key.hash(h)
    }
}

/// What an op did (measured on the observable while interpreting).
#[derive(Clone, Copy, Debug, Default)]
pub struct Effect {
    pub label: &'static str,
    /// A write went through a RefMut / IterMut / entry reference.
    pub ref_write: bool,
    /// `retain` removed at least one element.
    pub retain_removed: bool,
    /// Append (list rule).
    pub pushed: bool,
}

fn eff(label: &'static str) -> Effect {
    Effect { label, ..Default::default() }
}

#[derive(Clone, Copy, Debug, PartialEq, Eq)]
pub enum Mark {
    Change,
    Complete,
    Done,
}

#[derive(Clone, Debug)]
pub struct View<S> {
    pub snap: S,
    pub complete: bool,
    pub done: bool,
}

#[derive(Clone, Debug)]
pub struct HandState<S> {
    pub snap: Option<S>,
    pub complete: u32,
    pub done_seen: u32,
    pub ended: bool,
    pub error: Option<String>,
    pub events: u64,
    pub flags: (bool, bool),
    /// `recv()` futures dropped while pending (after >= 1 pending poll) and re-issued.
    pub cancels: u32,
    /// ... of these, while the incremental initial value was still loading.
    pub cancels_initial: u32,
    /// Events delivered by a `recv()` that was issued after a cancellation.
    pub events_after_cancel: u32,
}

pub trait Kind: Sized + 'static {
    const NAME: &'static str;
    /// Snapshot subscriptions exist (`subscribe` vs `subscribe_incremental`, `take_initial`).
    const MODES: bool;
    /// `Mirrored*::subscribe` exists.
    const RESUB: bool;
    type Op: Clone + Debug + Serialize + DeserializeOwned + Send + Sync + 'static;
    type Obs;
    type Snap: Clone + PartialEq + Debug + Send + 'static;
    type Sub: RemoteSend;
    type Mir: Send + Sync + 'static;
    type Event: Send + 'static;
    type Fold: Send + 'static;

    fn op_strategy() -> BoxedStrategy<Self::Op>;
    fn new(init: &[u32]) -> Self::Obs;
    fn apply(obs: &mut Self::Obs, op: &Self::Op) -> Effect;
    fn mark_done(obs: &mut Self::Obs);
    fn contents(obs: &Self::Obs) -> impl Future<Output = Self::Snap>;
    fn subscribe(obs: &Self::Obs, incremental: bool) -> Self::Sub;
    fn mirror(sub: Self::Sub) -> Self::Mir;
    fn view(m: &Self::Mir) -> impl Future<Output = Result<View<Self::Snap>, String>> + Send;
    fn changed(m: &mut Self::Mir) -> impl Future<Output = ()> + Send;
    fn detach(m: Self::Mir) -> impl Future<Output = Self::Snap> + Send;
    fn resubscribe(m: &Self::Mir, incremental: bool) -> impl Future<Output = Result<Self::Sub, String>> + Send;
    fn take_initial(sub: &mut Self::Sub) -> Option<Self::Fold>;
    fn empty_fold() -> Self::Fold;
    fn recv(sub: &mut Self::Sub) -> impl Future<Output = Result<Option<Self::Event>, String>> + Send;
    fn fold(f: &mut Self::Fold, ev: Self::Event) -> Result<Mark, String>;
    fn snap(f: &Self::Fold) -> Self::Snap;
    fn snap_len(s: &Self::Snap) -> usize;
    fn sub_flags(sub: &Self::Sub) -> (bool, bool);
    /// Name of a confirmed finding whose trigger is present in the op list.
    fn known_trigger(_ops: &[Self::Op]) -> Option<&'static str> {
        None
    }
}

// ---------------------------------------------------------------------------------------------
// Strategy
// ---------------------------------------------------------------------------------------------

fn gcfg_c13() -> BoxedStrategy<GCfg> {
    (prop_oneof![Just(16u32), Just(64u32), Just(1024u32)], prop_oneof![Just(64u32), Just(256u32), Just(4096u32)], 1usize..=4)
        .prop_map(|(chunk_size, receive_buffer, q)| GCfg {
            chunk_size,
            receive_buffer,
            max_data_size: 1 << 20,
            shared_q: q,
            tsend_q: q,
            trecv_q: q,
            connect_queue: 8,
            max_ports: 256,
            max_received_ports: 64,
            // No keep-alive pings: long virtual waits are free and no timer but the link's exists.
            timeout_s: None,
        })
        .boxed()
}

fn subpoint_strategy<K: Kind>(max_hops: u8, done: bool) -> BoxedStrategy<SubPoint> {
    let consumer = if K::RESUB {
        prop_oneof![
            5 => Just(ConsumerKind::Mirror),
            3 => Just(ConsumerKind::Hand),
            2 => (any::<bool>(), 0u8..=2, any::<bool>()).prop_map(|(incremental, hops, late)| ConsumerKind::MirrorOfMirror { incremental, hops, late }),
        ]
        .boxed()
    } else {
        prop_oneof![3 => Just(ConsumerKind::Mirror), 2 => Just(ConsumerKind::Hand)].boxed()
    };
    (any::<u8>(), prop_oneof![4 => Just(false), 1 => Just(true)], any::<bool>(), consumer, 0u8..=max_hops, prop_oneof![3 => Just(false), 1 => Just(true)])
        .prop_map(move |(at, after_done, incremental, consumer, hops, use_changed)| {
            let mut sp = SubPoint { at, after_done: after_done && done, incremental: incremental || !K::MODES, consumer, hops, use_changed };
            normalise::<K>(&mut sp, max_hops, done);
            sp
        })
        .boxed()
}

/// Keeps generated subscription points inside the supported / not excluded domain.
fn normalise<K: Kind>(sp: &mut SubPoint, max_hops: u8, _done: bool) {
    sp.hops = sp.hops.min(max_hops);
    if let ConsumerKind::MirrorOfMirror { incremental, hops, late } = &mut sp.consumer {
        *hops = (*hops).min(max_hops.saturating_sub(sp.hops));
        if EXCLUDE_REMOTE_SUB_OF_LOADING_MIRROR && *hops > 0 && sp.incremental {
            // The first mirror must have finished loading before a remote subscriber joins.
            *late = true;
        }
        if EXCLUDE_INCREMENTAL_AFTER_DONE && sp.after_done {
            *incremental = false;
        }
    }
    if EXCLUDE_INCREMENTAL_AFTER_DONE && sp.after_done && K::MODES {
        sp.incremental = false;
    }
}

pub fn strategy<K: Kind>(_tier: Tier) -> BoxedStrategy<Case<K::Op>> {
    let init = prop_oneof![
        8 => proptest::collection::vec(0u32..1000, 0..=6),
        1 => proptest::collection::vec(0u32..1000, 120..=140),
    ];
    (any::<bool>(), prop_oneof![13 => Just(0u8), 4 => Just(1u8), 3 => Just(2u8)])
        .prop_flat_map(move |(done, max_hops)| {
            (
                init.clone(),
                proptest::collection::vec(K::op_strategy(), 0..=40),
                Just(done),
                any::<bool>(),
                proptest::collection::vec(subpoint_strategy::<K>(max_hops, done), 1..=3),
                proptest::collection::vec(any::<u8>(), 0..=2),
                prop_oneof![
                    1 => Just(Vec::new()),
                    4 => proptest::collection::vec(prop_oneof![3 => Just(0u8), 4 => Just(1u8), 2 => Just(2u8), 1 => Just(3u8)], 1..=6),
                ],
                sched(true),
                gcfg_c13(),
                gcfg_c13(),
            )
        })
        .prop_map(|(init, ops, done, done_twice, mut subs, checks, hand_cancel, sched, cfg_a, cfg_b)| {
            if EXCLUDE_INCREMENTAL_AFTER_DONE && done {
                // A late second-level subscription is taken at the first checkpoint at or after the
                // subscription point; without an intermediate one that is the final checkpoint,
                // i.e. after done().
                let n = ops.len();
                for sp in subs.iter_mut() {
                    let at = pos(sp.at, n);
                    let early_check = !sp.after_done && checks.iter().any(|c| pos(*c, n) >= at);
                    if let ConsumerKind::MirrorOfMirror { incremental, late: true, .. } = &mut sp.consumer {
                        if !early_check {
                            *incremental = false;
                        }
                    }
                }
            }
            Case { init, ops, done, done_twice, subs, checks, hand_cancel, sched, cfg_a, cfg_b }
        })
        .boxed()
}

// ---------------------------------------------------------------------------------------------
// Network
// ---------------------------------------------------------------------------------------------

struct Conn<S> {
    tx: base::Sender<S>,
    rx: base::Receiver<S>,
}

struct Net<S> {
    conns: Vec<Arc<AMutex<Conn<S>>>>,
    links: Vec<SimLink>,
    keep: Vec<Box<dyn std::any::Any>>,
}

async fn make_net<S: RemoteSend>(n: usize, cfg_a: &GCfg, cfg_b: &GCfg, sched: &Sched) -> Result<Net<S>, String> {
    let mut net = Net { conns: vec![], links: vec![], keep: vec![] };
    for i in 0..n {
        let (link, a, b) = connect_pair(cfg_a, cfg_b, sched, vec![]).await?;
        let gen::Side { client: ca, listener: la, run: ra } = a;
        let gen::Side { client: cb, listener: mut lb, run: rb } = b;
        let (conn, acc) = tokio::join!(sim::within(BIG, ca.connect()), sim::within(BIG, lb.accept()));
        let ((raw_tx, raw_rx_a), (raw_tx_b, raw_rx)) = match (conn, acc) {
            (Ok(Ok(c)), Ok(Ok(Some(l)))) => (c, l),
            _ => return Err(format!("base port setup on connection {i} failed")),
        };
        let tx = base::Sender::<S>::new(raw_tx);
        let rx = base::Receiver::<S>::new(raw_rx);
        net.conns.push(Arc::new(AMutex::new(Conn { tx, rx })));
        net.links.push(link);
        net.keep.push(Box::new((ca, la, cb, lb, ra, rb, raw_rx_a, raw_tx_b)));
    }
    Ok(net)
}

/// Moves a value over the connections `from .. from + hops`.
async fn ship<S: RemoteSend>(conns: &[Arc<AMutex<Conn<S>>>], from: usize, hops: usize, s: S) -> Result<S, String> {
    let mut s = s;
    for c in from..from + hops {
        let Some(conn) = conns.get(c) else { return Err(format!("connection {c} does not exist")) };
        let mut g = conn.lock().await;
        let Conn { tx, rx } = &mut *g;
        let (a, b) = tokio::join!(sim::within(BIG, tx.send(s)), sim::within(BIG, rx.recv()));
        s = match (a, b) {
            (Ok(Ok(())), Ok(Ok(Some(x)))) => x,
            (a, b) => {
                let a = match a {
                    Err(()) => "timeout".to_string(),
                    Ok(Ok(())) => "ok".to_string(),
                    Ok(Err(e)) => format!("{:?}", e.kind),
                };
                let b = match b {
                    Err(()) => "timeout".to_string(),
                    Ok(Ok(Some(_))) => "ok".to_string(),
                    Ok(Ok(None)) => "end of stream".to_string(),
                    Ok(Err(e)) => format!("{e:?}"),
                };
                return Err(format!("transfer over connection {c}: send {a}, receive {b}"));
            }
        };
    }
    Ok(s)
}

/// Quiescence barrier.
async fn settle(links: &[SimLink], max_delay_ms: u64) -> Result<(), String> {
    if links.is_empty() {
        tokio::time::sleep(Duration::from_secs(10)).await;
        return Ok(());
    }
    let window = Duration::from_millis(3 * max_delay_ms + 100_000);
    for _ in 0..20_000 {
        let n: usize = links.iter().map(|l| l.tap_len()).sum();
        tokio::time::sleep(window).await;
        let m: usize = links.iter().map(|l| l.tap_len()).sum();
        if n == m {
            return Ok(());
        }
    }
    Err("frames keep moving for 20000 settle windows".into())
}

// ---------------------------------------------------------------------------------------------
// Driver
// ---------------------------------------------------------------------------------------------

struct Built<K: Kind> {
    m1: Option<K::Mir>,
    m2: Option<K::Mir>,
}

struct Slot<K: Kind> {
    idx: usize,
    sp: SubPoint,
    /// Taken after done() had been called.
    after_done: bool,
    pending: Option<JoinHandle<Result<Built<K>, String>>>,
    m1: Option<K::Mir>,
    m2: Option<K::Mir>,
    want_m2: bool,
    /// The second-level subscription was taken after done() had been called.
    m2_after_done: bool,
    hand: Option<Arc<Mutex<HandState<K::Snap>>>>,
}

/// Budget of pending polls for the `n`-th `recv()` future of a hand consumer (None = await to
/// completion).
fn cancel_budget(list: &[u8], n: usize) -> Option<u32> {
    if list.is_empty() {
        return None;
    }
    match list[n % list.len()].min(3) {
        0 => None,
        b => Some(b as u32),
    }
}

#[allow(clippy::too_many_arguments)]
async fn hand_loop<K: Kind>(
    conns: Vec<Arc<AMutex<Conn<K::Sub>>>>, hops: usize, sub: K::Sub, st: Arc<Mutex<HandState<K::Snap>>>, tape: Tape, at_sub: K::Snap, cancel: Vec<u8>,
    offset: usize,
) {
    let mut sub = match ship(&conns, 0, hops, sub).await {
        Ok(s) => s,
        Err(e) => {
            st.lock().unwrap().error = Some(format!("subscription transfer failed: {e}"));
            return;
        }
    };
    let mut fold = match K::take_initial(&mut sub) {
        Some(f) => {
            let mut g = st.lock().unwrap();
            g.complete += 1;
            if K::snap(&f) != at_sub {
                g.snap = Some(K::snap(&f));
                g.error = Some(format!("initial value: take_initial() gives {:?} but the observable held {at_sub:?} when the subscription was taken", K::snap(&f)));
                return;
            }
            f
        }
        None => K::empty_fold(),
    };
    {
        let mut g = st.lock().unwrap();
        g.snap = Some(K::snap(&fold));
        g.flags = K::sub_flags(&sub);
    }
    // Number of recv() futures created so far (index into the cyclic budget list).
    let mut issued = offset;
    loop {
        tape_pause(&tape, false).await;
        let mut reissued = false;
        let r = loop {
            let budget = cancel_budget(&cancel, issued);
            issued += 1;
            // With a budget >= 1 the future is dropped only after it returned Pending at least
            // once, at its next wake-up: every iteration awaits a wake-up, no busy loop.
            match CancelAfter::new(K::recv(&mut sub), budget).await {
                Cancelled::Done(r) => break r,
                Cancelled::Dropped => {
                    reissued = true;
                    let loading = !K::sub_flags(&sub).0;
                    let mut g = st.lock().unwrap();
                    g.cancels += 1;
                    if loading {
                        g.cancels_initial += 1;
                    }
                }
            }
        };
        let mut g = st.lock().unwrap();
        g.flags = K::sub_flags(&sub);
        match r {
            Ok(Some(ev)) => {
                g.events += 1;
                if reissued {
                    g.events_after_cancel += 1;
                }
                match K::fold(&mut fold, ev) {
                    Ok(Mark::Change) => g.snap = Some(K::snap(&fold)),
                    Ok(Mark::Complete) => {
                        g.complete += 1;
                        // "The incremental subscription has reached the value of the observed
                        // collection at the time it was subscribed."
                        if g.complete == 1 && K::snap(&fold) != at_sub {
                            g.error = Some(format!(
                                "initial value: InitialComplete after {} events ({} recv() cancellations, {} while loading) with folded value {:?}, but the observable held {at_sub:?} when the subscription was taken",
                                g.events,
                                g.cancels,
                                g.cancels_initial,
                                K::snap(&fold)
                            ));
                            return;
                        }
                    }
                    Ok(Mark::Done) => g.done_seen += 1,
                    Err(e) => {
                        g.error = Some(format!("event stream inconsistent: {e}"));
                        return;
                    }
                }
            }
            Ok(None) => {
                g.ended = true;
                return;
            }
            Err(e) => {
                g.error = Some(format!("recv failed: {e}"));
                return;
            }
        }
    }
}

async fn build<K: Kind>(conns: Vec<Arc<AMutex<Conn<K::Sub>>>>, sp: SubPoint, sub: K::Sub) -> Result<Built<K>, String> {
    let sub = ship(&conns, 0, sp.hops as usize, sub).await?;
    let m1 = K::mirror(sub);
    let mut m2 = None;
    if let ConsumerKind::MirrorOfMirror { incremental, hops, late: false } = sp.consumer {
        m2 = Some(second_level::<K>(&conns, &m1, sp.hops as usize, hops as usize, incremental).await?);
    }
    Ok(Built { m1: Some(m1), m2 })
}

async fn second_level<K: Kind>(conns: &[Arc<AMutex<Conn<K::Sub>>>], m1: &K::Mir, from: usize, hops: usize, incremental: bool) -> Result<K::Mir, String> {
    let s2 = K::resubscribe(m1, incremental).await.map_err(|e| format!("subscribing to the mirror failed: {e}"))?;
    let s2 = ship(conns, from, hops, s2).await?;
    Ok(K::mirror(s2))
}

pub struct Res {
    pub fail: Option<(String, String)>,
    pub nontrivial: bool,
    pub classes: Vec<String>,
    pub frames: u64,
}

fn describe(sp: &SubPoint, idx: usize, after_done: bool) -> String {
    format!(
        "subscription #{idx} ({}{}, {} hop(s), {:?})",
        if sp.incremental { "incremental" } else { "snapshot" },
        if after_done { ", taken after done()" } else { "" },
        sp.hops,
        sp.consumer
    )
}

async fn execute<K: Kind>(case: &Case<K::Op>) -> Res {
    let mut res = Res { fail: None, nontrivial: false, classes: vec![], frames: 0 };
    let name = K::NAME;
    macro_rules! fail {
        ($sig:expr, $($arg:tt)*) => {{
            if res.fail.is_none() {
                res.fail = Some((format!("C13/{}/{}", name, $sig), format!($($arg)*)));
            }
        }};
    }
    let tape = case.sched.tape();
    let nops = case.ops.len();

    // Network (only when a subscription crosses a connection).
    let need = case
        .subs
        .iter()
        .map(|sp| sp.hops as usize + if let ConsumerKind::MirrorOfMirror { hops, .. } = sp.consumer { hops as usize } else { 0 })
        .max()
        .unwrap_or(0)
        .min(2);
    let net: Net<K::Sub> = if need > 0 {
        match sim::within(BIG, make_net::<K::Sub>(need, &case.cfg_a, &case.cfg_b, &case.sched)).await {
            Ok(Ok(n)) => n,
            Ok(Err(e)) => {
                fail!("setup", "{e}");
                return res;
            }
            Err(()) => {
                fail!("setup", "connection setup timed out");
                return res;
            }
        }
    } else {
        Net { conns: vec![], links: vec![], keep: vec![] }
    };
    let max_delay = case.sched.max_delay_ms(gen::delay_cap_ms(&case.cfg_a, &case.cfg_b));

    let mut obs = K::new(&case.init);
    let mut slots: Vec<Slot<K>> = Vec::new();
    let mut done_called = false;
    let mut live_before_done = false; // a subscription exists that was taken before done()
    let mut nontrivial = false;
    let mut initial_nonempty_sub = false;

    // Subscription positions.
    let sub_pos: Vec<usize> = case.subs.iter().map(|sp| pos(sp.at, nops)).collect();
    let check_pos: Vec<usize> = case.checks.iter().map(|c| pos(*c, nops)).collect();

    let mut step = 0usize;
    loop {
        // step in 0..=nops: before op[step]; nops + 1: after done().
        let after_all = step > nops;
        if after_all {
            if case.done {
                K::mark_done(&mut obs);
                if case.done_twice {
                    K::mark_done(&mut obs);
                }
                done_called = true;
            }
        }
        // Start consumers.
        for (idx, sp) in case.subs.iter().enumerate() {
            let here = if sp.after_done && case.done { after_all } else { !after_all && sub_pos[idx] == step };
            if !here {
                continue;
            }
            let mut sp = sp.clone();
            sp.hops = sp.hops.min(need as u8);
            if !K::MODES {
                sp.incremental = true;
            }
            if !K::RESUB {
                if let ConsumerKind::MirrorOfMirror { .. } = sp.consumer {
                    sp.consumer = ConsumerKind::Mirror;
                }
            }
            if let ConsumerKind::MirrorOfMirror { hops, .. } = &mut sp.consumer {
                *hops = (*hops).min(need as u8 - sp.hops);
            }
            let at_sub = match sim::within(BIG, K::contents(&obs)).await {
                Ok(current) => current,
                Err(()) => {
                    fail!("observable-borrow-hangs", "reading the observable's contents timed out");
                    return res;
                }
            };
            if K::snap_len(&at_sub) > 0 && !done_called {
                initial_nonempty_sub = true;
            }
            let sub = K::subscribe(&obs, sp.incremental);
            if !done_called {
                live_before_done = true;
            }
            let mut slot = Slot::<K> { idx, sp: sp.clone(), after_done: done_called, pending: None, m1: None, m2: None, want_m2: false, m2_after_done: done_called, hand: None };
            res.classes.push(format!(
                "sub:{}:{}:{}hop{}",
                match sp.consumer {
                    ConsumerKind::Mirror => "mirror",
                    ConsumerKind::Hand => "hand",
                    ConsumerKind::MirrorOfMirror { .. } => "mirror-of-mirror",
                },
                if sp.incremental { "incremental" } else { "snapshot" },
                sp.hops,
                if done_called { ":after-done" } else { "" }
            ));
            match sp.consumer {
                ConsumerKind::Hand => {
                    let st = Arc::new(Mutex::new(HandState {
                        snap: None,
                        complete: 0,
                        done_seen: 0,
                        ended: false,
                        error: None,
                        events: 0,
                        flags: (false, false),
                        cancels: 0,
                        cancels_initial: 0,
                        events_after_cancel: 0,
                    }));
                    slot.hand = Some(st.clone());
                    res.classes.push(if case.hand_cancel.iter().any(|b| *b > 0) { "hand-cancel:generated".into() } else { "hand-cancel:not-generated".to_string() });
                    spawn_actor(hand_loop::<K>(net.conns.clone(), sp.hops as usize, sub, st, tape.clone(), at_sub, case.hand_cancel.clone(), idx));
                }
                ConsumerKind::Mirror | ConsumerKind::MirrorOfMirror { .. } => {
                    if let ConsumerKind::MirrorOfMirror { incremental, hops, late } = sp.consumer {
                        slot.want_m2 = late;
                        res.classes.push(format!("mom:{}:{}hop:{}", if incremental { "incremental" } else { "snapshot" }, hops, if late { "late" } else { "early" }));
                    }
                    let total_hops = sp.hops as usize + if let ConsumerKind::MirrorOfMirror { hops, late: false, .. } = sp.consumer { hops as usize } else { 0 };
                    if total_hops == 0 {
                        match sim::within(BIG, build::<K>(net.conns.clone(), sp.clone(), sub)).await {
                            Ok(Ok(b)) => {
                                slot.m1 = b.m1;
                                slot.m2 = b.m2;
                            }
                            Ok(Err(e)) => fail!("setup-consumer", "{}: {e}", describe(&sp, idx, done_called)),
                            Err(()) => fail!("setup-consumer", "{}: building the mirror timed out", describe(&sp, idx, done_called)),
                        }
                    } else {
                        slot.pending = Some(spawn_actor(build::<K>(net.conns.clone(), sp.clone(), sub)));
                    }
                }
            }
            slots.push(slot);
        }
        // Checkpoint.
        let last = step == nops + 1;
        if last || (!after_all && check_pos.contains(&step)) {
            res.classes.push(if last { "checkpoint:final".into() } else { "checkpoint:intermediate".to_string() });
            let expected = match sim::within(BIG, K::contents(&obs)).await {
                Ok(s) => s,
                Err(()) => {
                    fail!("observable-borrow-hangs", "reading the observable's contents timed out");
                    return res;
                }
            };
            // Join pending consumer set-ups.
            for slot in slots.iter_mut() {
                if let Some(h) = slot.pending.take() {
                    match sim::within(BIG, h).await {
                        Ok(Ok(Ok(b))) => {
                            slot.m1 = b.m1;
                            slot.m2 = b.m2;
                        }
                        Ok(Ok(Err(e))) => fail!(sig_for::<K>(case, slot, "subscription-transfer"), "{}: {e}", describe(&slot.sp, slot.idx, slot.after_done)),
                        Ok(Err(e)) => fail!("setup-consumer", "{}: set-up task failed: {e}", describe(&slot.sp, slot.idx, slot.after_done)),
                        Err(()) => fail!(sig_for::<K>(case, slot, "subscription-transfer"), "{}: the subscription did not arrive within {BIG} virtual s", describe(&slot.sp, slot.idx, slot.after_done)),
                    }
                }
            }
            // Optional wait through changed().
            for slot in slots.iter_mut() {
                if !slot.sp.use_changed {
                    continue;
                }
                if let Some(m) = slot.m1.as_mut() {
                    let exp = expected.clone();
                    let r = sim::within(100_000 + 100 * max_delay / 1000, async {
                        // changed() returns immediately once the mirror task has ended: bound the
                        // number of rounds and let virtual time pass in every round.
                        for _ in 0..5000 {
                            match K::view(m).await {
                                Ok(v) if v.snap == exp && v.complete && v.done == done_called => return,
                                Err(_) => return,
                                _ => {}
                            }
                            K::changed(m).await;
                            tokio::time::sleep(Duration::from_millis(1)).await;
                        }
                        futures::future::pending::<()>().await
                    })
                    .await;
                    res.classes.push(if r.is_ok() { "changed:converged".into() } else { "changed:timeout".to_string() });
                }
            }
            if let Err(e) = settle(&net.links, max_delay).await {
                fail!("no-quiescence", "{e}");
                return res;
            }
            // Late second-level mirrors.
            for slot in slots.iter_mut() {
                if slot.want_m2 && slot.m2.is_none() {
                    if let (Some(m1), ConsumerKind::MirrorOfMirror { incremental, hops, .. }) = (slot.m1.as_ref(), slot.sp.consumer) {
                        slot.want_m2 = false;
                        slot.m2_after_done = done_called;
                        match sim::within(BIG, second_level::<K>(&net.conns, m1, slot.sp.hops as usize, hops as usize, incremental)).await {
                            Ok(Ok(m2)) => slot.m2 = Some(m2),
                            Ok(Err(e)) => fail!(sig_for::<K>(case, slot, "mom-setup"), "{}: {e}", describe(&slot.sp, slot.idx, slot.after_done)),
                            Err(()) => fail!(sig_for::<K>(case, slot, "mom-setup"), "{}: second-level subscription timed out", describe(&slot.sp, slot.idx, slot.after_done)),
                        }
                        if let Err(e) = settle(&net.links, max_delay).await {
                            fail!("no-quiescence", "{e}");
                            return res;
                        }
                    }
                }
            }
            // Compare.
            for slot in slots.iter() {
                let d = describe(&slot.sp, slot.idx, slot.after_done);
                for (level, m) in [(1, slot.m1.as_ref()), (2, slot.m2.as_ref())] {
                    let Some(m) = m else { continue };
                    let pre = if level == 2 { "mom-" } else { "" };
                    match sim::within(BIG, K::view(m)).await {
                        Err(()) => fail!(format!("{pre}mirror-borrow-hangs"), "{d}: borrow() of the level-{level} mirror does not return"),
                        Ok(Err(e)) => fail!(sig_for::<K>(case, slot, &format!("{pre}mirror-error")), "{d}: level-{level} mirror reports {e} at quiescence before step {step}; observable holds {expected:?}"),
                        Ok(Ok(v)) => {
                            if v.snap != expected {
                                fail!(sig_for::<K>(case, slot, &format!("{pre}mirror-differs")), "{d}: at quiescence before step {step} the level-{level} mirror holds {:?} (complete={}, done={}) but the observable holds {expected:?}", v.snap, v.complete, v.done);
                            } else if !v.complete {
                                fail!(sig_for::<K>(case, slot, &format!("{pre}mirror-incomplete")), "{d}: level-{level} mirror is not complete at quiescence before step {step}");
                            } else if v.done != done_called {
                                fail!(sig_for::<K>(case, slot, &format!("{pre}mirror-done-flag")), "{d}: level-{level} mirror reports is_done()={} but done() was {}called", v.done, if done_called { "" } else { "not " });
                            }
                        }
                    }
                }
                if let Some(h) = &slot.hand {
                    let g = h.lock().unwrap().clone();
                    let cn = format!("{} pending recv() futures were dropped and re-issued, {} of them while the initial value was loading", g.cancels, g.cancels_initial);
                    if let Some(e) = &g.error {
                        let sig = if e.starts_with("initial value:") { "hand-initial-value" } else { "hand-error" };
                        fail!(sig_for::<K>(case, slot, sig), "{d}: {e}; folded so far {:?}, observable holds {expected:?}; {cn}", g.snap);
                    } else if g.snap.as_ref() != Some(&expected) {
                        fail!(sig_for::<K>(case, slot, "hand-differs"), "{d}: at quiescence before step {step} folding {} events by hand gives {:?} but the observable holds {expected:?}; {cn}", g.events, g.snap);
                    } else if g.complete != 1 {
                        fail!(sig_for::<K>(case, slot, "hand-incomplete"), "{d}: the initial value was reported complete {} times at quiescence; {cn}", g.complete);
                    } else if (g.done_seen > 0) != done_called || g.done_seen > 1 {
                        fail!(sig_for::<K>(case, slot, "hand-done-flag"), "{d}: Done event seen {} times but done() was {}called", g.done_seen, if done_called { "" } else { "not " });
                    } else if g.flags.0 != true || g.flags.1 != done_called {
                        fail!(sig_for::<K>(case, slot, "hand-done-flag"), "{d}: subscription reports is_complete()={} is_done()={} but done() was {}called", g.flags.0, g.flags.1, if done_called { "" } else { "not " });
                    }
                }
            }
            if res.fail.is_some() {
                break;
            }
        }
        if last {
            break;
        }
        if step < nops {
            tape_pause(&tape, true).await;
            let e = K::apply(&mut obs, &case.ops[step]);
            res.classes.push(format!("op:{}", e.label));
            if live_before_done {
                if e.ref_write || e.retain_removed {
                    nontrivial = true;
                }
                if e.pushed && initial_nonempty_sub && !K::MODES {
                    nontrivial = true;
                }
            }
        }
        step += 1;
    }

    // detach() gives the same contents.
    if res.fail.is_none() {
        if let Ok(expected) = sim::within(BIG, K::contents(&obs)).await {
            for slot in slots.iter_mut() {
                let d = describe(&slot.sp, slot.idx, slot.after_done);
                for (level, m) in [(2, slot.m2.take()), (1, slot.m1.take())] {
                    let Some(m) = m else { continue };
                    match sim::within(BIG, K::detach(m)).await {
                        Err(()) => fail!("detach-hangs", "{d}: detach() of the level-{level} mirror does not return"),
                        Ok(s) if s != expected => fail!(sig_for::<K>(case, slot, "detach-differs"), "{d}: detach() of the level-{level} mirror gives {s:?} but the observable holds {expected:?}"),
                        Ok(_) => {}
                    }
                }
            }
        }
    }
    // Hand consumers: what the generated cancellation really did.
    for slot in slots.iter() {
        let Some(h) = &slot.hand else { continue };
        let g = h.lock().unwrap().clone();
        if g.cancels > 0 {
            res.classes.push("hand:recv-cancelled".into());
            res.classes.push(format!("hand:recv-cancelled:{}", if slot.sp.hops > 0 { "remote" } else { "local" }));
            if g.cancels_initial > 0 {
                res.classes.push("hand:recv-cancelled:while-loading-initial".into());
            }
            if g.cancels >= 4 {
                res.classes.push("hand:recv-cancelled:4-or-more-times".into());
            }
            if g.events_after_cancel > 0 {
                res.classes.push("hand:recv-cancelled:then-event".into());
                nontrivial = true;
            }
        } else if case.hand_cancel.iter().any(|b| *b > 0) {
            res.classes.push("hand:recv-never-pending-long-enough".into());
        }
    }
    res.frames = net.links.iter().map(|l| l.tap_len() as u64 / 2).sum();
    res.nontrivial = nontrivial;
    drop(slots);
    drop(net);
    res
}

/// Signature of a failure: a confirmed finding whose trigger is present in the case gets its own
/// name, everything else the generic one.
fn sig_for<K: Kind>(case: &Case<K::Op>, slot: &Slot<K>, generic: &str) -> String {
    if K::MODES && ((slot.after_done && slot.sp.incremental) || (slot.m2_after_done && matches!(slot.sp.consumer, ConsumerKind::MirrorOfMirror { incremental: true, .. }))) {
        return "incremental-after-done".into();
    }
    if let ConsumerKind::MirrorOfMirror { hops, late: false, .. } = slot.sp.consumer {
        if hops > 0 && slot.sp.incremental && generic.starts_with("mom-") {
            return "remote-subscriber-of-loading-mirror".into();
        }
    }
    if let Some(t) = K::known_trigger(&case.ops) {
        return t.into();
    }
    generic.into()
}

pub fn run_case<K: Kind>(case: &Case<K::Op>) -> Outcome {
    let tape = case.sched.tape();
    let res = sim::run_sim(case.sched.tokio_seed, &tape, case.sched.defer, execute::<K>(case));
    let mut out = Outcome::default();
    out.frames = res.frames;
    if let Some((s, m)) = res.fail {
        out.fail(s, m);
    }
    for c in res.classes {
        out.class(c);
    }
    out.class(format!("init:{}", match case.init.len() {
        0 => "empty",
        1..=6 => "small",
        _ => "over-128",
    }));
    out.class(if case.done { "done:yes" } else { "done:no" });
    if case.sched.defer > 0 {
        out.class("sched:deferral");
    }
    out.nontrivial = res.nontrivial;
    out
}

// ---------------------------------------------------------------------------------------------
// Shared op generators
// ---------------------------------------------------------------------------------------------

fn val() -> BoxedStrategy<u32> {
    (0u32..1000).boxed()
}

fn wmode() -> BoxedStrategy<W> {
    prop_oneof![1 => Just(W::Read), 1 => Just(W::Touch), 3 => val().prop_map(W::Set), 2 => (1u32..5).prop_map(W::Add)].boxed()
}

/// Bit i set = element at position / key i is selected.
fn mask() -> BoxedStrategy<u32> {
    prop_oneof![
        4 => any::<u32>(),
        1 => Just(u32::MAX),
        1 => Just(0u32),
        1 => (0u32..32).prop_map(|b| 1u32 << b),
        1 => (0u32..32).prop_map(|b| !(1u32 << b)),
        1 => (0u32..8).prop_map(|b| (1u32 << b) - 1),
    ]
    .boxed()
}

fn bit(mask: u32, i: usize) -> bool {
    (mask >> (i % 32)) & 1 == 1
}

fn idx(sel: u16, n: usize) -> usize {
    sel as usize % n
}

// ---------------------------------------------------------------------------------------------
// Vec
// ---------------------------------------------------------------------------------------------

#[derive(Clone, Debug, Serialize, Deserialize, PartialEq, Eq, Hash)]
pub enum VOp {
    Push(u32),
    Pop,
    Insert(u16, u32),
    Remove(u16),
    SwapRemove(u16),
    /// `oob`: index beyond the end (`None` is returned).
    GetMut { sel: u16, oob: bool, w: W },
    /// Writes to the positions (in iteration order) selected by `mask`; `back`: iterate with
    /// `next_back`; `hold`: collect all references first and drop them in reverse order.
    IterMut { mask: u32, w: W, back: bool, hold: bool },
    Fill(u32),
    /// new length = sel % (len + 6)
    Resize(u16, u32),
    /// new length = sel % (len + 3)
    Truncate(u16),
    Clear,
    /// Keeps the positions selected by `mask`.
    Retain(u32),
    ShrinkToFit,
    Extend(Vec<u32>),
}

pub struct KVec;

impl Kind for KVec {
    const NAME: &'static str = "vec";
    const MODES: bool = true;
    const RESUB: bool = true;
    type Op = VOp;
    type Obs = robs::vec::ObservableVec<u32>;
    type Snap = Vec<u32>;
    type Sub = robs::vec::VecSubscription<u32>;
    type Mir = robs::vec::MirroredVec<u32>;
    type Event = robs::vec::VecEvent<u32>;
    type Fold = Vec<u32>;

    fn op_strategy() -> BoxedStrategy<VOp> {
        prop_oneof![
            4 => val().prop_map(VOp::Push),
            2 => Just(VOp::Pop),
            3 => (any::<u16>(), val()).prop_map(|(s, v)| VOp::Insert(s, v)),
            2 => any::<u16>().prop_map(VOp::Remove),
            2 => any::<u16>().prop_map(VOp::SwapRemove),
            4 => (any::<u16>(), prop_oneof![5 => Just(false), 1 => Just(true)], wmode()).prop_map(|(sel, oob, w)| VOp::GetMut { sel, oob, w }),
            3 => (mask(), wmode(), any::<bool>(), any::<bool>()).prop_map(|(mask, w, back, hold)| VOp::IterMut { mask, w, back, hold }),
            1 => val().prop_map(VOp::Fill),
            2 => (any::<u16>(), val()).prop_map(|(s, v)| VOp::Resize(s, v)),
            2 => any::<u16>().prop_map(VOp::Truncate),
            1 => Just(VOp::Clear),
            3 => mask().prop_map(VOp::Retain),
            1 => Just(VOp::ShrinkToFit),
            2 => proptest::collection::vec(val(), 0..5).prop_map(VOp::Extend),
        ]
        .boxed()
    }

    fn new(init: &[u32]) -> Self::Obs {
        robs::vec::ObservableVec::from(init.to_vec())
    }

    fn apply(obs: &mut Self::Obs, op: &VOp) -> Effect {
        let len = obs.len();
        match op {
            VOp::Push(v) => {
                obs.push(*v);
                eff("push")
            }
            VOp::Pop => {
                if obs.pop().is_some() {
                    eff("pop")
                } else {
                    eff("pop:empty")
                }
            }
            VOp::Insert(s, v) => {
                obs.insert(idx(*s, len + 1), *v);
                eff("insert")
            }
            VOp::Remove(s) => {
                if len == 0 {
                    return eff("remove:skipped-empty");
                }
                obs.remove(idx(*s, len));
                eff("remove")
            }
            VOp::SwapRemove(s) => {
                if len == 0 {
                    return eff("swap_remove:skipped-empty");
                }
                obs.swap_remove(idx(*s, len));
                eff("swap_remove")
            }
            VOp::GetMut { sel, oob, w } => {
                let i = if *oob || len == 0 { len + (*sel as usize % 3) } else { idx(*sel, len) };
                match obs.get_mut(i) {
                    None => eff("get_mut:none"),
                    Some(mut r) => {
                        w.on_u32(&mut r);
                        Effect { ref_write: w.writes(), ..eff(if w.writes() { "get_mut:write" } else { "get_mut:no-write" }) }
                    }
                }
            }
            VOp::IterMut { mask, w, back, hold } => {
                let mut it = obs.iter_mut();
                let mut held = Vec::new();
                let mut j = 0;
                let mut wrote = false;
                loop {
                    let nx = if *back { it.next_back() } else { it.next() };
                    let Some(mut r) = nx else { break };
                    if bit(*mask, j) {
                        w.on_u32(&mut r);
                        wrote |= w.writes();
                    }
                    j += 1;
                    if *hold {
                        held.push(r);
                    }
                }
                while let Some(r) = held.pop() {
                    drop(r);
                }
                Effect { ref_write: wrote, ..eff(if wrote { "iter_mut:write" } else { "iter_mut:no-write" }) }
            }
            VOp::Fill(v) => {
                obs.fill(*v);
                eff("fill")
            }
            VOp::Resize(s, v) => {
                let n = *s as usize % (len + 6);
                obs.resize(n, *v);
                eff(if n > len {
                    "resize:grow"
                } else if n < len {
                    "resize:shrink"
                } else {
                    "resize:same"
                })
            }
            VOp::Truncate(s) => {
                let n = *s as usize % (len + 3);
                obs.truncate(n);
                eff(if n < len { "truncate" } else { "truncate:no-op" })
            }
            VOp::Clear => {
                obs.clear();
                eff(if len > 0 { "clear" } else { "clear:empty" })
            }
            VOp::Retain(m) => {
                let mut j = 0;
                obs.retain(|_| {
                    let k = bit(*m, j);
                    j += 1;
                    k
                });
                let removed = obs.len() < len;
                Effect { retain_removed: removed, ..eff(if removed { "retain" } else { "retain:no-op" }) }
            }
            VOp::ShrinkToFit => {
                obs.shrink_to_fit();
                eff("shrink_to_fit")
            }
            VOp::Extend(vs) => {
                obs.extend(vs.iter().copied());
                eff("extend")
            }
        }
    }

    fn mark_done(obs: &mut Self::Obs) {
        obs.done()
    }

    async fn contents(obs: &Self::Obs) -> Vec<u32> {
        obs.iter().copied().collect()
    }

    fn subscribe(obs: &Self::Obs, incremental: bool) -> Self::Sub {
        if incremental {
            obs.subscribe_incremental(BUFFER)
        } else {
            obs.subscribe(BUFFER)
        }
    }

    fn mirror(sub: Self::Sub) -> Self::Mir {
        sub.mirror(MAX_SIZE)
    }

    async fn view(m: &Self::Mir) -> Result<View<Vec<u32>>, String> {
        match m.borrow().await {
            Ok(r) => Ok(View { snap: r.iter().copied().collect(), complete: r.is_complete(), done: r.is_done() }),
            Err(e) => Err(format!("{e:?}")),
        }
    }

    async fn changed(m: &mut Self::Mir) {
        m.changed().await
    }

    async fn detach(m: Self::Mir) -> Vec<u32> {
        m.detach().await
    }

    async fn resubscribe(m: &Self::Mir, incremental: bool) -> Result<Self::Sub, String> {
        if incremental { m.subscribe_incremental(BUFFER).await } else { m.subscribe(BUFFER).await }.map_err(|e| format!("{e:?}"))
    }

    fn take_initial(sub: &mut Self::Sub) -> Option<Vec<u32>> {
        sub.take_initial()
    }

    fn empty_fold() -> Vec<u32> {
        Vec::new()
    }

    async fn recv(sub: &mut Self::Sub) -> Result<Option<Self::Event>, String> {
        sub.recv().await.map_err(|e| format!("{e:?}"))
    }

    fn fold(f: &mut Vec<u32>, ev: Self::Event) -> Result<Mark, String> {
        use robs::vec::VecEvent as E;
        match ev {
            E::Push(v) => f.push(v),
            E::Pop => {
                f.pop();
            }
            E::Insert(i, v) => {
                if i > f.len() {
                    return Err(format!("Insert({i}) into {} elements", f.len()));
                }
                f.insert(i, v)
            }
            E::Set(i, v) => match f.get_mut(i) {
                Some(x) => *x = v,
                None => return Err(format!("Set({i}) with {} elements", f.len())),
            },
            E::Remove(i) => {
                if i >= f.len() {
                    return Err(format!("Remove({i}) with {} elements", f.len()));
                }
                f.remove(i);
            }
            E::SwapRemove(i) => {
                if i >= f.len() {
                    return Err(format!("SwapRemove({i}) with {} elements", f.len()));
                }
                let last = f.pop().unwrap();
                if i < f.len() {
                    f[i] = last;
                }
            }
            E::Fill(v) => f.iter_mut().for_each(|x| *x = v),
            E::Resize(n, v) => {
                while f.len() > n {
                    f.pop();
                }
                while f.len() < n {
                    f.push(v);
                }
            }
            E::Truncate(n) => {
                while f.len() > n {
                    f.pop();
                }
            }
            E::Retain(s) => *f = f.iter().enumerate().filter(|(i, _)| s.contains(i)).map(|(_, v)| *v).collect(),
            E::RetainNot(s) => *f = f.iter().enumerate().filter(|(i, _)| !s.contains(i)).map(|(_, v)| *v).collect(),
            E::Clear => f.clear(),
            E::ShrinkToFit => {}
            E::Done => return Ok(Mark::Done),
            E::InitialComplete => return Ok(Mark::Complete),
        }
        Ok(Mark::Change)
    }

    fn snap(f: &Vec<u32>) -> Vec<u32> {
        f.clone()
    }

    fn snap_len(s: &Vec<u32>) -> usize {
        s.len()
    }

    fn sub_flags(sub: &Self::Sub) -> (bool, bool) {
        (sub.is_complete(), sub.is_done())
    }
}

// ---------------------------------------------------------------------------------------------
// VecDeque
// ---------------------------------------------------------------------------------------------

#[derive(Clone, Debug, Serialize, Deserialize, PartialEq, Eq, Hash)]
pub enum DOp {
    PushBack(u32),
    PushFront(u32),
    PopBack,
    PopFront,
    Insert(u16, u32),
    /// `oob`: index beyond the end (`None` is returned, no event).
    Remove { sel: u16, oob: bool },
    SwapRemoveBack { sel: u16, oob: bool },
    SwapRemoveFront { sel: u16, oob: bool },
    GetMut { sel: u16, oob: bool, w: W },
    IterMut { mask: u32, w: W, back: bool, hold: bool },
    Resize(u16, u32),
    Truncate(u16),
    Clear,
    Retain(u32),
    ShrinkToFit,
    Extend(Vec<u32>),
}

pub struct KDeque;

impl Kind for KDeque {
    const NAME: &'static str = "vec_deque";
    const MODES: bool = true;
    const RESUB: bool = true;
    type Op = DOp;
    type Obs = robs::vec_deque::ObservableVecDeque<u32>;
    type Snap = Vec<u32>;
    type Sub = robs::vec_deque::VecDequeSubscription<u32>;
    type Mir = robs::vec_deque::MirroredVecDeque<u32>;
    type Event = robs::vec_deque::VecDequeEvent<u32>;
    type Fold = VecDeque<u32>;

    fn op_strategy() -> BoxedStrategy<DOp> {
        let oob = || prop_oneof![5 => Just(false), 1 => Just(true)];
        prop_oneof![
            3 => val().prop_map(DOp::PushBack),
            3 => val().prop_map(DOp::PushFront),
            1 => Just(DOp::PopBack),
            1 => Just(DOp::PopFront),
            3 => (any::<u16>(), val()).prop_map(|(s, v)| DOp::Insert(s, v)),
            2 => (any::<u16>(), oob()).prop_map(|(sel, oob)| DOp::Remove { sel, oob }),
            2 => (any::<u16>(), oob()).prop_map(|(sel, oob)| DOp::SwapRemoveBack { sel, oob }),
            2 => (any::<u16>(), oob()).prop_map(|(sel, oob)| DOp::SwapRemoveFront { sel, oob }),
            4 => (any::<u16>(), oob(), wmode()).prop_map(|(sel, oob, w)| DOp::GetMut { sel, oob, w }),
            3 => (mask(), wmode(), any::<bool>(), any::<bool>()).prop_map(|(mask, w, back, hold)| DOp::IterMut { mask, w, back, hold }),
            2 => (any::<u16>(), val()).prop_map(|(s, v)| DOp::Resize(s, v)),
            2 => any::<u16>().prop_map(DOp::Truncate),
            1 => Just(DOp::Clear),
            3 => mask().prop_map(DOp::Retain),
            1 => Just(DOp::ShrinkToFit),
            2 => proptest::collection::vec(val(), 0..5).prop_map(DOp::Extend),
        ]
        .boxed()
    }

    fn new(init: &[u32]) -> Self::Obs {
        // Rotate so that the ring buffer is not always contiguous from slot 0.
        let mut d: VecDeque<u32> = VecDeque::with_capacity(init.len() + 3);
        let half = init.len() / 2;
        for v in init[half..].iter() {
            d.push_back(*v);
        }
        for v in init[..half].iter().rev() {
            d.push_front(*v);
        }
        robs::vec_deque::ObservableVecDeque::from(d)
    }

    fn apply(obs: &mut Self::Obs, op: &DOp) -> Effect {
        let len = obs.len();
        let pick = |sel: u16, oob: bool| if oob || len == 0 { len + (sel as usize % 3) } else { idx(sel, len) };
        match op {
            DOp::PushBack(v) => {
                obs.push_back(*v);
                eff("push_back")
            }
            DOp::PushFront(v) => {
                obs.push_front(*v);
                eff("push_front")
            }
            DOp::PopBack => {
                if obs.pop_back().is_some() {
                    eff("pop_back")
                } else {
                    eff("pop_back:empty")
                }
            }
            DOp::PopFront => {
                if obs.pop_front().is_some() {
                    eff("pop_front")
                } else {
                    eff("pop_front:empty")
                }
            }
            DOp::Insert(s, v) => {
                obs.insert(idx(*s, len + 1), *v);
                eff("insert")
            }
            DOp::Remove { sel, oob } => {
                if obs.remove(pick(*sel, *oob)).is_some() {
                    eff("remove")
                } else {
                    eff("remove:none")
                }
            }
            DOp::SwapRemoveBack { sel, oob } => {
                if obs.swap_remove_back(pick(*sel, *oob)).is_some() {
                    eff("swap_remove_back")
                } else {
                    eff("swap_remove_back:none")
                }
            }
            DOp::SwapRemoveFront { sel, oob } => {
                if obs.swap_remove_front(pick(*sel, *oob)).is_some() {
                    eff("swap_remove_front")
                } else {
                    eff("swap_remove_front:none")
                }
            }
            DOp::GetMut { sel, oob, w } => match obs.get_mut(pick(*sel, *oob)) {
                None => eff("get_mut:none"),
                Some(mut r) => {
                    w.on_u32(&mut r);
                    Effect { ref_write: w.writes(), ..eff(if w.writes() { "get_mut:write" } else { "get_mut:no-write" }) }
                }
            },
            DOp::IterMut { mask, w, back, hold } => {
                let mut it = obs.iter_mut();
                let mut held = Vec::new();
                let mut j = 0;
                let mut wrote = false;
                loop {
                    let nx = if *back { it.next_back() } else { it.next() };
                    let Some(mut r) = nx else { break };
                    if bit(*mask, j) {
                        w.on_u32(&mut r);
                        wrote |= w.writes();
                    }
                    j += 1;
                    if *hold {
                        held.push(r);
                    }
                }
                while let Some(r) = held.pop() {
                    drop(r);
                }
                Effect { ref_write: wrote, ..eff(if wrote { "iter_mut:write" } else { "iter_mut:no-write" }) }
            }
            DOp::Resize(s, v) => {
                let n = *s as usize % (len + 6);
                obs.resize(n, *v);
                eff(if n > len {
                    "resize:grow"
                } else if n < len {
                    "resize:shrink"
                } else {
                    "resize:same"
                })
            }
            DOp::Truncate(s) => {
                let n = *s as usize % (len + 3);
                obs.truncate(n);
                eff(if n < len { "truncate" } else { "truncate:no-op" })
            }
            DOp::Clear => {
                obs.clear();
                eff(if len > 0 { "clear" } else { "clear:empty" })
            }
            DOp::Retain(m) => {
                let mut j = 0;
                obs.retain(|_| {
                    let k = bit(*m, j);
                    j += 1;
                    k
                });
                let removed = obs.len() < len;
                Effect { retain_removed: removed, ..eff(if removed { "retain" } else { "retain:no-op" }) }
            }
            DOp::ShrinkToFit => {
                obs.shrink_to_fit();
                eff("shrink_to_fit")
            }
            DOp::Extend(vs) => {
                obs.extend(vs.iter().copied());
                eff("extend")
            }
        }
    }

    fn mark_done(obs: &mut Self::Obs) {
        obs.done()
    }

    async fn contents(obs: &Self::Obs) -> Vec<u32> {
        obs.iter().copied().collect()
    }

    fn subscribe(obs: &Self::Obs, incremental: bool) -> Self::Sub {
        if incremental {
            obs.subscribe_incremental(BUFFER)
        } else {
            obs.subscribe(BUFFER)
        }
    }

    fn mirror(sub: Self::Sub) -> Self::Mir {
        sub.mirror(MAX_SIZE)
    }

    async fn view(m: &Self::Mir) -> Result<View<Vec<u32>>, String> {
        match m.borrow().await {
            Ok(r) => Ok(View { snap: r.iter().copied().collect(), complete: r.is_complete(), done: r.is_done() }),
            Err(e) => Err(format!("{e:?}")),
        }
    }

    async fn changed(m: &mut Self::Mir) {
        m.changed().await
    }

    async fn detach(m: Self::Mir) -> Vec<u32> {
        m.detach().await.into_iter().collect()
    }

    async fn resubscribe(m: &Self::Mir, incremental: bool) -> Result<Self::Sub, String> {
        if incremental { m.subscribe_incremental(BUFFER).await } else { m.subscribe(BUFFER).await }.map_err(|e| format!("{e:?}"))
    }

    fn take_initial(sub: &mut Self::Sub) -> Option<VecDeque<u32>> {
        sub.take_initial()
    }

    fn empty_fold() -> VecDeque<u32> {
        VecDeque::new()
    }

    async fn recv(sub: &mut Self::Sub) -> Result<Option<Self::Event>, String> {
        sub.recv().await.map_err(|e| format!("{e:?}"))
    }

    fn fold(f: &mut VecDeque<u32>, ev: Self::Event) -> Result<Mark, String> {
        use robs::vec_deque::VecDequeEvent as E;
        match ev {
            E::PushBack(v) => f.push_back(v),
            E::PushFront(v) => f.push_front(v),
            E::PopBack => {
                f.pop_back();
            }
            E::PopFront => {
                f.pop_front();
            }
            E::Insert(i, v) => {
                if i > f.len() {
                    return Err(format!("Insert({i}) into {} elements", f.len()));
                }
                f.insert(i, v)
            }
            E::Set(i, v) => match f.get_mut(i) {
                Some(x) => *x = v,
                None => return Err(format!("Set({i}) with {} elements", f.len())),
            },
            E::Remove(i) => {
                if i >= f.len() {
                    return Err(format!("Remove({i}) with {} elements", f.len()));
                }
                f.remove(i);
            }
            E::SwapRemoveBack(i) => {
                // "The specified element was removed and replaced by the last element."
                if i >= f.len() {
                    return Err(format!("SwapRemoveBack({i}) with {} elements", f.len()));
                }
                let last = f.pop_back().unwrap();
                if i < f.len() {
                    f[i] = last;
                }
            }
            E::SwapRemoveFront(i) => {
                // "The specified element was removed and replaced by the first element."
                if i >= f.len() {
                    return Err(format!("SwapRemoveFront({i}) with {} elements", f.len()));
                }
                let first = f.pop_front().unwrap();
                if i > 0 {
                    f[i - 1] = first;
                }
            }
            E::Resize(n, v) => {
                while f.len() > n {
                    f.pop_back();
                }
                while f.len() < n {
                    f.push_back(v);
                }
            }
            E::Truncate(n) => {
                while f.len() > n {
                    f.pop_back();
                }
            }
            E::Retain(s) => *f = f.iter().enumerate().filter(|(i, _)| s.contains(i)).map(|(_, v)| *v).collect(),
            E::RetainNot(s) => *f = f.iter().enumerate().filter(|(i, _)| !s.contains(i)).map(|(_, v)| *v).collect(),
            E::Clear => f.clear(),
            E::ShrinkToFit => {}
            E::Done => return Ok(Mark::Done),
            E::InitialComplete => return Ok(Mark::Complete),
        }
        Ok(Mark::Change)
    }

    fn snap(f: &VecDeque<u32>) -> Vec<u32> {
        f.iter().copied().collect()
    }

    fn snap_len(s: &Vec<u32>) -> usize {
        s.len()
    }

    fn sub_flags(sub: &Self::Sub) -> (bool, bool) {
        (sub.is_complete(), sub.is_done())
    }
}

// ---------------------------------------------------------------------------------------------
// HashMap
// ---------------------------------------------------------------------------------------------

#[derive(Clone, Debug, Serialize, Deserialize, PartialEq, Eq, Hash)]
pub enum OccAct {
    RemoveEntry,
    Remove,
    Insert(Val),
    GetMut(W),
    IntoMut(W),
    Get,
}

#[derive(Clone, Debug, Serialize, Deserialize, PartialEq, Eq, Hash)]
pub enum VacAct {
    Insert(Val, W),
    IntoKey,
    Key,
}

#[derive(Clone, Debug, Serialize, Deserialize, PartialEq, Eq, Hash)]
pub enum EAct {
    OrInsert(Val, W),
    OrInsertWith(Val, W),
    OrInsertWithKey(W),
    OrDefault(W),
    /// `and_modify(add d)`, then `or_insert(v)` if given, otherwise only `key()`.
    AndModify { d: u32, then: Option<Val> },
    Match { occ: OccAct, vac: VacAct },
}

#[derive(Clone, Debug, Serialize, Deserialize, PartialEq, Eq, Hash)]
pub enum MOp {
    Insert(u8, Val),
    Remove(u8),
    Clear,
    /// Keeps the keys selected by `mask`; `mutate`: the predicate also adds to every value it sees.
    Retain { mask: u32, mutate: Option<u32> },
    GetMut { k: u8, w: W },
    /// Writes to the values whose keys are selected by `mask`.
    IterMut { mask: u32, w: W },
    Entry { k: u8, act: EAct },
    ShrinkToFit,
    Extend(Vec<(u8, Val)>),
}

fn key() -> BoxedStrategy<u8> {
    prop_oneof![4 => 0u8..8, 1 => 0u8..40].boxed()
}

fn mval() -> BoxedStrategy<Val> {
    (0u32..1000, 0u8..4).prop_map(|(a, b)| Val { a, b }).boxed()
}

pub struct KMap;

impl Kind for KMap {
    const NAME: &'static str = "hash_map";
    const MODES: bool = true;
    const RESUB: bool = true;
    type Op = MOp;
    type Obs = robs::hash_map::ObservableHashMap<u8, Val>;
    type Snap = BTreeMap<u8, Val>;
    type Sub = robs::hash_map::HashMapSubscription<u8, Val>;
    type Mir = robs::hash_map::MirroredHashMap<u8, Val>;
    type Event = robs::hash_map::HashMapEvent<u8, Val>;
    type Fold = BTreeMap<u8, Val>;

    fn op_strategy() -> BoxedStrategy<MOp> {
        let occ = prop_oneof![
            Just(OccAct::RemoveEntry),
            Just(OccAct::Remove),
            mval().prop_map(OccAct::Insert),
            wmode().prop_map(OccAct::GetMut),
            wmode().prop_map(OccAct::IntoMut),
            Just(OccAct::Get),
        ];
        let vac = prop_oneof![3 => (mval(), wmode()).prop_map(|(v, w)| VacAct::Insert(v, w)), 1 => Just(VacAct::IntoKey), 1 => Just(VacAct::Key)];
        let act = prop_oneof![
            2 => (mval(), wmode()).prop_map(|(v, w)| EAct::OrInsert(v, w)),
            1 => (mval(), wmode()).prop_map(|(v, w)| EAct::OrInsertWith(v, w)),
            1 => wmode().prop_map(EAct::OrInsertWithKey),
            1 => wmode().prop_map(EAct::OrDefault),
            2 => (1u32..5, proptest::option::of(mval())).prop_map(|(d, then)| EAct::AndModify { d, then }),
            4 => (occ, vac).prop_map(|(occ, vac)| EAct::Match { occ, vac }),
        ];
        let mutate = if EXCLUDE_HASH_MAP_RETAIN_MUTATION { Just(None).boxed() } else { prop_oneof![2 => Just(None), 1 => (1u32..5).prop_map(Some)].boxed() };
        prop_oneof![
            5 => (key(), mval()).prop_map(|(k, v)| MOp::Insert(k, v)),
            3 => key().prop_map(MOp::Remove),
            1 => Just(MOp::Clear),
            3 => (mask(), mutate).prop_map(|(mask, mutate)| MOp::Retain { mask, mutate }),
            4 => (key(), wmode()).prop_map(|(k, w)| MOp::GetMut { k, w }),
            3 => (mask(), wmode()).prop_map(|(mask, w)| MOp::IterMut { mask, w }),
            8 => (key(), act).prop_map(|(k, act)| MOp::Entry { k, act }),
            1 => Just(MOp::ShrinkToFit),
            2 => proptest::collection::vec((key(), mval()), 0..5).prop_map(MOp::Extend),
        ]
        .boxed()
    }

    fn new(init: &[u32]) -> Self::Obs {
        let hm: HashMap<u8, Val> = init.iter().enumerate().map(|(i, x)| ((if init.len() > 8 { i } else { *x as usize % 8 }) as u8, Val { a: *x, b: 0 })).collect();
        robs::hash_map::ObservableHashMap::from(hm)
    }

    fn apply(obs: &mut Self::Obs, op: &MOp) -> Effect {
        use robs::hash_map::Entry;
        let len = obs.len();
        match op {
            MOp::Insert(k, v) => {
                if obs.insert(*k, v.clone()).is_some() {
                    eff("insert:replace")
                } else {
                    eff("insert:new")
                }
            }
            MOp::Remove(k) => {
                if obs.remove(k).is_some() {
                    eff("remove")
                } else {
                    eff("remove:absent")
                }
            }
            MOp::Clear => {
                obs.clear();
                eff(if len > 0 { "clear" } else { "clear:empty" })
            }
            MOp::Retain { mask, mutate } => {
                obs.retain(|k, v| {
                    if let Some(d) = mutate {
                        v.a = v.a.wrapping_add(*d);
                    }
                    bit(*mask, *k as usize)
                });
                let removed = obs.len() < len;
                Effect { retain_removed: removed, ..eff(if mutate.is_some() { "retain:mutating" } else if removed { "retain" } else { "retain:no-op" }) }
            }
            MOp::GetMut { k, w } => match obs.get_mut(k) {
                None => eff("get_mut:none"),
                Some(mut r) => {
                    w.on_val(&mut r);
                    Effect { ref_write: w.writes(), ..eff(if w.writes() { "get_mut:write" } else { "get_mut:no-write" }) }
                }
            },
            MOp::IterMut { mask, w } => {
                let mut wrote = false;
                for mut r in obs.iter_mut() {
                    // The key is not exposed by the reference; select by the value's own field.
                    let sel = r.a as usize;
                    if bit(*mask, sel) {
                        w.on_val(&mut r);
                        wrote |= w.writes();
                    }
                }
                Effect { ref_write: wrote, ..eff(if wrote { "iter_mut:write" } else { "iter_mut:no-write" }) }
            }
            MOp::Entry { k, act } => {
                let present = obs.contains_key(k);
                let e = obs.entry(*k);
                match act {
                    EAct::OrInsert(v, w) => {
                        let mut r = e.or_insert(v.clone());
                        w.on_val(&mut r);
                        Effect { ref_write: w.writes(), ..eff(if present { "entry:or_insert:occupied" } else { "entry:or_insert:vacant" }) }
                    }
                    EAct::OrInsertWith(v, w) => {
                        let vv = v.clone();
                        let mut r = e.or_insert_with(move || vv);
                        w.on_val(&mut r);
                        Effect { ref_write: w.writes(), ..eff(if present { "entry:or_insert_with:occupied" } else { "entry:or_insert_with:vacant" }) }
                    }
                    EAct::OrInsertWithKey(w) => {
                        let mut r = e.or_insert_with_key(|k| Val { a: *k as u32 * 7 + 1, b: 1 });
                        w.on_val(&mut r);
                        Effect { ref_write: w.writes(), ..eff(if present { "entry:or_insert_with_key:occupied" } else { "entry:or_insert_with_key:vacant" }) }
                    }
                    EAct::OrDefault(w) => {
                        let mut r = e.or_default();
                        w.on_val(&mut r);
                        Effect { ref_write: w.writes(), ..eff(if present { "entry:or_default:occupied" } else { "entry:or_default:vacant" }) }
                    }
                    EAct::AndModify { d, then } => {
                        let e = e.and_modify(|v| {
                            v.a = v.a.wrapping_add(*d);
                            v.b = v.b.wrapping_add(1);
                        });
                        match then {
                            Some(v) => {
                                let _r = e.or_insert(v.clone());
                            }
                            None => {
                                let _k = *e.key();
                            }
                        }
                        Effect { ref_write: present, ..eff(if present { "entry:and_modify:occupied" } else { "entry:and_modify:vacant" }) }
                    }
                    EAct::Match { occ, vac } => match e {
                        Entry::Occupied(mut o) => match occ {
                            OccAct::RemoveEntry => {
                                let _ = o.remove_entry();
                                eff("entry:occupied:remove_entry")
                            }
                            OccAct::Remove => {
                                let _ = o.remove();
                                eff("entry:occupied:remove")
                            }
                            OccAct::Insert(v) => {
                                let _ = o.insert(v.clone());
                                Effect { ref_write: true, ..eff("entry:occupied:insert") }
                            }
                            OccAct::GetMut(w) => {
                                let mut r = o.get_mut();
                                w.on_val(&mut r);
                                Effect { ref_write: w.writes(), ..eff("entry:occupied:get_mut") }
                            }
                            OccAct::IntoMut(w) => {
                                let mut r = o.into_mut();
                                w.on_val(&mut r);
                                Effect { ref_write: w.writes(), ..eff("entry:occupied:into_mut") }
                            }
                            OccAct::Get => {
                                let _ = o.get();
                                let _ = o.key();
                                eff("entry:occupied:get")
                            }
                        },
                        Entry::Vacant(v) => match vac {
                            VacAct::Insert(val, w) => {
                                let mut r = v.insert(val.clone());
                                w.on_val(&mut r);
                                Effect { ref_write: true, ..eff("entry:vacant:insert") }
                            }
                            VacAct::IntoKey => {
                                let _ = v.into_key();
                                eff("entry:vacant:into_key")
                            }
                            VacAct::Key => {
                                let _ = v.key();
                                eff("entry:vacant:key")
                            }
                        },
                    },
                }
            }
            MOp::ShrinkToFit => {
                obs.shrink_to_fit();
                eff("shrink_to_fit")
            }
            MOp::Extend(kv) => {
                obs.extend(kv.iter().cloned());
                eff("extend")
            }
        }
    }

    fn mark_done(obs: &mut Self::Obs) {
        obs.done()
    }

    async fn contents(obs: &Self::Obs) -> BTreeMap<u8, Val> {
        obs.iter().map(|(k, v)| (*k, v.clone())).collect()
    }

    fn subscribe(obs: &Self::Obs, incremental: bool) -> Self::Sub {
        if incremental {
            obs.subscribe_incremental(BUFFER)
        } else {
            obs.subscribe(BUFFER)
        }
    }

    fn mirror(sub: Self::Sub) -> Self::Mir {
        sub.mirror(MAX_SIZE)
    }

    async fn view(m: &Self::Mir) -> Result<View<Self::Snap>, String> {
        match m.borrow().await {
            Ok(r) => Ok(View { snap: r.iter().map(|(k, v)| (*k, v.clone())).collect(), complete: r.is_complete(), done: r.is_done() }),
            Err(e) => Err(format!("{e:?}")),
        }
    }

    async fn changed(m: &mut Self::Mir) {
        m.changed().await
    }

    async fn detach(m: Self::Mir) -> Self::Snap {
        m.detach().await.into_iter().collect()
    }

    async fn resubscribe(m: &Self::Mir, incremental: bool) -> Result<Self::Sub, String> {
        if incremental { m.subscribe_incremental(BUFFER).await } else { m.subscribe(BUFFER).await }.map_err(|e| format!("{e:?}"))
    }

    fn take_initial(sub: &mut Self::Sub) -> Option<Self::Fold> {
        sub.take_initial().map(|hm| hm.into_iter().collect())
    }

    fn empty_fold() -> Self::Fold {
        BTreeMap::new()
    }

    async fn recv(sub: &mut Self::Sub) -> Result<Option<Self::Event>, String> {
        sub.recv().await.map_err(|e| format!("{e:?}"))
    }

    fn fold(f: &mut Self::Fold, ev: Self::Event) -> Result<Mark, String> {
        use robs::hash_map::HashMapEvent as E;
        match ev {
            E::Set(k, v) => {
                f.insert(k, v);
            }
            E::Remove(k) => {
                f.remove(&k);
            }
            E::Clear => f.clear(),
            E::ShrinkToFit => {}
            E::Done => return Ok(Mark::Done),
            E::InitialComplete => return Ok(Mark::Complete),
        }
        Ok(Mark::Change)
    }

    fn snap(f: &Self::Fold) -> Self::Snap {
        f.clone()
    }

    fn snap_len(s: &Self::Snap) -> usize {
        s.len()
    }

    fn sub_flags(sub: &Self::Sub) -> (bool, bool) {
        (sub.is_complete(), sub.is_done())
    }

    fn known_trigger(ops: &[MOp]) -> Option<&'static str> {
        ops.iter().any(|o| matches!(o, MOp::Retain { mutate: Some(_), .. })).then_some("retain-mutation")
    }
}

// ---------------------------------------------------------------------------------------------
// HashSet
// ---------------------------------------------------------------------------------------------

#[derive(Clone, Debug, Serialize, Deserialize, PartialEq, Eq, Hash)]
pub enum SOp {
    Insert { key: u8, tag: u8 },
    Replace { key: u8, tag: u8 },
    Remove(u8),
    Take(u8),
    Clear,
    /// Keeps the keys selected by `mask`.
    Retain(u32),
    ShrinkToFit,
    Extend(Vec<(u8, u8)>),
}

fn tag() -> BoxedStrategy<u8> {
    if EXCLUDE_HASH_SET_PARTIAL_EQ {
        Just(0u8).boxed()
    } else {
        prop_oneof![2 => Just(0u8), 1 => 0u8..4].boxed()
    }
}

pub struct KSet;

impl Kind for KSet {
    const NAME: &'static str = "hash_set";
    const MODES: bool = true;
    const RESUB: bool = true;
    type Op = SOp;
    type Obs = robs::hash_set::ObservableHashSet<El>;
    type Snap = Vec<(u8, u8)>;
    type Sub = robs::hash_set::HashSetSubscription<El>;
    type Mir = robs::hash_set::MirroredHashSet<El>;
    type Event = robs::hash_set::HashSetEvent<El>;
    type Fold = BTreeMap<u8, u8>;

    fn op_strategy() -> BoxedStrategy<SOp> {
        prop_oneof![
            6 => (key(), tag()).prop_map(|(key, tag)| SOp::Insert { key, tag }),
            4 => (key(), tag()).prop_map(|(key, tag)| SOp::Replace { key, tag }),
            3 => key().prop_map(SOp::Remove),
            3 => key().prop_map(SOp::Take),
            1 => Just(SOp::Clear),
            3 => mask().prop_map(SOp::Retain),
            1 => Just(SOp::ShrinkToFit),
            2 => proptest::collection::vec((key(), tag()), 0..5).prop_map(SOp::Extend),
        ]
        .boxed()
    }

    fn new(init: &[u32]) -> Self::Obs {
        let hs: HashSet<El> = init.iter().enumerate().map(|(i, x)| El { key: (if init.len() > 8 { i } else { *x as usize % 8 }) as u8, tag: 0 }).collect();
        robs::hash_set::ObservableHashSet::from(hs)
    }

    fn apply(obs: &mut Self::Obs, op: &SOp) -> Effect {
        let len = obs.len();
        match op {
            SOp::Insert { key, tag } => {
                if obs.insert(El { key: *key, tag: *tag }) {
                    eff("insert:new")
                } else {
                    eff("insert:present")
                }
            }
            SOp::Replace { key, tag } => {
                if obs.replace(El { key: *key, tag: *tag }).is_some() {
                    eff("replace:present")
                } else {
                    eff("replace:new")
                }
            }
            SOp::Remove(k) => {
                if obs.remove(&El { key: *k, tag: 9 }) {
                    eff("remove")
                } else {
                    eff("remove:absent")
                }
            }
            SOp::Take(k) => {
                if obs.take(&El { key: *k, tag: 9 }).is_some() {
                    eff("take")
                } else {
                    eff("take:absent")
                }
            }
            SOp::Clear => {
                obs.clear();
                eff(if len > 0 { "clear" } else { "clear:empty" })
            }
            SOp::Retain(m) => {
                obs.retain(|e| bit(*m, e.key as usize));
                let removed = obs.len() < len;
                Effect { retain_removed: removed, ..eff(if removed { "retain" } else { "retain:no-op" }) }
            }
            SOp::ShrinkToFit => {
                obs.shrink_to_fit();
                eff("shrink_to_fit")
            }
            SOp::Extend(v) => {
                obs.extend(v.iter().map(|(key, tag)| El { key: *key, tag: *tag }));
                eff("extend")
            }
        }
    }

    fn mark_done(obs: &mut Self::Obs) {
        obs.done()
    }

    async fn contents(obs: &Self::Obs) -> Self::Snap {
        let s: BTreeSet<(u8, u8)> = obs.iter().map(|e| (e.key, e.tag)).collect();
        s.into_iter().collect()
    }

    fn subscribe(obs: &Self::Obs, incremental: bool) -> Self::Sub {
        if incremental {
            obs.subscribe_incremental(BUFFER)
        } else {
            obs.subscribe(BUFFER)
        }
    }

    fn mirror(sub: Self::Sub) -> Self::Mir {
        sub.mirror(MAX_SIZE)
    }

    async fn view(m: &Self::Mir) -> Result<View<Self::Snap>, String> {
        match m.borrow().await {
            Ok(r) => {
                let s: BTreeSet<(u8, u8)> = r.iter().map(|e| (e.key, e.tag)).collect();
                Ok(View { snap: s.into_iter().collect(), complete: r.is_complete(), done: r.is_done() })
            }
            Err(e) => Err(format!("{e:?}")),
        }
    }

    async fn changed(m: &mut Self::Mir) {
        m.changed().await
    }

    async fn detach(m: Self::Mir) -> Self::Snap {
        let s: BTreeSet<(u8, u8)> = m.detach().await.into_iter().map(|e| (e.key, e.tag)).collect();
        s.into_iter().collect()
    }

    async fn resubscribe(m: &Self::Mir, incremental: bool) -> Result<Self::Sub, String> {
        if incremental { m.subscribe_incremental(BUFFER).await } else { m.subscribe(BUFFER).await }.map_err(|e| format!("{e:?}"))
    }

    fn take_initial(sub: &mut Self::Sub) -> Option<Self::Fold> {
        sub.take_initial().map(|hs| hs.into_iter().map(|e| (e.key, e.tag)).collect())
    }

    fn empty_fold() -> Self::Fold {
        BTreeMap::new()
    }

    async fn recv(sub: &mut Self::Sub) -> Result<Option<Self::Event>, String> {
        sub.recv().await.map_err(|e| format!("{e:?}"))
    }

    fn fold(f: &mut Self::Fold, ev: Self::Event) -> Result<Mark, String> {
        use robs::hash_set::HashSetEvent as E;
        match ev {
            // "An item was inserted or modified."
            E::Set(e) => {
                f.insert(e.key, e.tag);
            }
            E::Remove(e) => {
                f.remove(&e.key);
            }
            E::Clear => f.clear(),
            E::ShrinkToFit => {}
            E::Done => return Ok(Mark::Done),
            E::InitialComplete => return Ok(Mark::Complete),
        }
        Ok(Mark::Change)
    }

    fn snap(f: &Self::Fold) -> Self::Snap {
        f.iter().map(|(k, t)| (*k, *t)).collect()
    }

    fn snap_len(s: &Self::Snap) -> usize {
        s.len()
    }

    fn sub_flags(sub: &Self::Sub) -> (bool, bool) {
        (sub.is_complete(), sub.is_done())
    }

    fn known_trigger(ops: &[SOp]) -> Option<&'static str> {
        ops.iter()
            .any(|o| match o {
                SOp::Insert { tag, .. } | SOp::Replace { tag, .. } => *tag != 0,
                SOp::Extend(v) => v.iter().any(|(_, t)| *t != 0),
                _ => false,
            })
            .then_some("replace-eq-partial")
    }
}

// ---------------------------------------------------------------------------------------------
// Append-only list
// ---------------------------------------------------------------------------------------------

#[derive(Clone, Debug, Serialize, Deserialize, PartialEq, Eq, Hash)]
pub enum LOp {
    Push(u32),
    Extend(Vec<u32>),
}

pub struct KList;

impl Kind for KList {
    const NAME: &'static str = "list";
    const MODES: bool = false;
    const RESUB: bool = false;
    type Op = LOp;
    type Obs = robs::list::ObservableList<u32>;
    type Snap = Vec<u32>;
    type Sub = robs::list::ListSubscription<u32>;
    type Mir = robs::list::MirroredList<u32>;
    type Event = robs::list::ListEvent<u32>;
    type Fold = Vec<u32>;

    fn op_strategy() -> BoxedStrategy<LOp> {
        prop_oneof![4 => val().prop_map(LOp::Push), 1 => proptest::collection::vec(val(), 0..6).prop_map(LOp::Extend)].boxed()
    }

    fn new(init: &[u32]) -> Self::Obs {
        robs::list::ObservableList::from(init.to_vec())
    }

    fn apply(obs: &mut Self::Obs, op: &LOp) -> Effect {
        match op {
            LOp::Push(v) => {
                obs.push(*v);
                Effect { pushed: true, ..eff("push") }
            }
            LOp::Extend(vs) => {
                obs.extend(vs.iter().copied());
                Effect { pushed: !vs.is_empty(), ..eff(if vs.is_empty() { "extend:empty" } else { "extend" }) }
            }
        }
    }

    fn mark_done(obs: &mut Self::Obs) {
        obs.done()
    }

    async fn contents(obs: &Self::Obs) -> Vec<u32> {
        obs.borrow().await.iter().copied().collect()
    }

    fn subscribe(obs: &Self::Obs, _incremental: bool) -> Self::Sub {
        obs.subscribe()
    }

    fn mirror(sub: Self::Sub) -> Self::Mir {
        sub.mirror(MAX_SIZE)
    }

    async fn view(m: &Self::Mir) -> Result<View<Vec<u32>>, String> {
        match m.borrow().await {
            Ok(r) => Ok(View { snap: r.iter().copied().collect(), complete: r.is_complete(), done: r.is_done() }),
            Err(e) => Err(format!("{e:?}")),
        }
    }

    async fn changed(m: &mut Self::Mir) {
        m.changed().await
    }

    async fn detach(m: Self::Mir) -> Vec<u32> {
        m.detach().await
    }

    async fn resubscribe(_m: &Self::Mir, _incremental: bool) -> Result<Self::Sub, String> {
        Err("a mirrored list cannot be subscribed to".into())
    }

    fn take_initial(_sub: &mut Self::Sub) -> Option<Vec<u32>> {
        None
    }

    fn empty_fold() -> Vec<u32> {
        Vec::new()
    }

    async fn recv(sub: &mut Self::Sub) -> Result<Option<Self::Event>, String> {
        sub.recv().await.map_err(|e| format!("{e:?}"))
    }

    fn fold(f: &mut Vec<u32>, ev: Self::Event) -> Result<Mark, String> {
        use robs::list::ListEvent as E;
        match ev {
            E::Push(v) => f.push(v),
            E::Done => return Ok(Mark::Done),
            E::InitialComplete => return Ok(Mark::Complete),
        }
        Ok(Mark::Change)
    }

    fn snap(f: &Vec<u32>) -> Vec<u32> {
        f.clone()
    }

    fn snap_len(s: &Vec<u32>) -> usize {
        s.len()
    }

    fn sub_flags(sub: &Self::Sub) -> (bool, bool) {
        (sub.is_complete(), sub.is_done())
    }
}

// ---------------------------------------------------------------------------------------------
// Entry points
// ---------------------------------------------------------------------------------------------

pub const RULE: &str = "parts vec / vec_deque / hash_map / hash_set / list: case = (initial contents, <= 40 ops over the collection's whole mutating API incl. get_mut / iter_mut / RefMut with and without writing, entry API with all combinators, retain, resize both ways, swap_remove(_back/_front), fill, truncate, extend, out-of-range Option-returning variants and no-op variants, optional done() (also twice), 1-3 subscription points inside the sequence or after done(), snapshot or incremental, consumer = mirror | hand-folded recv() stream (whose pending recv() futures are dropped after a generated number of polls, cyclic budget list 0..3, and re-issued) | mirror of a mirror, local or over 1-2 chmux connections with generated delivery schedule, 0-2 intermediate checkpoints + final one). Oracle: at every checkpoint, after a virtual-time quiescence barrier, every mirror's borrow() is Ok and equals the observable's own contents, is_complete(), is_done() <=> done() was called; the hand-folded event stream gives the same contents and flags, its take_initial() value / its folded value at InitialComplete equals the observable's contents at the subscription point; detach() at the end gives the same contents. non-trivial = while a subscription taken before done() exists, an op really wrote through a RefMut / IterMut / entry reference or a retain removed at least one element (list: an element was appended after a subscription whose initial part was non-empty), or a hand consumer's recv() future was dropped while pending (after >= 1 pending poll) and a re-issued recv() then delivered an event; distinct = distinct case hash";

fn part<K: Kind>(rep: &mut Report, tier: Tier, cases: u64) {
    let regress: Vec<Case<K::Op>> = runner::load_regress::<Case<K::Op>>("C13", K::NAME).into_iter().map(|(_, c)| c).collect();
    if !regress.is_empty() {
        runner::run_cases(rep, &format!("regress-{}", K::NAME), regress, run_case::<K>);
    }
    runner::run_generated(rep, K::NAME, cases, || strategy::<K>(tier), run_case::<K>);
}

pub fn main(tier: Tier, seed: u64) -> Report {
    let mut rep = Report::new("C13", tier, seed);
    rep.rule = RULE.into();
    rep.assumptions = vec![
        "expected value = the observable's own contents (Deref / borrow), as the statement says; no separate std model".into(),
        "quiescence = virtual-time barrier on a paused clock (no timers besides the simulated link's delays; connections run without keep-alive)".into(),
        "ample buffers (2^20 events) and max_size (2^24): lag and size limits are C14's subject".into(),
        "hash collections iterate in RandomState order: event order of retain / incremental initial values differs between runs, final contents do not".into(),
        format!("generator exclusions of confirmed findings: hash_map retain mutation={EXCLUDE_HASH_MAP_RETAIN_MUTATION}, hash_set partial Eq={EXCLUDE_HASH_SET_PARTIAL_EQ}, incremental after done={EXCLUDE_INCREMENTAL_AFTER_DONE}, remote subscriber of loading mirror={EXCLUDE_REMOTE_SUB_OF_LOADING_MIRROR}"),
    ];
    part::<KVec>(&mut rep, tier, tier.pick(25_000, 1_250_000));
    part::<KDeque>(&mut rep, tier, tier.pick(25_000, 1_250_000));
    part::<KMap>(&mut rep, tier, tier.pick(25_000, 1_250_000));
    part::<KSet>(&mut rep, tier, tier.pick(15_000, 750_000));
    part::<KList>(&mut rep, tier, tier.pick(10_000, 500_000));
    rep
}

pub fn replay(part: &str, case: serde_json::Value) -> (Option<runner::Failure>, u32, u32) {
    let n = runner::replay_times(3);
    fn go<K: Kind>(case: serde_json::Value, n: u32) -> (Option<runner::Failure>, u32, u32) {
        let c: Case<K::Op> = serde_json::from_value(case).unwrap_or_else(|e| panic!("replay case does not parse as C13 {} case: {e}", K::NAME));
        let (f, h) = runner::replay_case(&c, run_case::<K>, n);
        (f, h, n)
    }
    if part.contains("vec_deque") {
        go::<KDeque>(case, n)
    } else if part.contains("vec") {
        go::<KVec>(case, n)
    } else if part.contains("hash_map") {
        go::<KMap>(case, n)
    } else if part.contains("hash_set") {
        go::<KSet>(case, n)
    } else {
        go::<KList>(case, n)
    }
}
