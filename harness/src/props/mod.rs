pub mod c01;
