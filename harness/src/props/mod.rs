pub mod c01;
pub mod c02;
pub mod c03;
pub mod c09;
pub mod c08;
pub mod c10;
pub mod c07;
pub mod c11;
