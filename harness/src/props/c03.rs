//! C03 — Flow control liveness: no credit leak, lost wake-up, livelock or port blocking.
//! The same workload (data + multi-port open requests + cancels) also feeds C02's monitor.

use bytes::Bytes;
use proptest::prelude::*;
use serde::{Deserialize, Serialize};
use std::sync::{Arc, Mutex};
use tokio::sync::Notify;

use crate::engine::{
    gen::{self, connect_pair, payload, sched, small_u32, GCfg, Sched},
    link::SimLink,
    runner::{self, Outcome, Report, Tier},
    sim::{self, spawn_actor, tape_pause, CancelAfter, Cancelled, Tape},
    wire,
};
use remoc::chmux::{self, PortReq, Received, RecvChunkError, TrySendError};

use super::c01::{resolve_len, Len};

pub const QUIESCE_S: u64 = 1_000;

#[derive(Clone, Debug, Serialize, Deserialize, PartialEq, Eq, Hash)]
pub enum Op {
    Send { len: Len, cancel: Option<u8> },
    TryBurst { count: u8, len: Len },
    Chunked { pieces: Vec<u8>, finish: bool, cancel: Option<u8> },
    Connect { n: u8, wait: bool, cancel: Option<u8> },
}

#[derive(Clone, Debug, Serialize, Deserialize, PartialEq, Eq, Hash)]
pub struct PortScript {
    pub reverse: bool,
    pub ops: Vec<Op>,
    /// The receiver of this port never consumes.
    pub stalled: bool,
    pub slow_receiver: bool,
    /// Receiver accepts (true) or rejects (false) incoming port requests, cyclic.
    pub accept: Vec<bool>,
    /// Poll budgets after which a pending receive call is dropped and re-issued (cyclic; 0 = never).
    #[serde(default)]
    pub recv_cancel: Vec<u8>,
}

#[derive(Clone, Debug, Serialize, Deserialize, PartialEq, Eq, Hash)]
pub struct Case {
    pub cfg_a: GCfg,
    pub cfg_b: GCfg,
    pub sched: Sched,
    pub ports: Vec<PortScript>,
}

pub fn gcfg_flow() -> BoxedStrategy<GCfg> {
    (
        prop_oneof![small_u32(4, 16), small_u32(4, 64)],
        prop_oneof![3 => 4u32..=32, 1 => small_u32(4, 256), 1 => Just(6u32), 1 => Just(7u32), 1 => Just(9u32)],
        prop_oneof![Just(64usize), Just(8usize), Just(4096usize)],
        1usize..=3,
        1usize..=3,
        1usize..=3,
        1u16..=4,
        prop_oneof![Just(Some(60u32)), Just(None)],
    )
        .prop_map(|(chunk_size, receive_buffer, max_data_size, shared_q, tsend_q, trecv_q, connect_queue, timeout_s)| {
            GCfg {
                chunk_size,
                receive_buffer,
                max_data_size,
                shared_q,
                tsend_q,
                trecv_q,
                connect_queue,
                max_ports: 256,
                max_received_ports: 16,
                timeout_s,
            }
        })
        .boxed()
}

fn len_strategy() -> BoxedStrategy<Len> {
    prop_oneof![
        3 => (0u16..=80).prop_map(Len::Abs),
        1 => (0u16..=600).prop_map(Len::Abs),
        3 => (any::<u8>(), -1i8..=1).prop_map(|(s, o)| Len::Near(s, o)),
    ]
    .boxed()
}

fn cancel_strategy() -> BoxedStrategy<Option<u8>> {
    prop_oneof![3 => Just(None), 3 => (1u8..=10).prop_map(Some)].boxed()
}

fn op_strategy() -> BoxedStrategy<Op> {
    prop_oneof![
        4 => (len_strategy(), cancel_strategy()).prop_map(|(len, cancel)| Op::Send { len, cancel }),
        2 => (1u8..=6, len_strategy()).prop_map(|(count, len)| Op::TryBurst { count, len }),
        2 => (proptest::collection::vec(0u8..=40, 0..4), any::<bool>(), cancel_strategy())
            .prop_map(|(pieces, finish, cancel)| Op::Chunked { pieces, finish, cancel }),
        3 => (1u8..=6, any::<bool>(), cancel_strategy()).prop_map(|(n, wait, cancel)| Op::Connect { n, wait, cancel }),
    ]
    .boxed()
}

fn port_strategy(max_ops: usize) -> BoxedStrategy<PortScript> {
    (
        any::<bool>(),
        proptest::collection::vec(op_strategy(), 0..max_ops),
        prop_oneof![4 => Just(false), 1 => Just(true)],
        any::<bool>(),
        proptest::collection::vec(any::<bool>(), 1..4),
        prop_oneof![2 => Just(Vec::new()), 1 => proptest::collection::vec(0u8..=4, 1..4)],
    )
        .prop_map(|(reverse, ops, stalled, slow_receiver, accept, recv_cancel)| PortScript { reverse, ops, stalled, slow_receiver, accept, recv_cancel })
        .boxed()
}

pub fn strategy(tier: Tier) -> BoxedStrategy<Case> {
    let max_ops = tier.pick(10, 16);
    (gcfg_flow(), gcfg_flow(), sched(true), proptest::collection::vec(port_strategy(max_ops), 1..=3))
        .prop_map(|(cfg_a, cfg_b, sched, ports)| Case { cfg_a, cfg_b, sched, ports })
        .boxed()
}

#[derive(Clone, Debug, PartialEq)]
pub enum OpRes {
    Done,
    Cancelled,
    Full,
    Failed(String),
}

#[derive(Default)]
pub struct SenderLog {
    pub results: Vec<OpRes>,
    pub connect_results: Vec<Result<(), String>>,
    pub connects_pending: usize,
    /// Ports obtained from accepted connects are kept alive here.
    pub keep: Vec<(chmux::Sender, chmux::Receiver)>,
    pub current: Option<String>,
}

pub async fn sender_actor(
    tx: Arc<tokio::sync::Mutex<chmux::Sender>>, ops: Vec<Op>, snd_cfg: GCfg, rcv_cfg: GCfg, tape: Tape,
    log: Arc<Mutex<SenderLog>>, port_idx: u32,
) {
    let mut tx = tx.lock().await;
    for (i, op) in ops.iter().enumerate() {
        let msg_id = port_idx * 1000 + i as u32;
        tape_pause(&tape, true).await;
        log.lock().unwrap().current = Some(format!("{op:?}"));
        let res = match op {
            Op::Send { len, cancel } => {
                let len = resolve_len(len, &snd_cfg, &rcv_cfg);
                match CancelAfter::new(tx.send(payload(msg_id, len)), cancel.map(|c| c as u32)).await {
                    Cancelled::Done(Ok(())) => OpRes::Done,
                    Cancelled::Done(Err(e)) => OpRes::Failed(format!("send: {e}")),
                    Cancelled::Dropped => OpRes::Cancelled,
                }
            }
            Op::TryBurst { count, len } => {
                let len = resolve_len(len, &snd_cfg, &rcv_cfg);
                let mut r = OpRes::Done;
                for k in 0..*count {
                    match tx.try_send(&payload(msg_id + k as u32, len)) {
                        Ok(()) => {}
                        Err(TrySendError::Full) => r = OpRes::Full,
                        Err(e) => {
                            r = OpRes::Failed(format!("try_send: {e}"));
                            break;
                        }
                    }
                }
                r
            }
            Op::Chunked { pieces, finish, cancel } => {
                let pieces = pieces.clone();
                let finish = *finish;
                let fut = async {
                    let mut cs = tx.send_chunks();
                    for p in &pieces {
                        cs = cs.send(payload(msg_id, *p as usize)).await?;
                    }
                    if finish {
                        cs.finish().await?;
                    }
                    Ok::<(), chmux::SendError>(())
                };
                match CancelAfter::new(fut, cancel.map(|c| c as u32)).await {
                    Cancelled::Done(Ok(())) => OpRes::Done,
                    Cancelled::Done(Err(e)) => OpRes::Failed(format!("chunked: {e}")),
                    Cancelled::Dropped => OpRes::Cancelled,
                }
            }
            Op::Connect { n, wait, cancel } => {
                let alloc = tx.port_allocator();
                let mut ports = Vec::new();
                for _ in 0..*n {
                    match alloc.try_allocate() {
                        Some(p) => ports.push(PortReq::new(p)),
                        None => break,
                    }
                }
                match CancelAfter::new(tx.connect(ports, *wait), cancel.map(|c| c as u32)).await {
                    Cancelled::Done(Ok(connects)) => {
                        log.lock().unwrap().connects_pending += connects.len();
                        for c in connects {
                            let log = log.clone();
                            spawn_actor(async move {
                                let r = c.await;
                                let mut l = log.lock().unwrap();
                                l.connects_pending -= 1;
                                match r {
                                    Ok(pair) => {
                                        l.connect_results.push(Ok(()));
                                        l.keep.push(pair);
                                    }
                                    Err(e) => l.connect_results.push(Err(format!("{e}"))),
                                }
                            });
                        }
                        OpRes::Done
                    }
                    Cancelled::Done(Err(e)) => OpRes::Failed(format!("connect: {e}")),
                    Cancelled::Dropped => OpRes::Cancelled,
                }
            }
        };
        let mut l = log.lock().unwrap();
        l.results.push(res);
        l.current = None;
    }
}

#[derive(Default)]
pub struct ReceiverLog {
    pub msgs: usize,
    pub requests: usize,
    pub errors: Vec<String>,
    pub eos: bool,
    pub keep: Vec<(chmux::Sender, chmux::Receiver)>,
}

/// Drains the receiver until end-of-stream or until `stop` is notified; returns the receiver.
pub async fn receiver_actor(
    mut rx: chmux::Receiver, slow: bool, accept: Vec<bool>, recv_cancel: Vec<u8>, tape: Tape, log: Arc<Mutex<ReceiverLog>>,
    stop: Arc<Notify>,
) -> chmux::Receiver {
    let mut k = 0usize;
    let mut cc = 0usize;
    loop {
        if slow {
            tape_pause(&tape, true).await;
        }
        let r = tokio::select! {
            biased;
            () = stop.notified() => return rx,
            r = async { super::c01::with_recv_cancel!(recv_cancel, cc, rx.recv_any()) } => r,
        };
        match r {
            Ok(Some(Received::Data(_))) => log.lock().unwrap().msgs += 1,
            Ok(Some(Received::Chunks)) => loop {
                match rx.recv_chunk().await {
                    Ok(Some(_)) => {}
                    Ok(None) => {
                        log.lock().unwrap().msgs += 1;
                        break;
                    }
                    Err(RecvChunkError::Cancelled) => break,
                    Err(e) => {
                        log.lock().unwrap().errors.push(format!("recv_chunk: {e}"));
                        return rx;
                    }
                }
            },
            Ok(Some(Received::Requests(reqs))) => {
                for req in reqs {
                    log.lock().unwrap().requests += 1;
                    let acc = accept[k % accept.len()];
                    k += 1;
                    if acc {
                        match req.accept().await {
                            Ok(pair) => log.lock().unwrap().keep.push(pair),
                            Err(e) => log.lock().unwrap().errors.push(format!("accept: {e}")),
                        }
                    } else {
                        req.reject(false).await;
                    }
                }
            }
            Ok(None) => {
                log.lock().unwrap().eos = true;
                return rx;
            }
            Err(e) => {
                // ExceedsMaxPortCount cannot happen (n <= 6 <= max_received_ports).
                log.lock().unwrap().errors.push(format!("recv_any: {e}"));
                if e.is_final() {
                    return rx;
                }
            }
        }
    }
}

pub struct PortOutcome {
    pub results: Vec<OpRes>,
    pub sender_done: bool,
    pub current: Option<String>,
    pub connects_pending: usize,
    pub recv_errors: Vec<String>,
    pub probe: Option<Result<(), String>>,
    pub probe_connect: Option<Result<(), String>>,
    pub granted: Option<u64>,
    pub stalled: bool,
}

pub struct CaseRun {
    pub ports: Vec<PortOutcome>,
    pub link: SimLink,
    pub setup_err: Option<String>,
    pub budget: u64,
    pub deadline_s: u64,
}

fn frame_budget(case: &Case) -> u64 {
    let mut bytes = 0u64;
    let mut nops = 0u64;
    for p in &case.ports {
        let (s, r) = if p.reverse { (&case.cfg_b, &case.cfg_a) } else { (&case.cfg_a, &case.cfg_b) };
        for op in &p.ops {
            nops += 1;
            bytes += match op {
                Op::Send { len, .. } => resolve_len(len, s, r) as u64 + 1,
                Op::TryBurst { count, len } => *count as u64 * (resolve_len(len, s, r) as u64 + 1),
                Op::Chunked { pieces, .. } => pieces.iter().map(|p| *p as u64 + 1).sum::<u64>() + 1,
                Op::Connect { n, .. } => *n as u64 * 24,
            };
        }
        // probes
        bytes += r.receive_buffer as u64 + 64;
    }
    // every payload byte may travel in its own frame (2 frames) and cause a credit frame; plus
    // handshake, finishes, pings during quiescence periods.
    2_000 + 8 * bytes + 16 * nops
}

pub async fn execute(case: &Case) -> CaseRun {
    let tape = case.sched.tape();
    let budget = frame_budget(case);
    let deadline_s = case.sched.deadline_s(budget, gen::delay_cap_ms(&case.cfg_a, &case.cfg_b));
    #[allow(non_snake_case)]
    let DEADLINE_S = deadline_s;
    let (link, a, b) = match connect_pair(&case.cfg_a, &case.cfg_b, &case.sched, vec![]).await {
        Ok(x) => x,
        Err(e) => {
            let (link, _, _) = SimLink::plain(1);
            return CaseRun { ports: vec![], link, setup_err: Some(e), budget, deadline_s };
        }
    };
    link.set_budget(budget);
    let gen::Side { client: client_a, listener: mut listener_a, run: _run_a } = a;
    let gen::Side { client: client_b, listener: mut listener_b, run: _run_b } = b;

    struct P {
        tx: Arc<tokio::sync::Mutex<chmux::Sender>>,
        slog: Arc<Mutex<SenderLog>>,
        rlog: Arc<Mutex<ReceiverLog>>,
        sh: tokio::task::JoinHandle<()>,
        rh: Option<tokio::task::JoinHandle<chmux::Receiver>>,
        stop: Arc<Notify>,
        stalled_rx: Option<chmux::Receiver>,
        back: (chmux::Receiver, chmux::Sender),
        local_port_sender: u32,
        sender_ep: u8,
    }
    let mut ps: Vec<P> = Vec::new();
    for (pi, p) in case.ports.iter().enumerate() {
        let (snd_cfg, rcv_cfg) =
            if p.reverse { (case.cfg_b.clone(), case.cfg_a.clone()) } else { (case.cfg_a.clone(), case.cfg_b.clone()) };
        let conn = if p.reverse {
            tokio::join!(client_b.connect(), listener_a.accept())
        } else {
            tokio::join!(client_a.connect(), listener_b.accept())
        };
        let ((tx, rx_unused), (tx_unused, rx)) = match conn {
            (Ok(c), Ok(Some(l))) => (c, l),
            (c, l) => {
                return CaseRun {
                    ports: vec![],
                    link,
                    setup_err: Some(format!("port setup failed: {:?} {:?}", c.err(), l.map(|_| ()).err())),
                    budget,
                    deadline_s,
                }
            }
        };
        let local_port_sender = tx.local_port();
        let tx = Arc::new(tokio::sync::Mutex::new(tx));
        let slog = Arc::new(Mutex::new(SenderLog::default()));
        let rlog = Arc::new(Mutex::new(ReceiverLog::default()));
        let stop = Arc::new(Notify::new());
        let sh = spawn_actor(sender_actor(tx.clone(), p.ops.clone(), snd_cfg, rcv_cfg, tape.clone(), slog.clone(), pi as u32));
        let (rh, stalled_rx) = if p.stalled {
            (None, Some(rx))
        } else {
            (
                Some(spawn_actor(receiver_actor(rx, p.slow_receiver, p.accept.clone(), p.recv_cancel.clone(), tape.clone(), rlog.clone(), stop.clone()))),
                None,
            )
        };
        ps.push(P {
            tx,
            slog,
            rlog,
            sh,
            rh,
            stop,
            stalled_rx,
            back: (rx_unused, tx_unused),
            local_port_sender,
            sender_ep: if p.reverse { 1 } else { 0 },
        });
    }

    // Phase 1: all senders of non-stalled ports must finish.
    let deadline = tokio::time::Instant::now() + std::time::Duration::from_secs(DEADLINE_S);
    let mut sender_done = Vec::new();
    for (p, script) in ps.iter_mut().zip(&case.ports) {
        if script.stalled {
            sender_done.push(false);
            continue;
        }
        let r = tokio::time::timeout_at(deadline, &mut p.sh).await;
        sender_done.push(matches!(r, Ok(Ok(()))));
    }
    // Phase 2: quiescence.
    tokio::time::sleep(std::time::Duration::from_secs(QUIESCE_S)).await;

    let mut outs = Vec::new();
    for (i, (mut p, script)) in ps.into_iter().zip(&case.ports).enumerate() {
        let (results, current, connects_pending) = {
            let l = p.slog.lock().unwrap();
            (l.results.clone(), l.current.clone(), l.connects_pending)
        };
        let recv_errors = p.rlog.lock().unwrap().errors.clone();
        let mut po = PortOutcome {
            results,
            sender_done: sender_done[i],
            current,
            connects_pending,
            recv_errors,
            probe: None,
            probe_connect: None,
            granted: None,
            stalled: script.stalled,
        };
        if !script.stalled && sender_done[i] && !link.budget_exceeded() {
            // Phase 3: freeze the receiver, compute the credit the peer has granted from the wire.
            p.stop.notify_one();
            let rx = match sim::within(DEADLINE_S, p.rh.take().unwrap()).await {
                Ok(Ok(rx)) => Some(rx),
                _ => None,
            };
            let st = wire::analyze(&link.tap());
            let rcv_cfg = if script.reverse { &case.cfg_a } else { &case.cfg_b };
            let dir = p.sender_ep as usize;
            let granted = st
                .pairs
                .iter()
                .find(|pp| pp.ports[p.sender_ep as usize] == p.local_port_sender)
                .map(|pp| {
                    let f = &pp.flows[dir];
                    (rcv_cfg.receive_buffer as u64 + f.credits_delivered).saturating_sub(f.sent_cost)
                });
            po.granted = granted;
            if let (Some(g), Some(rx)) = (granted, rx) {
                let eos = p.rlog.lock().unwrap().eos;
                if g >= 1 && !eos {
                    // The peer has granted g credits: a send of g bytes must complete without
                    // the receiver consuming anything.
                    let mut tx = p.tx.lock().await;
                    let r = sim::within(DEADLINE_S, tx.send(payload(999_999, g as usize))).await;
                    po.probe = Some(match r {
                        Ok(Ok(())) => Ok(()),
                        Ok(Err(e)) => Err(format!("error {e}")),
                        Err(()) => Err(format!(
                            "send of {g} bytes still pending after {DEADLINE_S} virtual s although the wire shows {g} credits granted and unused"
                        )),
                    });
                    drop(tx);
                }
                // Phase 4: receiver drains again; a one-port open request must go through.
                let stop2 = Arc::new(Notify::new());
                let rh = spawn_actor(receiver_actor(rx, false, vec![true], vec![], tape.clone(), p.rlog.clone(), stop2.clone()));
                if po.probe.as_ref().map(|r| r.is_ok()).unwrap_or(true) && !eos {
                    let mut tx = p.tx.lock().await;
                    if let Some(port) = tx.port_allocator().try_allocate() {
                        let r = sim::within(DEADLINE_S, tx.connect(vec![PortReq::new(port)], true)).await;
                        po.probe_connect = Some(match r {
                            Ok(Ok(mut c)) => match sim::within(DEADLINE_S, c.pop().unwrap()).await {
                                Ok(Ok(_)) => Ok(()),
                                Ok(Err(e)) => Err(format!("probe connect refused: {e}")),
                                Err(()) => Err("probe Connect future pending".into()),
                            },
                            Ok(Err(e)) => Err(format!("error {e}")),
                            Err(()) => Err(format!(
                                "connect of one port still pending after {DEADLINE_S} virtual s with a draining receiver"
                            )),
                        });
                    }
                }
                stop2.notify_one();
                let _ = sim::within(DEADLINE_S, rh).await;
            }
        }
        po.connects_pending = p.slog.lock().unwrap().connects_pending;
        po.recv_errors = p.rlog.lock().unwrap().errors.clone();
        drop(p.stalled_rx);
        drop(p.back);
        outs.push(po);
    }
    CaseRun { ports: outs, link, setup_err: None, budget, deadline_s }
}

pub fn run_case(case: &Case) -> Outcome {
    let tape = case.sched.tape();
    let res = sim::run_sim(case.sched.tokio_seed, &tape, case.sched.defer, execute(case));
    let mut out = Outcome::default();
    let tap = res.link.tap();
    out.frames = tap.len() as u64 / 2;
    if let Some(e) = res.setup_err {
        out.fail("C03/setup", e);
        return out;
    }
    let st = wire::analyze(&tap);
    #[allow(non_snake_case)]
    let DEADLINE_S = res.deadline_s;
    if res.link.budget_exceeded() {
        let empty: u64 = st.pairs.iter().map(|p| p.flows.iter().map(|f| f.empty_port_msgs).sum::<u64>()).sum();
        let pend: Vec<String> =
            res.ports.iter().enumerate().filter_map(|(i, p)| p.current.as_ref().map(|c| format!("port {i}: {c}"))).collect();
        out.fail(
            if empty > 100 { "C03/frames-forever/empty-portdata" } else { "C03/frames-forever" },
            format!(
                "more than {} frames emitted (linear budget for this script) without completing; {} empty PortData frames; pending ops: {:?}",
                res.budget, empty, pend
            ),
        );
        return out;
    }
    let mut pool_zero = st.hit_credit_limit;
    let mut special = false;
    for (pi, (p, script)) in res.ports.iter().zip(&case.ports).enumerate() {
        for r in &p.results {
            match r {
                OpRes::Failed(e) => out.fail("C03/op-error", format!("port {pi}: operation failed while connection is healthy: {e}")),
                OpRes::Cancelled => {
                    special = true;
                    out.class("effective-cancel");
                }
                OpRes::Full => {
                    special = true;
                    out.class("try_send-full");
                }
                OpRes::Done => {}
            }
        }
        if script.ops.iter().any(|o| matches!(o, Op::Connect { n, .. } if 4 * *n as u32 > if script.reverse { case.cfg_a.receive_buffer } else { case.cfg_b.receive_buffer })) {
            special = true;
            out.class("connect-batch>credit");
        }
        if script.stalled {
            out.class("stalled-port");
            continue;
        }
        for e in &p.recv_errors {
            out.fail("C03/recv-error", format!("port {pi}: receiver error {e}"));
        }
        if !p.sender_done {
            if std::env::var("VERIF_DEBUG").is_ok() {
                for m in st.msgs.iter().filter(|m| !m.delivered).rev().take(30).collect::<Vec<_>>().into_iter().rev() {
                    eprintln!("  t={} dir={} {:?} payload={:?}", m.t_ms, m.dir, m.msg, m.payload.as_ref().map(|p| p.len()));
                }
            }
            let others_stalled = case.ports.iter().any(|s| s.stalled);
            out.fail(
                if others_stalled { "C03/pending-op/with-stalled-port" } else { "C03/pending-op" },
                format!(
                    "port {pi}: operation {:?} still pending after {DEADLINE_S} virtual s although its receiver keeps consuming (results so far {:?})",
                    p.current, p.results
                ),
            );
            continue;
        }
        if let Some(Err(e)) = &p.probe {
            out.fail("C03/credit-leak", format!("port {pi}: {e}; history {:?}", p.results));
        }
        if let Some(Err(e)) = &p.probe_connect {
            out.fail("C03/probe-connect", format!("port {pi}: {e}; history {:?}", p.results));
        }
        if p.connects_pending > 0 {
            out.fail("C03/connect-unresolved", format!("port {pi}: {} Connect futures unresolved at quiescence", p.connects_pending));
        }
        if p.granted == Some(0) {
            pool_zero = true;
        }
    }
    if pool_zero {
        out.class("credit-pool-exhausted");
    }
    if case.ports.iter().any(|p| p.recv_cancel.iter().any(|c| *c > 0)) {
        out.class("receive-calls-cancelled");
        special = true;
    }
    out.nontrivial = pool_zero && special;
    if case.sched.perturbed() {
        out.class("perturbed-schedule");
    }
    out
}

/// C02 monitor over the C03 workload.
pub fn run_case_c02(case: &Case) -> Outcome {
    let tape = case.sched.tape();
    let res = sim::run_sim(case.sched.tokio_seed, &tape, case.sched.defer, execute(case));
    let mut out = Outcome::default();
    let tap = res.link.tap();
    out.frames = tap.len() as u64 / 2;
    let st = wire::analyze(&tap);
    if let Some(v) = st.first_violation() {
        out.fail(format!("C02/{}", v.sig), v.msg.clone());
    }
    let delayed = st.pairs.iter().any(|p| p.flows.iter().any(|f| f.max_credit_delay_ms >= 1000));
    if st.hit_credit_limit {
        out.class("hit-credit-limit");
    }
    if delayed {
        out.class("credit-frame-delayed>=1s");
    }
    if st.pairs.iter().any(|p| p.flows.iter().any(|f| f.port_msgs > 0)) {
        out.class("port-batches");
    }
    out.nontrivial = st.hit_credit_limit && delayed;
    out
}

pub const RULE: &str = "cases = (Cfg pair with receive_buffer 4..32 incl. non-multiples of 4 and queues 1..3, schedule, 1-3 ports each with a script of send / try_send burst / chunked send / Sender::connect(n<=6) ops with cancel points, optionally one stalled port whose receiver never reads); oracles = every op on a non-stalled port completes by the virtual deadline, total frames stay within a linear budget of the script (no frames-forever), at quiescence a send of exactly the credit the peer has granted by the wire ledger completes without the receiver consuming (no leak), a one-port connect completes with a draining receiver, all Connect futures resolve; non-trivial = the credit pool reached the limit AND (an effective cancel, a try_send Full, or a connect batch larger than the available credit); distinct = distinct case hash";

pub fn main(tier: Tier, seed: u64) -> Report {
    let mut rep = Report::new("C03", tier, seed);
    rep.rule = RULE.into();
    rep.assumptions = vec![
        "liveness is bounded: 'pending after a virtual deadline of 3000 s + (frame budget x largest per-frame delay of the schedule) on a healthy simulated transport'".into(),
        "single-threaded deterministic simulation; task-level interleavings only".into(),
        "frame budget per case is linear in the script size (2000 + 8*bytes + 16*ops)".into(),
    ];
    let regress: Vec<Case> = runner::load_regress::<Case>("C03", "gen").into_iter().map(|(_, c)| c).collect();
    if !regress.is_empty() {
        runner::run_cases(&mut rep, "regress", regress, run_case);
    }
    let cases = tier.pick(16_000, 250_000);
    runner::run_generated(&mut rep, "gen", cases, || strategy(tier), run_case);
    rep
}

pub fn replay(_part: &str, case: serde_json::Value) -> (Option<runner::Failure>, u32, u32) {
    let case: Case = serde_json::from_value(case).expect("replay case does not parse as C03 case");
    let n = runner::replay_times(5);
    let (f, hits) = runner::replay_case(&case, run_case, n);
    (f, hits, n)
}
