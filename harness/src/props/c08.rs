//! C08 — Robustness against an arbitrary or hostile peer.
//!
//! The harness is the peer (RefPeer). A valid conversation prefix (C09's script language) brings
//! the real endpoint into some API state; then hostile frames are injected. Oracle: no panic;
//! either the endpoint keeps operating correctly (a fresh request/echo works) or its dispatcher
//! terminates with an error that every local user observes; buffered data/requests/tasks stay
//! bounded by the advertised limits.

use bytes::Bytes;
use proptest::prelude::*;
use serde::{Deserialize, Serialize};
use serde_json::json;

use crate::engine::{
    gen::{payload, GCfg},
    refcodec::{RefCfg, RefMsg},
    runner::{self, Outcome, Report, Tier},
    sim::{self, Tape},
};
use remoc::chmux::{self, ChMuxError, Received};

use super::c09::{self, Act, Conv, Handle};

#[derive(Clone, Debug, Serialize, Deserialize, PartialEq, Eq, Hash)]
pub enum Evil {
    /// Arbitrary bytes as one frame.
    Raw(Vec<u8>),
    /// A valid message of kind `kind` truncated to `keep` bytes.
    Truncated { kind: u8, keep: u8 },
    HelloAgain,
    Reset,
    /// Data header for an open port, followed by this message as the "payload" frame.
    DataThenMsg { port: u8 },
    DataUnknownPort { port: u32, len: u8 },
    DataAfterSendFinish { port: u8 },
    /// Payload larger than the real endpoint's advertised chunk size.
    OverChunk { port: u8, extra: u8 },
    /// Keep sending valid-sized chunks without ever being granted credit.
    OverCredit { port: u8, chunk: u8 },
    CreditsOverflow { port: u8 },
    CreditsUnknownPort { port: u32 },
    /// The same client port requested twice.
    DupOpenPort { port: u32 },
    /// More unanswered OpenPort requests than the advertised connect queue.
    TooManyOpen { extra: u8, wait: bool },
    PortOpenedUnknown { port: u32 },
    RejectedUnknown { port: u32 },
    PortOpenedForConnected { port: u8 },
    DupSendFinish { port: u8 },
    DupReceiveClose { port: u8 },
    FinishUnknownPort { which: u8, port: u32 },
    /// PortData with more ports than fit the chunk size / credit.
    PortDataHuge { port: u8, n: u16 },
    PortDataDupPorts { port: u8 },
    /// Many ClientFinish messages (listen queue overflow).
    ClientFinishFlood { n: u8 },
    /// Many requests while the local listener is gone and the peer does not read.
    OpenFloodNoListener { n: u16 },
    /// Valid message kinds sent with a mutated code byte.
    UnknownCode(u8),
    /// A port requested through PortData and then again through OpenPort (or the reverse order).
    SamePortTwoWays { port: u8, open_first: bool },
    /// Many PortData frames without any port (they cost no credit) to a receiver that does not read.
    EmptyPortDataFlood { port: u8, n: u16, last: bool },
    /// A multi-chunk PortData message that never ends (first, then non-final chunks within credit).
    EndlessPortData { port: u8, chunks: u8 },
}

#[derive(Clone, Debug, Serialize, Deserialize, PartialEq, Eq, Hash)]
pub struct LocalState {
    pub drop_listener: bool,
    pub drop_client: bool,
    /// A local connect is pending (unanswered) when the hostile frames arrive.
    pub pending_connect: bool,
    /// A local send is blocked on credits when the hostile frames arrive.
    pub blocked_send: bool,
}

#[derive(Clone, Debug, Serialize, Deserialize, PartialEq, Eq, Hash)]
pub struct Case {
    pub real: GCfg,
    pub peer: RefCfg,
    pub peer_version: u8,
    pub prefix: Vec<Act>,
    pub local: LocalState,
    pub evil: Vec<Evil>,
}

fn evil_strategy() -> BoxedStrategy<Evil> {
    prop_oneof![
        3 => proptest::collection::vec(any::<u8>(), 0..40).prop_map(Evil::Raw),
        2 => (1u8..=15, 0u8..=12).prop_map(|(kind, keep)| Evil::Truncated { kind, keep }),
        1 => Just(Evil::HelloAgain),
        1 => Just(Evil::Reset),
        2 => any::<u8>().prop_map(|port| Evil::DataThenMsg { port }),
        2 => (any::<u32>(), 0u8..=16).prop_map(|(port, len)| Evil::DataUnknownPort { port, len }),
        2 => any::<u8>().prop_map(|port| Evil::DataAfterSendFinish { port }),
        3 => (any::<u8>(), 1u8..=40).prop_map(|(port, extra)| Evil::OverChunk { port, extra }),
        3 => (any::<u8>(), 1u8..=64).prop_map(|(port, chunk)| Evil::OverCredit { port, chunk }),
        2 => any::<u8>().prop_map(|port| Evil::CreditsOverflow { port }),
        1 => any::<u32>().prop_map(|port| Evil::CreditsUnknownPort { port }),
        2 => any::<u32>().prop_map(|port| Evil::DupOpenPort { port }),
        3 => (1u8..=4, any::<bool>()).prop_map(|(extra, wait)| Evil::TooManyOpen { extra, wait }),
        1 => any::<u32>().prop_map(|port| Evil::PortOpenedUnknown { port }),
        1 => any::<u32>().prop_map(|port| Evil::RejectedUnknown { port }),
        2 => any::<u8>().prop_map(|port| Evil::PortOpenedForConnected { port }),
        2 => any::<u8>().prop_map(|port| Evil::DupSendFinish { port }),
        2 => any::<u8>().prop_map(|port| Evil::DupReceiveClose { port }),
        1 => (0u8..3, any::<u32>()).prop_map(|(which, port)| Evil::FinishUnknownPort { which, port }),
        2 => (any::<u8>(), 1u16..=600).prop_map(|(port, n)| Evil::PortDataHuge { port, n }),
        2 => any::<u8>().prop_map(|port| Evil::PortDataDupPorts { port }),
        1 => (2u8..=12).prop_map(|n| Evil::ClientFinishFlood { n }),
        2 => (50u16..=600).prop_map(|n| Evil::OpenFloodNoListener { n }),
        1 => prop_oneof![Just(0u8), 16u8..=255].prop_map(Evil::UnknownCode),
        2 => (any::<u8>(), any::<bool>()).prop_map(|(port, open_first)| Evil::SamePortTwoWays { port, open_first }),
        2 => (any::<u8>(), 300u16..=3000, any::<bool>()).prop_map(|(port, n, last)| Evil::EmptyPortDataFlood { port, n, last }),
        2 => (any::<u8>(), 20u8..=120).prop_map(|(port, chunks)| Evil::EndlessPortData { port, chunks }),
    ]
    .boxed()
}

pub fn strategy(tier: Tier) -> BoxedStrategy<Case> {
    let n = tier.pick(8, 16);
    (
        c09::real_cfg(),
        c09::peer_cfg(),
        prop_oneof![3 => Just(3u8), 1 => Just(2u8)],
        proptest::collection::vec(c09::act_strategy(), 0..n),
        (any::<bool>(), any::<bool>(), any::<bool>(), any::<bool>()),
        proptest::collection::vec(evil_strategy(), 1..4),
    )
        .prop_map(|(real, peer, peer_version, prefix, (a, b, c, d), mut evil)| {
            // Floods leave the harness's credit model behind: nothing may follow them.
            if let Some(i) = evil.iter().position(|e| matches!(e, Evil::EmptyPortDataFlood { .. } | Evil::EndlessPortData { .. })) {
                evil.truncate(i + 1);
            }
            (real, peer, peer_version, prefix, (a, b, c, d), evil)
        })
        .prop_map(|(real, peer, peer_version, prefix, (a, b, c, d), evil)| Case {
            real,
            peer,
            peer_version,
            prefix,
            local: LocalState { drop_listener: a && b, drop_client: a && c, pending_connect: c, blocked_send: d },
            evil,
        })
        .boxed()
}

/// Prefix that guarantees at least one open port in each opening direction.
fn base_prefix() -> Vec<Act> {
    vec![
        Act::PeerOpen { port: 100, wait: true, id: Some(7), handle: Handle::Accept },
        Act::RealConnect { wait: true, open: Some(200), no_ports: false },
    ]
}

fn sample_msg(kind: u8) -> RefMsg {
    match kind {
        1 => RefMsg::Reset,
        2 => RefMsg::Hello { version: 3, cfg: RefCfg { timeout_ms: 1000, chunk_size: 16, receive_buffer: 64, connect_queue: 2 } },
        3 => RefMsg::Ping,
        4 => RefMsg::OpenPort { client_port: 77_001, wait: true, id: Some(9) },
        5 => RefMsg::PortOpened { client_port: 77_002, server_port: 77_003 },
        6 => RefMsg::Rejected { client_port: 77_004, no_ports: true },
        7 => RefMsg::Data { port: 77_005, first: true, last: true },
        8 => RefMsg::PortData { port: 77_006, first: true, last: true, wait: false, ports: vec![77_007], ids: Some(vec![1]) },
        9 => RefMsg::PortCredits { port: 77_008, credits: 5 },
        10 => RefMsg::SendFinish { port: 77_009 },
        11 => RefMsg::ReceiveClose { port: 77_010 },
        12 => RefMsg::ReceiveFinish { port: 77_011 },
        13 => RefMsg::ClientFinish,
        14 => RefMsg::ListenerFinish,
        _ => RefMsg::Goodbye,
    }
}

/// Oracles of the form "the peer exceeded a limit and the endpoint keeps accepting".
const LIMIT_SIGS: [&str; 6] = [
    "C08/request-limit",
    "C08/buffer-exceeded",
    "C08/unbounded-port-requests",
    "C08/unbounded-requests",
    "C08/unbounded-zero-credit-frames",
    "C08/unbounded-tasks",
];

#[derive(Default)]
pub struct EvilStats {
    pub after_goodbye: u32,
    pub reached_with_open_port: bool,
    pub terminated: bool,
    pub terminated_with: String,
    pub probe_done: bool,
    pub bytes_over_credit: u64,
    pub max_tasks: usize,
    pub zero_credit_buffered: u32,
    /// Hostile items that actually put frames on the wire (others were not applicable to the state).
    pub applied: u32,
}

type R<T> = Result<T, (String, String)>;
fn err<T>(sig: &str, msg: impl Into<String>) -> R<T> {
    Err((sig.to_string(), msg.into()))
}

async fn settle() {
    tokio::time::sleep(std::time::Duration::from_millis(2)).await;
}

/// Sends one hostile item. Returns the number of data bytes sent beyond what the real endpoint
/// had room for (only for OverCredit) — the connection must be gone once that is positive + slack.
async fn inject(conv: &mut Conv, e: &Evil, run: &tokio::task::JoinHandle<crate::engine::gen::MuxResult>, st: &mut EvilStats) -> R<()> {
    let open: Vec<usize> = (0..conv.ports.len()).collect();
    let sel = |p: u8| -> Option<usize> {
        if open.is_empty() {
            None
        } else {
            Some(open[p as usize % open.len()])
        }
    };
    macro_rules! raw {
        ($b:expr) => {
            let _ = conv.peer.send_raw($b).await;
        };
    }
    match e {
        Evil::Raw(b) => {
            raw!(b.clone());
            // If it happened to be a Data header, the next frame is swallowed as payload; send a
            // harmless ping so that a later probe is not swallowed instead.
            if b.first() == Some(&7) {
                raw!(RefMsg::Ping.encode());
            }
        }
        Evil::Truncated { kind, keep } => {
            let m = sample_msg(*kind).encode();
            let k = (*keep as usize).min(m.len().saturating_sub(1));
            raw!(m[..k].to_vec());
            if m[..k].first() == Some(&7) {
                raw!(RefMsg::Ping.encode());
            }
        }
        Evil::HelloAgain => {
            raw!(sample_msg(2).encode());
        }
        Evil::Reset => {
            raw!(RefMsg::Reset.encode());
        }
        Evil::DataThenMsg { port } => {
            if let Some(pi) = sel(*port) {
                let p = &mut conv.ports[pi];
                if p.avail >= 5 && !p.peer_send_finished {
                    p.avail -= 5;
                    let real = p.real;
                    raw!(RefMsg::Data { port: real, first: true, last: true }.encode());
                    // this SendFinish-looking frame is consumed as 5 payload bytes
                    raw!(RefMsg::SendFinish { port: real }.encode());
                }
            }
        }
        Evil::DataUnknownPort { port, len } => {
            if !conv.ports.iter().any(|p| p.real == *port) {
                raw!(RefMsg::Data { port: *port, first: true, last: true }.encode());
                raw!(payload(1, *len as usize));
            }
        }
        Evil::DataAfterSendFinish { port } => {
            if let Some(pi) = sel(*port) {
                let real = conv.ports[pi].real;
                if !conv.ports[pi].peer_send_finished {
                    raw!(RefMsg::SendFinish { port: real }.encode());
                    conv.ports[pi].peer_send_finished = true;
                }
                raw!(RefMsg::Data { port: real, first: true, last: true }.encode());
                raw!(payload(2, 1));
            }
        }
        Evil::OverChunk { port, extra } => {
            if let Some(pi) = sel(*port) {
                if !conv.ports[pi].peer_send_finished {
                    let real = conv.ports[pi].real;
                    raw!(RefMsg::Data { port: real, first: true, last: true }.encode());
                    raw!(payload(3, conv.real_cs as usize + *extra as usize));
                }
            }
        }
        Evil::OverCredit { port, chunk } => {
            if let Some(pi) = sel(*port) {
                if !conv.ports[pi].peer_send_finished {
                    let real = conv.ports[pi].real;
                    let c = (*chunk as u64).clamp(1, conv.real_cs);
                    // The local user does not consume. Send until far beyond the buffer.
                    // What the endpoint may hold is its receive buffer: credits for data its receiver
                    // already consumed but has not yet returned (below the return threshold) do
                    // not count as buffered, so `avail` (the peer's view of its credit) can be smaller
                    // than the room the endpoint rightly still has. Everything the conversation sent so
                    // far was consumed, hence the room is at most the whole receive buffer.
                    let room = conv.real_rb;
                    let limit = room + 4 * conv.real_cs + 64;
                    let mut sent = 0u64;
                    let mut first = true;
                    while sent < limit {
                        if conv.peer.send_raw(RefMsg::Data { port: real, first, last: false }.encode()).await.is_err() {
                            break;
                        }
                        if conv.peer.send_raw(payload(4, c as usize)).await.is_err() {
                            break;
                        }
                        first = false;
                        sent += c;
                        if sent % (8 * c) == 0 {
                            settle().await;
                        }
                        if run.is_finished() {
                            break;
                        }
                    }
                    settle().await;
                    let over = sent.saturating_sub(room);
                    st.bytes_over_credit = over;
                    conv.ports[pi].avail = 0;
                    if over > conv.real_cs && !run.is_finished() {
                        return err(
                            "C08/buffer-exceeded",
                            format!(
                                "peer sent {sent} bytes on a port whose receiver does not consume; that is {over} bytes more than its receive buffer ({}), yet the endpoint keeps accepting",
                                conv.real_rb
                            ),
                        );
                    }
                }
            }
        }
        Evil::CreditsOverflow { port } => {
            if let Some(pi) = sel(*port) {
                let real = conv.ports[pi].real;
                raw!(RefMsg::PortCredits { port: real, credits: u32::MAX }.encode());
                raw!(RefMsg::PortCredits { port: real, credits: u32::MAX }.encode());
            }
        }
        Evil::CreditsUnknownPort { port } => {
            if !conv.ports.iter().any(|p| p.real == *port) {
                raw!(RefMsg::PortCredits { port: *port, credits: 1 }.encode());
            }
        }
        Evil::DupOpenPort { port } => {
            if conv.listener.is_some() {
                let q = conv.fresh_peer_port(*port);
                raw!(RefMsg::OpenPort { client_port: q, wait: true, id: None }.encode());
                raw!(RefMsg::OpenPort { client_port: q, wait: true, id: None }.encode());
            }
        }
        Evil::TooManyOpen { extra, wait } => {
            let n = conv.peer.real_cfg.as_ref().map(|c| c.connect_queue as u32).unwrap_or(1) + 1 + *extra as u32;
            for k in 0..n {
                let q = conv.fresh_peer_port(500_000 + k);
                raw!(RefMsg::OpenPort { client_port: q, wait: *wait, id: None }.encode());
            }
            settle().await;
            if conv.listener.is_some() && !run.is_finished() {
                return err(
                    "C08/request-limit",
                    format!("peer sent {n} unanswered OpenPort requests although connect_queue is {} and the listener does not answer; endpoint keeps accepting", n - 1 - *extra as u32),
                );
            }
        }
        Evil::PortOpenedUnknown { port } => {
            raw!(RefMsg::PortOpened { client_port: *port, server_port: 1 }.encode());
        }
        Evil::RejectedUnknown { port } => {
            raw!(RefMsg::Rejected { client_port: *port, no_ports: false }.encode());
        }
        Evil::PortOpenedForConnected { port } => {
            if let Some(pi) = sel(*port) {
                let real = conv.ports[pi].real;
                raw!(RefMsg::PortOpened { client_port: real, server_port: 424_242 }.encode());
            }
        }
        Evil::DupSendFinish { port } => {
            if let Some(pi) = sel(*port) {
                let real = conv.ports[pi].real;
                if !conv.ports[pi].peer_send_finished {
                    raw!(RefMsg::SendFinish { port: real }.encode());
                    conv.ports[pi].peer_send_finished = true;
                }
                raw!(RefMsg::SendFinish { port: real }.encode());
            }
        }
        Evil::DupReceiveClose { port } => {
            if let Some(pi) = sel(*port) {
                let real = conv.ports[pi].real;
                raw!(RefMsg::ReceiveClose { port: real }.encode());
                raw!(RefMsg::ReceiveClose { port: real }.encode());
                conv.ports[pi].peer_recv_closed = true;
            }
        }
        Evil::FinishUnknownPort { which, port } => {
            if !conv.ports.iter().any(|p| p.real == *port) {
                let m = match which {
                    0 => RefMsg::SendFinish { port: *port },
                    1 => RefMsg::ReceiveClose { port: *port },
                    _ => RefMsg::ReceiveFinish { port: *port },
                };
                raw!(m.encode());
            }
        }
        Evil::PortDataHuge { port, n } => {
            if let Some(pi) = sel(*port) {
                if !conv.ports[pi].peer_send_finished {
                    let real = conv.ports[pi].real;
                    let min_n = (conv.real_cs / 4 + 1).max(conv.ports[pi].avail / 4 + 1) as u16;
                    let n = (*n).max(min_n);
                    let ports: Vec<u32> = (0..n as u32).map(|k| 600_000 + k).collect();
                    raw!(RefMsg::PortData { port: real, first: true, last: true, wait: false, ports, ids: None }.encode());
                }
            }
        }
        Evil::PortDataDupPorts { port } => {
            if let Some(pi) = sel(*port) {
                let p = &mut conv.ports[pi];
                if p.avail >= 8 && conv.real_cs >= 8 && !p.peer_send_finished {
                    p.avail -= 8;
                    let real = p.real;
                    raw!(RefMsg::PortData { port: real, first: true, last: true, wait: false, ports: vec![700_000, 700_000], ids: None }.encode());
                }
            }
        }
        Evil::ClientFinishFlood { n } => {
            let q = conv.peer.real_cfg.as_ref().map(|c| c.connect_queue as u32).unwrap_or(1);
            for _ in 0..(*n as u32 + q + 2) {
                raw!(RefMsg::ClientFinish.encode());
            }
        }
        Evil::OpenFloodNoListener { n } => {
            if conv.listener.is_none() {
                // The peer does not read while flooding.
                for k in 0..*n as u32 {
                    let q = conv.fresh_peer_port(800_000 + k);
                    if conv.peer.send_raw(RefMsg::OpenPort { client_port: q, wait: false, id: None }.encode()).await.is_err() {
                        break;
                    }
                    if k % 16 == 15 {
                        settle().await;
                        let tasks = tokio::runtime::Handle::current().metrics().num_alive_tasks();
                        st.max_tasks = st.max_tasks.max(tasks);
                    }
                }
                settle().await;
                let tasks = tokio::runtime::Handle::current().metrics().num_alive_tasks();
                st.max_tasks = st.max_tasks.max(tasks);
            }
        }
        Evil::UnknownCode(c) => {
            raw!(vec![*c, 1, 2, 3, 4, 5]);
        }
        Evil::SamePortTwoWays { port, open_first } => {
            if let Some(pi) = sel(*port) {
                let p = &mut conv.ports[pi];
                if p.avail >= 4 && !p.peer_send_finished && conv.real_cs >= 4 && conv.listener.is_some() {
                    p.avail -= 4;
                    let real = p.real;
                    let q = conv.fresh_peer_port(2_000_000);
                    let pd = RefMsg::PortData { port: real, first: true, last: true, wait: false, ports: vec![q], ids: None };
                    let op = RefMsg::OpenPort { client_port: q, wait: false, id: None };
                    if *open_first {
                        raw!(op.encode());
                        raw!(pd.encode());
                    } else {
                        raw!(pd.encode());
                        raw!(op.encode());
                    }
                }
            }
        }
        Evil::EmptyPortDataFlood { port, n, last } => {
            if let Some(pi) = sel(*port) {
                if !conv.ports[pi].peer_send_finished && conv.ports[pi].rx.is_some() {
                    let real = conv.ports[pi].real;
                    let mut sent = 0u32;
                    for k in 0..*n {
                        let m = RefMsg::PortData { port: real, first: k == 0 || *last, last: *last, wait: false, ports: vec![], ids: None };
                        if conv.peer.send_raw(m.encode()).await.is_err() {
                            break;
                        }
                        sent += 1;
                        if k % 64 == 63 {
                            settle().await;
                            if run.is_finished() {
                                break;
                            }
                        }
                    }
                    settle().await;
                    if !run.is_finished() {
                        // The local user did not read: everything accepted is buffered for this port.
                        // Count what can be drained now without the peer sending anything else.
                        let rx = conv.ports[pi].rx.as_mut().unwrap();
                        let mut drained = 0u32;
                        loop {
                            match sim::within(1, rx.recv_any()).await {
                                Ok(Ok(Some(_))) => drained += 1,
                                _ => break,
                            }
                            if drained > sent {
                                break;
                            }
                        }
                        st.zero_credit_buffered = st.zero_credit_buffered.max(if *last { drained } else { sent });
                        let bound = conv.real_rb as u32 + 64;
                        if *last && drained > bound {
                            return err(
                                "C08/unbounded-zero-credit-frames",
                                format!(
                                    "peer sent {sent} PortData frames without ports (0 credits each) to a port nobody reads; the endpoint buffered all of them ({drained} messages drained afterwards), advertised receive_buffer is {} bytes",
                                    conv.real_rb
                                ),
                            );
                        }
                    }
                }
            }
        }
        Evil::EndlessPortData { port, chunks } => {
            if let Some(pi) = sel(*port) {
                if !conv.ports[pi].peer_send_finished && conv.ports[pi].rx.is_some() && conv.real_cs >= 4 {
                    let real = conv.ports[pi].real;
                    // The local user reads (so credits come back), the message never ends.
                    let mut rx = conv.ports[pi].rx.take().unwrap();
                    let reader = sim::spawn_actor(async move {
                        let r = sim::within(600, rx.recv_any()).await;
                        (rx, r.map(|r| r.map(|o| o.is_some()).map_err(|e| e.to_string())))
                    });
                    let max_ports = 16u32; // real endpoints in this check use max_received_ports = 16
                    let mut sent_ports = 0u32;
                    for k in 0..*chunks as u32 {
                        conv.absorb_credits().ok();
                        if conv.ports[pi].avail < 4 {
                            settle().await;
                            // collect credits the real endpoint returned meanwhile
                            while let Ok(rxm) = conv.peer.next_msg(1).await {
                                if let RefMsg::PortCredits { port, credits } = rxm.msg {
                                    conv.peer.credits_seen.push((port, credits));
                                }
                            }
                            conv.absorb_credits().ok();
                            if conv.ports[pi].avail < 4 {
                                break;
                            }
                        }
                        conv.ports[pi].avail -= 4;
                        let q = conv.fresh_peer_port(1_000_000 + k);
                        let m = RefMsg::PortData { port: real, first: k == 0, last: false, wait: false, ports: vec![q], ids: None };
                        if conv.peer.send_raw(m.encode()).await.is_err() {
                            break;
                        }
                        sent_ports += 1;
                        if reader.is_finished() || run.is_finished() {
                            break;
                        }
                    }
                    // The peer keeps reading what the real endpoint sends (credit returns, data of a
                    // blocked send): an endpoint whose transport is not drained rightly stops
                    // reading, too, and would never see the surplus requests.
                    for _ in 0..40 {
                        while let Ok(rxm) = conv.peer.next_msg(1).await {
                            if let RefMsg::PortCredits { port, credits } = rxm.msg {
                                conv.peer.credits_seen.push((port, credits));
                            }
                        }
                        if reader.is_finished() || run.is_finished() {
                            break;
                        }
                        settle().await;
                    }
                    if sent_ports > max_ports + 8 && !reader.is_finished() && !run.is_finished() {
                        return err(
                            "C08/unbounded-port-requests",
                            format!("peer sent {sent_ports} port requests in one never-ending PortData message; max_received_ports is {max_ports} but the receiver neither fails nor does the connection end"),
                        );
                    }
                    if let Ok(Ok((rx, _))) = sim::within(700, reader).await {
                        conv.ports[pi].rx = Some(rx);
                    }
                }
            }
        }
    }
    Ok(())
}

pub async fn hostile(case: &Case) -> (Option<(String, String)>, EvilStats, u64) {
    let mut st = EvilStats::default();
    let (link, mut conv, mut run) = match c09::setup(&case.real, &case.peer, case.peer_version).await {
        Ok(x) => x,
        Err(e) => return (Some((format!("C08/{}", e.0), e.1)), st, 0),
    };
    let res: R<()> = async {
        // Valid prefix. A failure inside the valid prefix is C09's business, not C08's: stop the
        // prefix there and continue with whatever state was reached.
        for a in base_prefix().iter().chain(case.prefix.iter()) {
            if matches!(a, Act::Idle { .. } | Act::CreditStep { .. }) {
                continue;
            }
            if conv.act(a).await.is_err() {
                return Ok(());
            }
        }
        st.reached_with_open_port = !conv.ports.is_empty();
        let tasks_before = tokio::runtime::Handle::current().metrics().num_alive_tasks();
        // Local API state.
        if case.local.drop_listener {
            conv.listener = None;
        }
        let mut pending_connect = None;
        if case.local.pending_connect {
            if let Some(c) = &conv.client {
                if let Ok(c) = c.connect_ext(None, true).await {
                    pending_connect = Some(c);
                }
            }
        }
        if case.local.drop_client {
            conv.client = None;
        }
        let mut blocked_send = None;
        if case.local.blocked_send && case.peer.receive_buffer <= 4096 {
            if let Some(pi) = (0..conv.ports.len()).find(|&i| conv.ports[i].tx.is_some() && !conv.ports[i].peer_recv_closed && !conv.ports[i].peer_recv_finished) {
                let mut tx = conv.ports[pi].tx.take().unwrap();
                let len = case.peer.receive_buffer as usize + 10;
                blocked_send = Some(sim::spawn_actor(async move {
                    let r = tx.send(payload(9, len)).await;
                    (tx, r)
                }));
            }
        }
        settle().await;

        for e in &case.evil {
            let before = link.sent(1);
            // Once the peer itself has said Goodbye the endpoint rightly stops reading: frames
            // sent after that are never looked at, so the limit oracles ("keeps accepting") do not
            // apply any more (any frame that starts with the Goodbye code counts, trailing bytes are
            // ignored by the decoder; a payload frame that happens to start with 15 only makes the
            // check skip an oracle, never raise one).
            let goodbye_before = link.tap().iter().any(|ev| ev.dir == 1 && ev.bytes.first() == Some(&15u8));
            let r = inject(&mut conv, e, &run, &mut st).await;
            if link.sent(1) > before {
                st.applied += 1;
            }
            match r {
                Err((sig, _)) if goodbye_before && LIMIT_SIGS.contains(&sig.as_str()) => {
                    st.after_goodbye += 1;
                }
                r => r?,
            }
            settle().await;
        }
        tokio::time::sleep(std::time::Duration::from_millis(20)).await;
        let tasks_after = tokio::runtime::Handle::current().metrics().num_alive_tasks();
        st.max_tasks = st.max_tasks.max(tasks_after);

        if run.is_finished() {
            st.terminated = true;
            let r = (&mut run).await;
            match r {
                Ok(Err(e)) => {
                    st.terminated_with = match &e {
                        ChMuxError::Protocol(_) => "Protocol".into(),
                        ChMuxError::Reset => "Reset".into(),
                        ChMuxError::StreamClosed => "StreamClosed".into(),
                        ChMuxError::StreamError(_) => "StreamError".into(),
                        ChMuxError::SinkError(_) => "SinkError".into(),
                        ChMuxError::Timeout => "Timeout".into(),
                    };
                }
                Ok(Ok(())) => st.terminated_with = "Ok".into(),
                Err(e) => return err("C08/dispatcher-panicked", format!("dispatcher task failed: {e}")),
            }
            let goodbye = case.evil.iter().any(|e| matches!(e, Evil::Raw(b) if b.first() == Some(&15)));
            if st.terminated_with == "Ok" && !goodbye {
                return err("C08/silent-termination", "dispatcher terminated with Ok(()) after hostile frames although ports/clients were alive and no Goodbye was exchanged");
            }
            // Every local user must observe an error, in bounded time.
            for (i, p) in conv.ports.iter_mut().enumerate() {
                if let Some(tx) = p.tx.as_mut() {
                    match sim::within(600, tx.send(Bytes::from_static(b"after"))).await {
                        Ok(Err(_)) => {}
                        Ok(Ok(())) => return err("C08/user-not-informed", format!("send on port {i} succeeded after the connection was terminated")),
                        Err(()) => return err("C08/user-hangs", format!("send on port {i} hangs after the connection was terminated")),
                    }
                    if sim::within(600, tx.closed()).await.is_err() {
                        return err("C08/user-hangs", format!("Sender::closed on port {i} hangs after termination"));
                    }
                }
                if let Some(rx) = p.rx.as_mut() {
                    let mut n = 0;
                    loop {
                        match sim::within(600, rx.recv_any()).await {
                            Ok(Ok(Some(Received::Chunks))) => {
                                let _ = sim::within(600, rx.recv_chunk()).await;
                            }
                            Ok(Ok(Some(_))) => {}
                            Ok(Ok(None)) => {
                                if !p.peer_send_finished {
                                    return err("C08/user-not-informed", format!("receiver on port {i} reports a clean end of stream after a protocol-error termination"));
                                }
                                break;
                            }
                            Ok(Err(e)) if e.is_final() => break,
                            Ok(Err(_)) => {}
                            Err(()) => return err("C08/user-hangs", format!("recv on port {i} hangs after termination")),
                        }
                        n += 1;
                        if n > 10_000 {
                            return err("C08/user-hangs", "receiver yields data forever");
                        }
                    }
                }
            }
            if let Some(c) = pending_connect.take() {
                match sim::within(600, c).await {
                    // It may legitimately have been answered before the termination.
                    Ok(_) => {}
                    Err(()) => return err("C08/user-hangs", "pending Connect future hangs after termination"),
                }
            }
            if let Some(b) = blocked_send.take() {
                match sim::within(600, b).await {
                    // It may legitimately have completed before the termination (e.g. hostile credits).
                    Ok(Ok((_, _))) => {}
                    _ => return err("C08/user-hangs", "send blocked on credits hangs after termination"),
                }
            }
            if let Some(c) = &conv.client {
                match sim::within(600, c.connect()).await {
                    Ok(Err(_)) => {}
                    Ok(Ok(_)) => return err("C08/user-not-informed", "connect succeeded after termination"),
                    Err(()) => return err("C08/user-hangs", "connect hangs after termination"),
                }
            }
            if let Some(l) = conv.listener.as_mut() {
                let mut n = 0;
                loop {
                    match sim::within(600, l.inspect()).await {
                        Ok(Err(_)) | Ok(Ok(None)) => break,
                        Ok(Ok(Some(req))) => drop(req),
                        Err(()) => return err("C08/user-hangs", "listener hangs after termination"),
                    }
                    n += 1;
                    if n > 10_000 {
                        return err("C08/user-hangs", "listener yields requests forever");
                    }
                }
            }
        } else {
            // Still operating: it must operate correctly. Probe with a fresh port and an echo.
            let flooded = case.evil.iter().any(|e| matches!(e, Evil::OpenFloodNoListener { .. })) && conv.listener.is_none();
            if flooded {
                let q = case.real.connect_queue as usize;
                if st.max_tasks > tasks_before + 4 * q + 64 {
                    return err(
                        "C08/unbounded-requests",
                        format!(
                            "with the local listener dropped, {} live tasks after an OpenPort flood from a peer that does not read (before: {tasks_before}, connect_queue {q}): request limit not enforced",
                            st.max_tasks
                        ),
                    );
                }
            }
            // Drain what the peer has not read (e.g. Rejected answers) so the probe sees its own frames.
            let drain_until = tokio::time::Instant::now() + std::time::Duration::from_millis(5);
            loop {
                let left = drain_until.saturating_duration_since(tokio::time::Instant::now()).as_millis() as u64;
                if left == 0 {
                    break;
                }
                match conv.peer.next_msg(left).await {
                    Ok(rx) => {
                        if let RefMsg::PortCredits { port, credits } = rx.msg {
                            conv.peer.credits_seen.push((port, credits));
                        }
                    }
                    Err(_) => break,
                }
            }
            let _ = conv.absorb_credits();
            let peer_client_finished = case.evil.iter().any(|e| matches!(e, Evil::ClientFinishFlood { .. }))
                || case.evil.iter().any(|e| matches!(e, Evil::Raw(b) if b.first() == Some(&13)));
            let raw_state_change = case.evil.iter().any(|e| match e {
                Evil::Raw(b) => matches!(b.first(), Some(4..=15)),
                Evil::Truncated { .. } | Evil::EmptyPortDataFlood { .. } | Evil::EndlessPortData { .. } | Evil::SamePortTwoWays { .. } => true,
                _ => false,
            });
            if conv.listener.is_some() && !peer_client_finished && !raw_state_change {
                let probe = Act::PeerOpen { port: 900_000, wait: true, id: Some(1), handle: Handle::Accept };
                if let Err((s, m)) = conv.act(&probe).await {
                    return err("C08/not-operating-correctly", format!("endpoint did not terminate, but a fresh port request fails afterwards: {s}: {m}"));
                }
                let idx = conv.ports.len() - 1;
                let sel = (0..=255u8).find(|s| conv.ports.iter().enumerate().filter(|(_, p)| p.rx.is_some() && !p.peer_send_finished).nth(*s as usize % conv.ports.iter().filter(|p| p.rx.is_some() && !p.peer_send_finished).count().max(1)).map(|(i, _)| i) == Some(idx));
                if let Some(sel) = sel {
                    if let Err((s, m)) = conv.act(&Act::PeerSend { port: sel, chunks: vec![3, 2], cancelled_prefix: None }).await {
                        return err("C08/not-operating-correctly", format!("endpoint did not terminate, but data on a fresh port is not delivered: {s}: {m}"));
                    }
                }
                st.probe_done = true;
            }
        }
        Ok(())
    }
    .await;
    // Let local users answer / drop everything they still hold while the runtime is alive, so that
    // panics in remoc's tasks caused by inconsistent state surface in this case.
    if let Some(l) = conv.listener.as_mut() {
        while let Ok(Ok(Some(req))) = sim::within(1, l.inspect()).await {
            drop(req);
        }
    }
    for p in conv.ports.iter_mut() {
        if let Some(rx) = p.rx.as_mut() {
            for _ in 0..64 {
                match sim::within(1, rx.recv_any()).await {
                    Ok(Ok(Some(_))) => {}
                    _ => break,
                }
            }
        }
    }
    conv.ports.clear();
    conv.listener = None;
    conv.client = None;
    tokio::time::sleep(std::time::Duration::from_millis(20)).await;
    let frames = link.tap_len() as u64 / 2;
    (res.err(), st, frames)
}

pub fn run_case(case: &Case) -> Outcome {
    let tape = Tape::new(vec![]);
    let (fail, st, frames) = sim::run_sim(0, &tape, 0, hostile(case));
    let mut out = Outcome::default();
    out.frames = frames;
    if let Some((sig, msg)) = fail {
        out.fail(sig, format!("{msg}; evil = {:?}", case.evil));
    }
    if st.terminated {
        out.class(format!("terminated:{}", st.terminated_with));
    } else {
        out.class("kept-running");
        if st.probe_done {
            out.class("probe-ok");
        }
    }
    for e in &case.evil {
        let name = format!("{e:?}");
        out.class(format!("evil:{}", name.split(|c: char| !c.is_alphanumeric()).next().unwrap_or("")));
    }
    out.nontrivial = st.reached_with_open_port && st.applied >= 1 && (st.terminated || st.probe_done);
    out
}

pub const RULE: &str = "cases = (real Cfg, reference peer cfg/version, valid conversation prefix in C09's script language that always opens a port in each direction, local API state {listener dropped, client dropped, connect pending, send blocked on credits}, 1-3 hostile items out of 24 kinds: raw bytes, truncated messages, wrong-state messages, duplicates, unknown ports/codes, over-chunk, over-credit streams, credit overflow, request floods, oversized port batches); oracles = no panic anywhere (process panic hook), dispatcher either still runs and a fresh request + data echo works, or it ended with an error and every local send/recv/connect/accept/pending future completes with an error within 600 virtual s; over-credit data beyond receive_buffer + one chunk and more than connect_queue unanswered requests must terminate the connection; live tasks stay bounded under a request flood; non-trivial = at least one hostile item actually put frames on the wire while at least one port was open AND the run reached a verdict beyond 'no panic' (the dispatcher terminated and local users were checked, or it kept running and the fresh-request probe was executed); distinct = distinct case hash";

pub fn main(tier: Tier, seed: u64) -> Report {
    let mut rep = Report::new("C08", tier, seed);
    rep.rule = RULE.into();
    rep.assumptions = vec![
        "single hostile connection; the hostile peer is sequential".into(),
        "memory bound is checked through protocol-level ledgers (bytes sent beyond credit, unanswered requests, live task count), not through an allocator".into(),
    ];
    let fuzz_secs: u64 = std::env::var("C08_FUZZ_SECS").ok().and_then(|s| s.parse().ok()).unwrap_or(240);
    if std::env::var("C08_FUZZ_ONLY").is_ok() {
        // Development switch: only the coverage-guided stage.
        libfuzzer_stage(&mut rep, seed, fuzz_secs);
        return rep;
    }
    let regress: Vec<Case> = runner::load_regress::<Case>("C08", "hostile").into_iter().map(|(_, c)| c).collect();
    if !regress.is_empty() {
        runner::run_cases(&mut rep, "regress", regress, run_case);
    }
    runner::run_generated(&mut rep, "hostile", tier.pick(60_000, 400_000), || strategy(tier), run_case);

    // Byte level: frames that are not drawn from the message grammar at all.
    rep.assumptions.push("byte-level parts: the harness completes a valid handshake, then puts generated frames on the transport verbatim; a port field 0xFFFFFF00+k in a frame that decodes as a message is replaced by the k-th port number the real endpoint has announced (its port numbers are random)".into());
    let regress_b: Vec<BytesCase> = runner::load_regress::<BytesCase>("C08", "bytes").into_iter().map(|(_, c)| c).collect();
    let seeds: Vec<BytesCase> = rvh::fuzz_c08::seed_corpus().iter().map(|i| BytesCase::from_input(i)).collect();
    runner::run_cases(&mut rep, "bytes-seeds", regress_b.into_iter().chain(seeds).collect(), run_bytes);
    runner::run_generated(&mut rep, "bytes", tier.pick(10_000, 300_000), bytes_strategy, run_bytes);
    if tier == Tier::Thorough {
        libfuzzer_stage(&mut rep, seed, fuzz_secs);
    }
    rep
}

pub fn replay(part: &str, case: serde_json::Value) -> (Option<runner::Failure>, u32, u32) {
    if part.starts_with("bytes") {
        let c: BytesCase = serde_json::from_value(case).expect("replay case does not parse as C08 bytes case");
        let (f, h) = runner::replay_case(&c, run_bytes, 3);
        return (f, h, 3);
    }
    let c: Case = serde_json::from_value(case).expect("replay case does not parse as C08 case");
    let (f, h) = runner::replay_case(&c, run_case, 3);
    (f, h, 3)
}

// ---------------------------------------------------------------------------------------------
// Byte-level parts (entry function shared with the libFuzzer target: rvh::fuzz_c08::run_input).
// ---------------------------------------------------------------------------------------------

#[derive(Clone, Debug, Serialize, Deserialize)]
pub struct BytesCase {
    pub sel: u8,
    pub beh: u8,
    pub frames: Vec<Vec<u8>>,
}

impl BytesCase {
    pub fn from_input(data: &[u8]) -> Self {
        BytesCase {
            sel: data.first().copied().unwrap_or(0),
            beh: data.get(1).copied().unwrap_or(0),
            frames: rvh::fuzz_c08::frames_of(data).into_iter().map(|f| f.to_vec()).collect(),
        }
    }
    pub fn to_input(&self) -> Vec<u8> {
        rvh::fuzz_c08::encode_input(self.sel, self.beh, &self.frames)
    }
}

fn port_field() -> BoxedStrategy<u32> {
    let sym = rvh::fuzz_c08::SYM;
    prop_oneof![6 => (0u32..4).prop_map(move |k| sym + k), 2 => 0u32..8, 1 => any::<u32>()].boxed()
}

fn msg_strategy() -> BoxedStrategy<RefMsg> {
    prop_oneof![
        2 => (port_field(), any::<bool>(), proptest::option::of(any::<u32>())).prop_map(|(client_port, wait, id)| RefMsg::OpenPort { client_port, wait, id }),
        2 => (port_field(), 0u32..64).prop_map(|(client_port, server_port)| RefMsg::PortOpened { client_port, server_port }),
        1 => (port_field(), any::<bool>()).prop_map(|(client_port, no_ports)| RefMsg::Rejected { client_port, no_ports }),
        4 => (port_field(), any::<bool>(), any::<bool>()).prop_map(|(port, first, last)| RefMsg::Data { port, first, last }),
        3 => (port_field(), any::<bool>(), any::<bool>(), any::<bool>(), proptest::collection::vec(0u32..40, 0..5), any::<bool>())
            .prop_map(|(port, first, last, wait, ports, with_ids)| {
                let ids = if with_ids { Some(ports.iter().map(|p| p + 100).collect()) } else { None };
                RefMsg::PortData { port, first, last, wait, ports, ids }
            }),
        2 => (port_field(), prop_oneof![3 => 0u32..300, 1 => any::<u32>()]).prop_map(|(port, credits)| RefMsg::PortCredits { port, credits }),
        1 => port_field().prop_map(|port| RefMsg::SendFinish { port }),
        1 => port_field().prop_map(|port| RefMsg::ReceiveClose { port }),
        1 => port_field().prop_map(|port| RefMsg::ReceiveFinish { port }),
        1 => Just(RefMsg::Ping),
        1 => prop_oneof![Just(RefMsg::ClientFinish), Just(RefMsg::ListenerFinish), Just(RefMsg::Goodbye), Just(RefMsg::Reset)],
    ]
    .boxed()
}

fn frame_strategy() -> BoxedStrategy<Vec<u8>> {
    prop_oneof![
        // a well-formed message
        24 => msg_strategy().prop_map(|m| m.encode()),
        // a data message followed by its payload frame is two frames; a lone payload-like frame
        3 => proptest::collection::vec(any::<u8>(), 0..70),
        // a message with its tail cut off or bytes appended
        1 => (msg_strategy(), 0usize..12).prop_map(|(m, cut)| {
            let mut e = m.encode();
            let n = e.len().saturating_sub(cut).max(1);
            e.truncate(n);
            e
        }),
        1 => (msg_strategy(), proptest::collection::vec(any::<u8>(), 1..6)).prop_map(|(m, extra)| {
            let mut e = m.encode();
            e.extend(extra);
            e
        }),
        // a message with one byte changed
        1 => (msg_strategy(), any::<u16>(), any::<u8>()).prop_map(|(m, at, v)| {
            let mut e = m.encode();
            let i = at as usize % e.len();
            e[i] = v;
            e
        }),
    ]
    .boxed()
}

pub fn bytes_strategy() -> BoxedStrategy<BytesCase> {
    (any::<u8>(), any::<u8>(), proptest::collection::vec(frame_strategy(), 0..14)).prop_map(|(sel, beh, frames)| BytesCase { sel, beh, frames }).boxed()
}

pub fn run_bytes(case: &BytesCase) -> Outcome {
    let input = case.to_input();
    let o = rvh::fuzz_c08::run_input(&input);
    let mut out = Outcome::default();
    out.frames = o.frames as u64;
    if let Some((sig, msg)) = o.fail {
        out.fail(sig, msg);
    }
    out.class(if o.terminated_by_input { "bytes:terminated-by-input" } else { "bytes:kept-running-until-eof" });
    if o.ports_learned > 0 {
        out.class("bytes:real-ports-learned");
    }
    if o.ports_opened > 0 {
        out.class("bytes:listener-accepted");
    }
    // Non-trivial: frames reached an endpoint that had at least one port open or requested.
    out.nontrivial = o.frames >= 2 && (o.ports_learned > 0 || o.ports_opened > 0);
    out
}

/// Coverage-guided campaign (libFuzzer through cargo-fuzz) on the same entry function. A crash is
/// replayed in process to obtain its signature and a JSON replay file. If the fuzzing toolchain
/// cannot build the target here, the stage is reported as unavailable (it never fails the check).
fn libfuzzer_stage(rep: &mut Report, seed: u64, secs: u64) {
    use std::process::Command;
    let root = runner::verif_root();
    let dir = root.join("target").join("fuzz-c08");
    let corpus = dir.join("corpus");
    let art = dir.join("artifacts");
    let _ = std::fs::remove_dir_all(&dir);
    let _ = std::fs::create_dir_all(&corpus);
    let _ = std::fs::create_dir_all(&art);
    for (i, s) in rvh::fuzz_c08::seed_corpus().iter().enumerate() {
        let _ = std::fs::write(corpus.join(format!("seed-{i:02}")), s);
    }
    let t0 = std::time::Instant::now();
    let jobs = std::env::var("VERIF_THREADS").ok().and_then(|s| s.parse::<u32>().ok()).unwrap_or(16).clamp(1, 16);
    // Build (remoc has no unsafe code outside its js executor, so the target is built without
    // AddressSanitizer: several times the executions for the semantic oracle).
    let build = Command::new("cargo")
        .current_dir(root.join("harness"))
        .env("CARGO_NET_OFFLINE", "true")
        .env("RUSTFLAGS", "--cfg remoc_verif --cfg tokio_unstable")
        .env_remove("CARGO_TARGET_DIR")
        .args(["+nightly", "fuzz", "build", "--sanitizer", "none", "c08_frames"])
        .output();
    let bin = root.join("target").join("x86_64-unknown-linux-gnu").join("release").join("c08_frames");
    let built = matches!(&build, Ok(o) if o.status.success()) && bin.exists();
    if !built {
        let tail = match &build {
            Ok(o) => String::from_utf8_lossy(&o.stderr).lines().rev().take(6).collect::<Vec<_>>().into_iter().rev().collect::<Vec<_>>().join(" | "),
            Err(e) => format!("cargo could not be started: {e}"),
        };
        rep.parts.push(json!({"part": "libfuzzer", "status": "unavailable: the fuzz target did not build here", "tail": tail}));
        rep.assumptions.push("the coverage-guided stage (cargo +nightly fuzz build c08_frames) was unavailable in this run; the byte-level search was done by the in-process generator only".into());
        return;
    }
    let build_s = t0.elapsed().as_secs_f64();
    // Independent workers sharing the corpus directory; each writes fuzz-<n>.log into `dir`.
    let _ = Command::new(&bin)
        .current_dir(&dir)
        .arg(&corpus)
        .arg(format!("-artifact_prefix={}/", art.display()))
        .arg(format!("-max_total_time={secs}"))
        .arg(format!("-seed={}", if seed == 0 { 1 } else { seed & 0x7fff_ffff }))
        .arg(format!("-jobs={jobs}"))
        .arg(format!("-workers={jobs}"))
        .args(["-max_len=1500", "-len_control=0", "-timeout=30", "-rss_limit_mb=4096", "-print_final_stats=1", "-reload=1"])
        .output();
    let mut execs = 0u64;
    let mut cov = 0u64;
    let mut ft = 0u64;
    let mut corp = 0u64;
    if let Ok(rd) = std::fs::read_dir(&dir) {
        for e in rd.filter_map(|e| e.ok()) {
            let name = e.file_name().to_string_lossy().to_string();
            if !(name.starts_with("fuzz-") && name.ends_with(".log")) {
                continue;
            }
            let Ok(text) = std::fs::read_to_string(e.path()) else { continue };
            for l in text.lines() {
                let l = l.trim();
                if let Some(v) = l.strip_prefix("stat::number_of_executed_units:") {
                    execs += v.trim().parse::<u64>().unwrap_or(0);
                }
                if l.starts_with('#') {
                    let toks: Vec<&str> = l.split_whitespace().collect();
                    let val = |key: &str| toks.iter().position(|t| *t == key).and_then(|i| toks.get(i + 1)).and_then(|v| v.split('/').next()).and_then(|v| v.parse::<u64>().ok());
                    if let (Some(c), Some(f)) = (val("cov:"), val("ft:")) {
                        cov = cov.max(c);
                        ft = ft.max(f);
                        corp = corp.max(val("corp:").unwrap_or(0));
                    }
                }
            }
        }
    }
    let crashes: Vec<std::path::PathBuf> = std::fs::read_dir(&art)
        .map(|rd| rd.filter_map(|e| e.ok()).map(|e| e.path()).filter(|p| p.file_name().and_then(|n| n.to_str()).map(|n| n.starts_with("crash-")).unwrap_or(false)).collect())
        .unwrap_or_default();
    if execs == 0 && crashes.is_empty() {
        rep.parts.push(json!({"part": "libfuzzer", "status": "unavailable: the fuzz target did not run here"}));
        rep.assumptions.push("the coverage-guided stage (libFuzzer target c08_frames) did not run in this run; the byte-level search was done by the in-process generator only".into());
        return;
    }
    rep.evaluations += execs;
    rep.parts.push(json!({
        "part": "libfuzzer", "status": "ran", "executions": execs, "edge_coverage": cov, "features": ft, "corpus_units": corp,
        "crash_artifacts": crashes.len(), "wall_s": t0.elapsed().as_secs_f64(), "build_s": build_s, "workers": jobs, "budget_s": secs, "sanitizer": "none",
    }));
    rep.extra.insert("libfuzzer".into(), json!({"executions": execs, "edge_coverage": cov, "features": ft, "corpus_units": corp}));
    for c in crashes.iter().take(4) {
        let Ok(data) = std::fs::read(c) else { continue };
        let case = BytesCase::from_input(&data);
        let (f, _) = runner::replay_case(&case, run_bytes, 2);
        let f = f.unwrap_or_else(|| runner::Failure::new("C08/fuzz/crash-under-sanitizer", format!("libFuzzer reported a crash for this input (artifact {}), the in-process replay without sanitizer holds", c.display())));
        rep.record_failure("bytes", &case, &f);
    }
}
