//! C10 — Every port-open request resolves exactly once and pairs the right ports.

use bytes::Bytes;
use futures::FutureExt;
use proptest::prelude::*;
use serde::{Deserialize, Serialize};
use std::{
    collections::HashMap,
    sync::{Arc, Mutex},
};

use crate::engine::{
    gen::{self, connect_pair, sched, GCfg, Sched},
    runner::{self, Outcome, Report, Tier},
    sim::{self, spawn_actor, tape_pause, CancelAfter, Cancelled, Tape},
    wire,
};
use remoc::chmux::{self, ConnectError, ListenerError, PortReq, Received};

#[derive(Clone, Debug, Serialize, Deserialize, PartialEq, Eq, Hash)]
pub enum HandleHow {
    Accept,
    /// accept_from a pre-allocated port
    AcceptFrom,
    Reject(bool),
    Drop,
    /// keep the request for a later `AnswerHeld`
    Hold,
}

#[derive(Clone, Debug, Serialize, Deserialize, PartialEq, Eq, Hash)]
pub enum Op {
    /// client.connect_ext(Some(port with id), wait); the Connect future is awaited in a task and
    /// dropped after `cancel` polls if still pending.
    Connect { side: u8, wait: bool, cancel: Option<u8> },
    /// client.connect_ext(None, wait) — library allocates the port (id = port number).
    ConnectAuto { side: u8, wait: bool },
    /// Sender::connect over an established pair.
    Batch { side: u8, pair: u8, n: u8, wait: bool },
    /// listener.inspect() then handle.
    Inspect { side: u8, how: HandleHow },
    /// listener.accept(), dropped after `cancel` polls if still pending.
    Accept { side: u8, cancel: Option<u8> },
    AnswerHeld { side: u8, idx: u8, accept: bool },
    ClosePair { idx: u8 },
    DropClient { side: u8 },
    DropListener { side: u8 },
    /// Connect::sent() then data on another port: the request must be visible to the listener.
    SentThenData { side: u8 },
    Pause,
}

#[derive(Clone, Debug, Serialize, Deserialize, PartialEq, Eq, Hash)]
pub struct Case {
    pub cfg_a: GCfg,
    pub cfg_b: GCfg,
    pub sched: Sched,
    pub ops: Vec<Op>,
}

fn gcfg_ports() -> BoxedStrategy<GCfg> {
    (1u32..=6, 1u16..=4, prop_oneof![Just(16u32), Just(4u32), Just(64u32)], prop_oneof![Just(64u32), Just(8u32), Just(5u32)], 1usize..=3)
        .prop_map(|(max_ports, connect_queue, chunk_size, receive_buffer, q)| GCfg {
            chunk_size,
            receive_buffer,
            max_data_size: 4096,
            shared_q: q,
            tsend_q: q,
            trecv_q: q,
            connect_queue,
            max_ports,
            max_received_ports: 16,
            timeout_s: Some(60),
        })
        .boxed()
}

fn cancel() -> BoxedStrategy<Option<u8>> {
    prop_oneof![3 => Just(None), 2 => (1u8..=6).prop_map(Some)].boxed()
}

fn op_strategy() -> BoxedStrategy<Op> {
    let how = prop_oneof![
        4 => Just(HandleHow::Accept),
        1 => Just(HandleHow::AcceptFrom),
        2 => any::<bool>().prop_map(HandleHow::Reject),
        1 => Just(HandleHow::Drop),
        2 => Just(HandleHow::Hold),
    ];
    prop_oneof![
        6 => (0u8..2, any::<bool>(), cancel()).prop_map(|(side, wait, cancel)| Op::Connect { side, wait, cancel }),
        2 => (0u8..2, any::<bool>()).prop_map(|(side, wait)| Op::ConnectAuto { side, wait }),
        2 => (0u8..2, any::<u8>(), 1u8..=3, any::<bool>()).prop_map(|(side, pair, n, wait)| Op::Batch { side, pair, n, wait }),
        6 => (0u8..2, how).prop_map(|(side, how)| Op::Inspect { side, how }),
        3 => (0u8..2, cancel()).prop_map(|(side, cancel)| Op::Accept { side, cancel }),
        2 => (0u8..2, any::<u8>(), any::<bool>()).prop_map(|(side, idx, accept)| Op::AnswerHeld { side, idx, accept }),
        2 => any::<u8>().prop_map(|idx| Op::ClosePair { idx }),
        1 => (0u8..2).prop_map(|side| Op::DropClient { side }),
        1 => (0u8..2).prop_map(|side| Op::DropListener { side }),
        2 => (0u8..2).prop_map(|side| Op::SentThenData { side }),
        1 => Just(Op::Pause),
    ]
    .boxed()
}

pub fn strategy(tier: Tier) -> BoxedStrategy<Case> {
    let n = tier.pick(20, 40);
    (gcfg_ports(), gcfg_ports(), sched(true), proptest::collection::vec(op_strategy(), 1..n))
        .prop_map(|(cfg_a, cfg_b, sched, ops)| Case { cfg_a, cfg_b, sched, ops })
        .boxed()
}

#[derive(Clone, Debug, PartialEq)]
enum Decision {
    Accepted,
    AcceptCancelled,
    Rejected(bool),
    Dropped,
    /// Accept failed on the listener side with this error.
    AcceptFailed(String),
}

#[derive(Clone, Debug)]
enum Outcome1 {
    Ok,
    Err(String),
    Cancelled,
}

#[derive(Default)]
struct Ledger {
    /// id -> (side, wait)
    issued: HashMap<u32, (u8, bool)>,
    decisions: HashMap<u32, Vec<Decision>>,
    outcomes: HashMap<u32, Vec<Outcome1>>,
    /// label checks: id -> (client saw server label, server saw client label)
    labels: HashMap<u32, (Option<bool>, Option<bool>)>,
    errors: Vec<(String, String)>,
    /// issued minus resolved per side (for TooManyPending truthfulness)
    unresolved: [i32; 2],
    classes: Vec<String>,
    /// A listener.accept() on this side was abandoned by the driver's virtual time bound: like a
    /// cancelled accept it may already have accepted a request without a recorded decision.
    accept_abandoned: [bool; 2],
    /// connect_ext calls that have started and not yet returned, per side: such a call may already
    /// hold a request credit without being counted in `unresolved` yet.
    attempting: [i32; 2],
}

type Pair = (chmux::Sender, chmux::Receiver);

/// An established pair kept by the driver: the sending half plus a reader task that drains the
/// receiving half and answers port requests arriving over it.
pub struct Est {
    tx: chmux::Sender,
    reader: tokio::task::JoinHandle<()>,
}

impl Drop for Est {
    fn drop(&mut self) {
        self.reader.abort();
    }
}

type Pairs = Arc<Mutex<Vec<Est>>>;

fn establish(pair: Pair, ledger: Arc<Mutex<Ledger>>, pairs: Pairs) -> Est {
    let (tx, mut rx) = pair;
    let alloc = tx.port_allocator();
    let reader = spawn_actor(async move {
        let mut k = 0u32;
        loop {
            match rx.recv_any().await {
                Ok(Some(Received::Requests(reqs))) => {
                    for req in reqs {
                        k += 1;
                        let how = if k % 3 == 0 { HandleHow::Reject(k % 2 == 0) } else { HandleHow::Accept };
                        handle_req(req, how, ledger.clone(), pairs.clone(), alloc.clone());
                    }
                }
                Ok(Some(Received::Chunks)) => {
                    while let Ok(Some(_)) = rx.recv_chunk().await {}
                }
                Ok(Some(_)) => {}
                Ok(None) => break,
                Err(e) if e.is_final() => break,
                Err(_) => {}
            }
        }
    });
    Est { tx, reader }
}

/// Handles a request on the listener side in a task (accept may wait for a port).
fn handle_req(
    req: chmux::Request, how: HandleHow, ledger: Arc<Mutex<Ledger>>, pairs: Pairs, alloc: chmux::PortAllocator,
) -> tokio::task::JoinHandle<()> {
    spawn_actor(async move {
        let id = req.id();
        match how {
            HandleHow::Accept | HandleHow::AcceptFrom => {
                let r = if how == HandleHow::AcceptFrom {
                    match alloc.try_allocate() {
                        Some(p) => req.accept_from(p).await,
                        None => {
                            req.reject(true).await;
                            ledger.lock().unwrap().decisions.entry(id).or_default().push(Decision::Rejected(true));
                            return;
                        }
                    }
                } else {
                    req.accept().await
                };
                match r {
                    Ok(mut pair) => {
                        ledger.lock().unwrap().decisions.entry(id).or_default().push(Decision::Accepted);
                        let ok = label_exchange(&mut pair, id | 0x8000_0000, id).await;
                        ledger.lock().unwrap().labels.entry(id).or_default().1 = ok;
                        let est = establish(pair, ledger.clone(), pairs.clone());
                        pairs.lock().unwrap().push(est);
                    }
                    Err(e) => {
                        ledger.lock().unwrap().decisions.entry(id).or_default().push(Decision::AcceptFailed(format!("{e}")));
                    }
                }
            }
            HandleHow::Reject(np) => {
                req.reject(np).await;
                ledger.lock().unwrap().decisions.entry(id).or_default().push(Decision::Rejected(np));
            }
            HandleHow::Drop | HandleHow::Hold => {
                drop(req);
                ledger.lock().unwrap().decisions.entry(id).or_default().push(Decision::Dropped);
            }
        }
    })
}

/// Exchanges labels over a fresh pair: sends `mine`, expects `theirs`.
async fn label_exchange(pair: &mut Pair, mine: u32, theirs: u32) -> Option<bool> {
    let (tx, rx) = pair;
    let s = tx.send(Bytes::copy_from_slice(&mine.to_le_bytes())).await;
    let r = sim::within(3000, rx.recv()).await;
    match (s, r) {
        (_, Ok(Ok(Some(buf)))) => {
            let b: Bytes = buf.into();
            Some(b[..] == theirs.to_le_bytes())
        }
        // Other half already gone (cancelled connect): nothing to compare.
        _ => None,
    }
}

struct Side {
    client: Option<chmux::Client>,
    listener: Option<chmux::Listener>,
    held: Vec<chmux::Request>,
    cfg: GCfg,
    listener_dropped_at: Option<usize>,
}

pub struct Run {
    pub fails: Vec<(String, String)>,
    pub classes: Vec<String>,
    pub frames: u64,
    pub concurrent_max: i32,
    pub wire_violation: Option<(String, String)>,
}

pub async fn execute(case: &Case) -> Run {
    let tape = case.sched.tape();
    let mut run = Run { fails: vec![], classes: vec![], frames: 0, concurrent_max: 0, wire_violation: None };
    let (link, a, b) = match connect_pair(&case.cfg_a, &case.cfg_b, &case.sched, vec![]).await {
        Ok(x) => x,
        Err(e) => {
            run.fails.push(("C10/setup".into(), e));
            return run;
        }
    };
    link.set_budget(40_000);
    let gen::Side { client: ca, listener: la, run: run_a } = a;
    let gen::Side { client: cb, listener: lb, run: run_b } = b;
    let mut sides = [
        Side { client: Some(ca), listener: Some(la), held: vec![], cfg: case.cfg_a.clone(), listener_dropped_at: None },
        Side { client: Some(cb), listener: Some(lb), held: vec![], cfg: case.cfg_b.clone(), listener_dropped_at: None },
    ];
    let ledger = Arc::new(Mutex::new(Ledger::default()));
    // Established pairs: (client side pair, server side pair) kept by the driver.
    let pairs: Pairs = Arc::new(Mutex::new(Vec::new()));
    let mut next_id: u32 = 1;
    let mut tasks = Vec::new();
    // Listener-side answer tasks (may wait for a free port): (request id, task).
    let mut ltasks: Vec<(u32, tokio::task::JoinHandle<()>)> = Vec::new();

    let dbg = std::env::var("VERIF_DEBUG").is_ok();
    for (opi, op) in case.ops.iter().enumerate() {
        if dbg {
            eprintln!("[t={} ms frames={}] op {opi}: {op:?}", link.now_ms(), link.tap_len());
        }
        tape_pause(&tape, true).await;
        match op {
            Op::Connect { side, wait, cancel } => {
                let s = *side as usize;
                let Some(client) = sides[s].client.clone() else { continue };
                let Some(port) = client.port_allocator().try_allocate() else {
                    ledger.lock().unwrap().classes.push("local-ports-exhausted".into());
                    continue;
                };
                let id = next_id;
                next_id += 1;
                let req = PortReq::new(port).with_id(id);
                let wait = *wait;
                let cancel = cancel.map(|c| c as u32);
                let ledger2 = ledger.clone();
                let pairs2 = pairs.clone();
                let queue = sides[1 - s].cfg.connect_queue as i32;
                let side = *side;
                // connect_ext itself may wait for a request credit (wait=true): run it in the task.
                tasks.push(spawn_actor(async move {
                    let unresolved_before = {
                        let mut l = ledger2.lock().unwrap();
                        let n = l.unresolved[side as usize] + l.attempting[side as usize];
                        l.attempting[side as usize] += 1;
                        n
                    };
                    let c = match client.connect_ext(Some(req), wait).await {
                        Ok(c) => c,
                        Err(e) => {
                            let mut l = ledger2.lock().unwrap();
                            l.attempting[side as usize] -= 1;
                            match e {
                                ConnectError::TooManyPendingConnectionRequests if !wait => {
                                    l.classes.push("too-many-pending".into());
                                    if unresolved_before < queue {
                                        l.errors.push((
                                            "C10/untrue-reason".into(),
                                            format!("connect_ext(wait=false) refused with TooManyPendingConnectionRequests although only {unresolved_before} requests were unanswered and the peer advertised connect_queue {queue}"),
                                        ));
                                    }
                                }
                                other => l.errors.push(("C10/untrue-reason".into(), format!("connect_ext(id {id}, wait {wait}) failed with {other} on a healthy connection"))),
                            }
                            return;
                        }
                    };
                    {
                        let mut l = ledger2.lock().unwrap();
                        l.issued.insert(id, (side, wait));
                        l.attempting[side as usize] -= 1;
                        l.unresolved[side as usize] += 1;
                    }
                    let res = CancelAfter::new(c, cancel).await;
                    match res {
                        Cancelled::Done(Ok(mut pair)) => {
                            {
                                let mut l = ledger2.lock().unwrap();
                                l.unresolved[side as usize] -= 1;
                                l.outcomes.entry(id).or_default().push(Outcome1::Ok);
                            }
                            let ok = label_exchange(&mut pair, id, id | 0x8000_0000).await;
                            ledger2.lock().unwrap().labels.entry(id).or_default().0 = ok;
                            let est = establish(pair, ledger2.clone(), pairs2.clone());
                            pairs2.lock().unwrap().push(est);
                        }
                        Cancelled::Done(Err(e)) => {
                            let mut l = ledger2.lock().unwrap();
                            l.unresolved[side as usize] -= 1;
                            l.outcomes.entry(id).or_default().push(Outcome1::Err(format!("{e:?}")));
                        }
                        Cancelled::Dropped => {
                            // The credit is released only when the response arrives; stay conservative.
                            let mut l = ledger2.lock().unwrap();
                            l.outcomes.entry(id).or_default().push(Outcome1::Cancelled);
                            l.classes.push("connect-cancelled".into());
                        }
                    }
                }));
            }
            Op::ConnectAuto { side, wait } => {
                let s = *side as usize;
                let Some(client) = sides[s].client.clone() else { continue };
                let wait = *wait;
                let side = *side;
                let ledger2 = ledger.clone();
                let pairs2 = pairs.clone();
                let max_ports = sides[s].cfg.max_ports;
                tasks.push(spawn_actor(async move {
                    let alloc = client.port_allocator();
                    ledger2.lock().unwrap().attempting[side as usize] += 1;
                    let r = client.connect_ext(None, wait).await;
                    {
                        let mut l = ledger2.lock().unwrap();
                        l.attempting[side as usize] -= 1;
                        if r.is_ok() {
                            l.unresolved[side as usize] += 1;
                        }
                    }
                    let r = match r {
                        Ok(c) => {
                            let r = c.await;
                            ledger2.lock().unwrap().unresolved[side as usize] -= 1;
                            Ok(r)
                        }
                        Err(e) => Err(e),
                    };
                    match r {
                        Ok(c) => match c {
                            Ok(pair) => {
                                // The listener handled it under id = client port number.
                                let id = pair.0.local_port();
                                let mut pair = pair;
                                ledger2.lock().unwrap().outcomes.entry(id).or_default().push(Outcome1::Ok);
                                let ok = label_exchange(&mut pair, id, id | 0x8000_0000).await;
                                ledger2.lock().unwrap().labels.entry(id).or_default().0 = ok;
                                let est = establish(pair, ledger2.clone(), pairs2.clone());
                                pairs2.lock().unwrap().push(est);
                            }
                            Err(ConnectError::ChMux) => ledger2
                                .lock()
                                .unwrap()
                                .errors
                                .push(("C10/untrue-reason".into(), "auto connect failed with ChMux on a healthy connection".into())),
                            Err(_) => {}
                        },
                        Err(ConnectError::LocalPortsExhausted) => {
                            let mut l = ledger2.lock().unwrap();
                            l.classes.push("local-ports-exhausted".into());
                            // True reason: no port can be allocated right now.
                            if !wait {
                                if let Some(p) = alloc.try_allocate() {
                                    drop(p);
                                    l.errors.push((
                                        "C10/untrue-reason".into(),
                                        format!("connect_ext(None,false) reported LocalPortsExhausted but a port could be allocated (max_ports {max_ports})"),
                                    ));
                                }
                            } else {
                                l.errors.push(("C10/untrue-reason".into(), "LocalPortsExhausted with wait=true".into()));
                            }
                        }
                        Err(ConnectError::TooManyPendingConnectionRequests) if !wait => {
                            ledger2.lock().unwrap().classes.push("too-many-pending".into());
                        }
                        Err(e) => ledger2.lock().unwrap().errors.push(("C10/untrue-reason".into(), format!("auto connect failed with {e}"))),
                    }
                }));
            }
            Op::Batch { side, pair, n, wait } => {
                let s = *side as usize;
                let Some(client) = sides[s].client.clone() else { continue };
                let pair_opt = {
                    let mut p = pairs.lock().unwrap();
                    if p.is_empty() {
                        None
                    } else {
                        let i = *pair as usize % p.len();
                        Some(p.remove(i))
                    }
                };
                let Some(mut pr) = pair_opt else { continue };
                let _ = s;
                let alloc = client.port_allocator();
                let mut reqs = Vec::new();
                let mut ids = Vec::new();
                for _ in 0..*n {
                    if let Some(p) = alloc.try_allocate() {
                        let id = next_id;
                        next_id += 1;
                        ids.push(id);
                        reqs.push(PortReq::new(p).with_id(id));
                    }
                }
                if reqs.is_empty() {
                    pairs.lock().unwrap().push(pr);
                    continue;
                }
                let wait = *wait;
                let ledger2 = ledger.clone();
                let pairs2 = pairs.clone();
                let side = *side;
                ledger.lock().unwrap().classes.push("batch".into());
                tasks.push(spawn_actor(async move {
                    // Which endpoint receives the batch is decided by which half we hold; the peer of
                    // this pair handles the requests in its own drain task (see below).
                    match sim::within(3000, pr.tx.connect(reqs, wait)).await {
                        Ok(Ok(connects)) => {
                            for id in &ids {
                                ledger2.lock().unwrap().issued.insert(*id, (side, wait));
                            }
                            for (id, c) in ids.into_iter().zip(connects) {
                                let ledger3 = ledger2.clone();
                                let pairs3 = pairs2.clone();
                                spawn_actor(async move {
                                    match c.await {
                                        Ok(mut pair) => {
                                            ledger3.lock().unwrap().outcomes.entry(id).or_default().push(Outcome1::Ok);
                                            let ok = label_exchange(&mut pair, id, id | 0x8000_0000).await;
                                            ledger3.lock().unwrap().labels.entry(id).or_default().0 = ok;
                                            let est = establish(pair, ledger3.clone(), pairs3.clone());
                                            pairs3.lock().unwrap().push(est);
                                        }
                                        Err(e) => {
                                            ledger3.lock().unwrap().outcomes.entry(id).or_default().push(Outcome1::Err(format!("{e:?}")));
                                        }
                                    }
                                });
                            }
                        }
                        Ok(Err(_)) => {
                            // Remote half of this pair already closed: nothing was requested.
                        }
                        Err(()) => ledger2.lock().unwrap().errors.push(("C10/batch-hangs".into(), "Sender::connect did not complete".into())),
                    }
                    pairs2.lock().unwrap().push(pr);
                }));
            }
            Op::Inspect { side, how } => {
                let s = *side as usize;
                let Some(l) = sides[s].listener.as_mut() else { continue };
                match sim::within(5, l.inspect()).await {
                    Ok(Ok(Some(req))) => {
                        if *how == HandleHow::Hold {
                            sides[s].held.push(req);
                        } else {
                            let alloc = l.port_allocator();
                            ltasks.push((req.id(), handle_req(req, how.clone(), ledger.clone(), pairs.clone(), alloc)));
                        }
                    }
                    Ok(Ok(None)) => {}
                    Ok(Err(e)) => run.fails.push(("C10/listener-error".into(), format!("inspect failed on a healthy connection: {e}"))),
                    Err(()) => {}
                }
            }
            Op::Accept { side, cancel } => {
                let s = *side as usize;
                let Some(l) = sides[s].listener.as_mut() else { continue };
                let polls = cancel.map(|c| c as u32);
                // accept() waits for a request; bound it in virtual time.
                let r = sim::within(5, CancelAfter::new(l.accept(), polls)).await;
                match r {
                    Ok(Cancelled::Done(Ok(Some(mut pair)))) => {
                        // Identify the request by the label the client sends first.
                        let ledger2 = ledger.clone();
                        let pairs2 = pairs.clone();
                        tasks.push(spawn_actor(async move {
                            let got = sim::within(3000, pair.1.recv()).await;
                            if let Ok(Ok(Some(buf))) = got {
                                let b: Bytes = buf.into();
                                if b.len() == 4 {
                                    let id = u32::from_le_bytes(b[..].try_into().unwrap());
                                    let _ = pair.0.send(Bytes::copy_from_slice(&(id | 0x8000_0000).to_le_bytes())).await;
                                    let mut l = ledger2.lock().unwrap();
                                    l.decisions.entry(id).or_default().push(Decision::Accepted);
                                    l.labels.entry(id).or_default().1 = Some(true);
                                }
                            }
                            let est = establish(pair, ledger2.clone(), pairs2.clone());
                            pairs2.lock().unwrap().push(est);
                        }));
                    }
                    Ok(Cancelled::Done(Ok(None))) => {}
                    Ok(Cancelled::Done(Err(ListenerError::LocalPortsExhausted))) => {}
                    Ok(Cancelled::Done(Err(e))) => run.fails.push(("C10/listener-error".into(), format!("accept failed on a healthy connection: {e}"))),
                    Ok(Cancelled::Dropped) => ledger.lock().unwrap().classes.push("accept-cancelled".into()),
                    Err(()) => ledger.lock().unwrap().accept_abandoned[s] = true,
                }
            }
            Op::AnswerHeld { side, idx, accept } => {
                let s = *side as usize;
                if sides[s].held.is_empty() {
                    continue;
                }
                let i = *idx as usize % sides[s].held.len();
                let req = sides[s].held.remove(i);
                let Some(l) = sides[s].listener.as_ref() else {
                    drop(req);
                    continue;
                };
                let how = if *accept { HandleHow::Accept } else { HandleHow::Reject(false) };
                ltasks.push((req.id(), handle_req(req, how, ledger.clone(), pairs.clone(), l.port_allocator())));
                ledger.lock().unwrap().classes.push("answered-held".into());
            }
            Op::ClosePair { idx } => {
                let mut p = pairs.lock().unwrap();
                if !p.is_empty() {
                    let i = *idx as usize % p.len();
                    drop(p.remove(i));
                }
            }
            Op::DropClient { side } => {
                sides[*side as usize].client = None;
            }
            Op::DropListener { side } => {
                let s = *side as usize;
                // Held requests are dropped with it (=> rejected).
                for req in sides[s].held.drain(..) {
                    let id = req.id();
                    drop(req);
                    ledger.lock().unwrap().decisions.entry(id).or_default().push(Decision::Dropped);
                }
                if sides[s].listener.take().is_some() {
                    sides[s].listener_dropped_at = Some(opi);
                    ledger.lock().unwrap().classes.push("listener-dropped".into());
                }
            }
            Op::SentThenData { side } => {
                let s = *side as usize;
                let (Some(client), true) = (sides[s].client.clone(), sides[1 - s].listener.is_some()) else { continue };
                // Needs a quiet listener queue and an established data path from s to 1-s.
                // Establish a dedicated pair first.
                let Some(p1) = client.port_allocator().try_allocate() else { continue };
                let idc = next_id;
                next_id += 1;
                let l = sides[1 - s].listener.as_mut().unwrap();
                ledger.lock().unwrap().attempting[s] += 1;
                let connect = client.connect_ext(Some(PortReq::new(p1).with_id(idc)), false).await;
                ledger.lock().unwrap().attempting[s] -= 1;
                let connect = match connect {
                    Ok(c) => c,
                    Err(_) => continue,
                };
                // Counted as unanswered from now on (never decremented if we bail out: conservative).
                ledger.lock().unwrap().unresolved[s] += 1;
                let lres = sim::within(3000, async {
                    loop {
                        match l.inspect().await {
                            Ok(Some(req)) if req.id() == idc => break Some(req),
                            Ok(Some(other)) => {
                                let oid = other.id();
                                drop(other);
                                ledger.lock().unwrap().decisions.entry(oid).or_default().push(Decision::Dropped);
                            }
                            _ => break None,
                        }
                    }
                })
                .await;
                if dbg { eprintln!("  [t={}] std: inspected", link.now_ms()); }
                let Ok(Some(req)) = lres else { continue };
                let Ok(Ok(srv)) = sim::within(3000, req.accept()).await else { continue };
                if dbg { eprintln!("  [t={}] std: accepted", link.now_ms()); }
                let Ok(Ok(mut cli)) = sim::within(3000, connect).await else { continue };
                ledger.lock().unwrap().unresolved[s] -= 1;
                if dbg { eprintln!("  [t={}] std: connected", link.now_ms()); }
                let mut srv = srv;
                // Now: a new request, sent(), then data on the established port.
                let Some(p2) = client.port_allocator().try_allocate() else { continue };
                let id2 = next_id;
                next_id += 1;
                ledger.lock().unwrap().attempting[s] += 1;
                let c2 = client.connect_ext(Some(PortReq::new(p2).with_id(id2)), false).await;
                ledger.lock().unwrap().attempting[s] -= 1;
                let Ok(mut c2) = c2 else { continue };
                {
                    let mut l = ledger.lock().unwrap();
                    l.issued.insert(id2, (*side, false));
                    l.unresolved[s] += 1;
                }
                if dbg { eprintln!("  [t={}] std: c2 issued", link.now_ms()); }
                if sim::within(3000, c2.sent()).await.is_err() {
                    run.fails.push(("C10/sent-hangs".into(), "Connect::sent() did not return".into()));
                    continue;
                }
                if dbg { eprintln!("  [t={}] std: c2 sent", link.now_ms()); }
                // One byte: fits every receive buffer, so the send cannot wait for the reader.
                match sim::within(3000, cli.0.send(Bytes::from_static(b"m"))).await {
                    Ok(Ok(())) => {}
                    _ => continue,
                }
                match sim::within(3000, srv.1.recv()).await {
                    Ok(Ok(Some(_))) => {}
                    _ => continue,
                }
                // The data has arrived: the request must be available *now*.
                let l = sides[1 - s].listener.as_mut().unwrap();
                let mut found = false;
                let mut seen = Vec::new();
                loop {
                    match l.inspect().now_or_never() {
                        Some(Ok(Some(req))) => {
                            let rid = req.id();
                            seen.push(rid);
                            if rid == id2 {
                                found = true;
                                ltasks.push((rid, handle_req(req, HandleHow::Reject(false), ledger.clone(), pairs.clone(), l.port_allocator())));
                                break;
                            } else {
                                drop(req);
                                ledger.lock().unwrap().decisions.entry(rid).or_default().push(Decision::Dropped);
                            }
                        }
                        _ => break,
                    }
                }
                if !found {
                    run.fails.push((
                        "C10/sent-not-visible".into(),
                        format!("Connect::sent() returned for request {id2}, data sent afterwards on another port has arrived, but the remote listener does not have the request (saw {seen:?})"),
                    ));
                }
                ledger.lock().unwrap().classes.push("sent-then-data".into());
                let ledger2 = ledger.clone();
                tasks.push(spawn_actor(async move {
                    let r = c2.await;
                    ledger2.lock().unwrap().unresolved[s] -= 1;
                    ledger2.lock().unwrap().outcomes.entry(id2).or_default().push(match r {
                        Ok(_) => Outcome1::Ok,
                        Err(e) => Outcome1::Err(format!("{e:?}")),
                    });
                }));
                drop(cli);
                drop(srv);
            }
            Op::Pause => tokio::time::sleep(std::time::Duration::from_secs(1)).await,
        }
        let l = ledger.lock().unwrap();
        run.concurrent_max = run.concurrent_max.max(l.unresolved[0]).max(l.unresolved[1]);
    }

    if dbg {
        eprintln!("[t={} ms frames={}] drain phase", link.now_ms(), link.tap_len());
    }
    // Drain phase: free ports, answer everything that is still queued, then drop listeners.
    for round in 0..200 {
        pairs.lock().unwrap().clear();
        for s in 0..2 {
            for req in sides[s].held.drain(..) {
                let id = req.id();
                drop(req);
                ledger.lock().unwrap().decisions.entry(id).or_default().push(Decision::Dropped);
            }
            if let Some(l) = sides[s].listener.as_mut() {
                while let Ok(Ok(Some(req))) = sim::within(1, l.inspect()).await {
                    let alloc = l.port_allocator();
                    ltasks.push((req.id(), handle_req(req, HandleHow::Reject(false), ledger.clone(), pairs.clone(), alloc)));
                }
            }
        }
        tokio::time::sleep(std::time::Duration::from_secs(2)).await;
        if round >= 3 {
            // Answer tasks that still wait (e.g. for a local port in a circular wait between the two
            // endpoints) are abandoned: their requests are dropped, which rejects them - unless the
            // acceptance was already on its way.
            for (id, t) in &ltasks {
                if !t.is_finished() {
                    t.abort();
                    ledger.lock().unwrap().decisions.entry(*id).or_default().push(Decision::AcceptCancelled);
                }
            }
        }
        let all_done = tasks.iter().all(|t| t.is_finished()) && ltasks.iter().all(|(_, t)| t.is_finished());
        if all_done && round > 2 {
            break;
        }
    }
    for s in 0..2 {
        sides[s].listener = None;
        sides[s].client = None;
    }
    pairs.lock().unwrap().clear();
    if dbg {
        eprintln!("[t={} ms frames={}] join phase", link.now_ms(), link.tap_len());
    }
    let deadline = case.sched.deadline_s(1_000, gen::delay_cap_ms(&case.cfg_a, &case.cfg_b));
    let mut hung = 0;
    let until = tokio::time::Instant::now() + std::time::Duration::from_secs(deadline);
    for t in tasks {
        if tokio::time::timeout_at(until, t).await.is_err() {
            hung += 1;
        }
    }
    pairs.lock().unwrap().clear();
    if hung > 0 {
        let l = ledger.lock().unwrap();
        let unresolved: Vec<u32> = l.issued.keys().filter(|id| !l.outcomes.contains_key(id)).copied().collect();
        run.fails.push((
            "C10/unresolved".into(),
            format!("{hung} request tasks still pending after everything was answered or dropped; requests without outcome: {unresolved:?}"),
        ));
    }
    for (i, r) in [run_a, run_b].into_iter().enumerate() {
        match sim::within(600, r).await {
            Ok(Ok(Ok(()))) => {}
            Ok(Ok(Err(e))) => run.fails.push(("C10/dispatcher-error".into(), format!("dispatcher {i} failed: {e}"))),
            Ok(Err(e)) => run.fails.push(("C10/dispatcher-error".into(), format!("dispatcher {i} panicked: {e}"))),
            Err(()) => {
                // Orderly termination is C07's subject; not asserted here.
            }
        }
    }

    // Ledger evaluation.
    let l = ledger.lock().unwrap();
    run.fails.extend(l.errors.iter().cloned());
    run.classes = l.classes.clone();
    for (id, (side, wait)) in &l.issued {
        // Listener::accept rejects a no-wait request itself (no_ports) when no local port is free.
        let internal_no_ports_possible =
            !*wait && case.ops.iter().any(|o| matches!(o, Op::Accept { side: s2, .. } if *s2 == 1 - *side));
        let outs = l.outcomes.get(id).cloned().unwrap_or_default();
        let decs = l.decisions.get(id).cloned().unwrap_or_default();
        if outs.len() > 1 {
            run.fails.push(("C10/resolved-twice".into(), format!("request {id} has outcomes {outs:?}")));
        }
        if decs.iter().filter(|d| **d == Decision::Accepted).count() > 1 {
            run.fails.push(("C10/accepted-twice".into(), format!("request {id} was delivered to the listener more than once: {decs:?}")));
        }
        let Some(out) = outs.first() else {
            continue; // reported as unresolved above if its task hung
        };
        let accepted = decs.contains(&Decision::Accepted);
        let maybe_accepted = decs.contains(&Decision::AcceptCancelled);
        match out {
            Outcome1::Ok => {
                // A listener.accept() future dropped after it had accepted the request leaves an
                // accepted request without a recorded decision.
                let cancelled_accept_possible = l.accept_abandoned[1 - *side as usize]
                    || case.ops.iter().any(|o| matches!(o, Op::Accept { side: s2, cancel: Some(_) } if *s2 == 1 - *side));
                if !accepted && !cancelled_accept_possible && !maybe_accepted {
                    run.fails.push(("C10/ok-without-accept".into(), format!("request {id} resolved Ok but the listener decided {decs:?}")));
                }
            }
            Outcome1::Err(e) => {
                let reason_ok = if accepted {
                    false
                } else if maybe_accepted {
                    e == "Rejected" || e == "RemotePortsExhausted"
                } else if decs.iter().any(|d| matches!(d, Decision::Rejected(true))) {
                    e == "RemotePortsExhausted"
                } else if decs.iter().any(|d| matches!(d, Decision::AcceptFailed(_))) {
                    e == "RemotePortsExhausted" || e == "Rejected"
                } else {
                    // rejected(false), dropped, listener gone, never seen by a listener
                    e == "Rejected" || (decs.is_empty() && internal_no_ports_possible && e == "RemotePortsExhausted")
                };
                if accepted {
                    run.fails.push(("C10/err-despite-accept".into(), format!("request {id} was accepted by the listener but resolved {e}")));
                } else if !reason_ok {
                    run.fails.push(("C10/untrue-reason".into(), format!("request {id}: listener decided {decs:?}, requester got {e}")));
                }
            }
            Outcome1::Cancelled => {}
        }
        if let Some((c, s)) = l.labels.get(id) {
            if *c == Some(false) || *s == Some(false) {
                run.fails.push(("C10/cross-wired".into(), format!("request {id}: label exchange saw a foreign label (client ok {c:?}, server ok {s:?})")));
            }
        }
    }
    drop(l);
    let tap = link.tap();
    run.frames = tap.len() as u64 / 2;
    let st = wire::analyze(&tap);
    if link.budget_exceeded() {
        let mut kinds: Vec<(&str, u64)> = st.kinds.iter().map(|(k, v)| (*k, *v)).collect();
        kinds.sort();
        run.fails.insert(0, ("C10/frames-forever".into(), format!("more than 40000 frames on the wire for a script of {} ops: {kinds:?}", case.ops.len())));
    }
    if let Some(v) = st.violations.iter().find(|v| v.sig.contains("connect-queue") || v.sig.contains("without-request")) {
        run.wire_violation = Some((format!("C10/{}", v.sig), v.msg.clone()));
    }
    run
}

pub fn run_case(case: &Case) -> Outcome {
    let tape = case.sched.tape();
    let res = sim::run_sim(case.sched.tokio_seed, &tape, case.sched.defer, execute(case));
    let mut out = Outcome::default();
    out.frames = res.frames;
    if let Some((s, m)) = res.fails.first() {
        out.fail(s.clone(), m.clone());
    }
    if let Some((s, m)) = res.wire_violation {
        out.fail(s, m);
    }
    let mut special = false;
    for c in &res.classes {
        if ["local-ports-exhausted", "too-many-pending", "connect-cancelled", "accept-cancelled", "listener-dropped"].contains(&c.as_str()) {
            special = true;
        }
        out.class(c.clone());
    }
    if case.ops.iter().any(|o| matches!(o, Op::Inspect { how: HandleHow::Drop, .. })) {
        special = true;
    }
    out.nontrivial = res.concurrent_max >= 2 && special;
    if res.concurrent_max >= 2 {
        out.class("concurrent>=2");
    }
    out
}

pub const RULE: &str = "cases = (Cfg pair with max_ports 1..6 and connect_queue 1..4, schedule, script of up to 40 ops on both sides: connect_ext with explicit ids and wait/no-wait, auto-port connects, Sender::connect batches, inspect + accept/accept_from/reject/drop/hold, listener.accept with cancel points, answering held requests, closing pairs, dropping clients/listeners, Connect::sent() followed by data on another port); oracle = request ledger keyed by the id carried in the request: one outcome per request, Ok iff the listener accepted it, error reason equals what the listener did (Rejected / RemotePortsExhausted / LocalPortsExhausted / TooManyPending only when truly so, never ChMux), accepted pairs exchange their own labels both ways, wire monitor OpenPort-minus-answers <= advertised connect_queue, sent() implies visibility at the listener when later data arrives, all requests resolve once everything is answered or dropped; non-trivial = at least 2 requests outstanding concurrently AND one of {port exhaustion, queue exhaustion, cancelled connect/accept, dropped request, listener dropped}; distinct = distinct case hash";

pub fn main(tier: Tier, seed: u64) -> Report {
    let mut rep = Report::new("C10", tier, seed);
    rep.rule = RULE.into();
    rep.assumptions = vec![
        "healthy transport (no faults); 'connection lost' reasons are exercised by C06".into(),
        "single-threaded deterministic simulation; task-level interleavings only".into(),
    ];
    let regress: Vec<Case> = runner::load_regress::<Case>("C10", "gen").into_iter().map(|(_, c)| c).collect();
    if !regress.is_empty() {
        runner::run_cases(&mut rep, "regress", regress, run_case);
    }
    runner::run_generated(&mut rep, "gen", tier.pick(60_000, 200_000), || strategy(tier), run_case);
    rep
}

pub fn replay(_part: &str, case: serde_json::Value) -> (Option<runner::Failure>, u32, u32) {
    let c: Case = serde_json::from_value(case).expect("replay case does not parse as C10 case");
    let (f, h) = runner::replay_case(&c, run_case, 3);
    (f, h, 3)
}
