//! C17 — Remote read/write lock: exclusion, latest-committed reads, no deadlock.

use proptest::prelude::*;
use serde::{Deserialize, Serialize};
use std::sync::{
    atomic::{AtomicI64, AtomicU64, Ordering},
    Arc, Mutex,
};

use crate::engine::{
    gen::{sched, Sched},
    runner::{self, Outcome, Report, Tier},
    sim::{self, spawn_actor, Tape},
    typed::{move_a_to_b, typed_cfg, typed_conn},
};
use remoc::robj::rw_lock::{Owner, RwLock};

#[derive(Clone, Debug, Serialize, Deserialize, PartialEq, Eq, Hash)]
pub enum Op {
    /// Acquire a read guard, hold it for `hold` pause units.
    Read { hold: u8 },
    /// Acquire a write guard, set a fresh unique value, hold, then commit or drop.
    Write { commit: bool, hold: u8 },
    Pause { n: u8 },
}

#[derive(Clone, Debug, Serialize, Deserialize, PartialEq, Eq, Hash)]
pub struct Actor {
    /// true: runs on the remote endpoint B.
    pub remote: bool,
    /// Shares the lock instance (and thus the value cache) with the previous actor on the same
    /// endpoint instead of using its own instance.
    pub share_cache: bool,
    pub ops: Vec<Op>,
}

#[derive(Clone, Debug, Serialize, Deserialize, PartialEq, Eq, Hash)]
pub struct Case {
    pub sched: Sched,
    pub actors: Vec<Actor>,
    pub chunk: u32,
    pub buffer: u32,
}

fn op_strategy() -> BoxedStrategy<Op> {
    prop_oneof![
        5 => (0u8..=3).prop_map(|hold| Op::Read { hold }),
        3 => (any::<bool>(), 0u8..=3).prop_map(|(commit, hold)| Op::Write { commit, hold }),
        1 => (1u8..=3).prop_map(|n| Op::Pause { n }),
    ]
    .boxed()
}

pub fn strategy(tier: Tier) -> BoxedStrategy<Case> {
    let n = tier.pick(8, 14);
    let actor = (any::<bool>(), any::<bool>(), proptest::collection::vec(op_strategy(), 1..n))
        .prop_map(|(remote, share_cache, ops)| Actor { remote, share_cache, ops });
    (
        sched(true),
        proptest::collection::vec(actor, 2..=6),
        prop_oneof![Just(64u32), Just(16u32), Just(1024u32)],
        prop_oneof![Just(256u32), Just(64u32), Just(4096u32)],
    )
        .prop_map(|(mut sched, actors, chunk, buffer)| {
            // Deferral of remoc's own tasks is what makes the interesting interleavings reachable.
            if sched.defer == 0 && !sched.tape.is_empty() && sched.tokio_seed % 3 != 0 {
                sched.defer = 64;
            }
            Case { sched, actors, chunk, buffer }
        })
        .boxed()
}

#[derive(Clone, Debug)]
enum Ev {
    ReadStart { actor: usize, t: u64 },
    ReadAcquired { actor: usize, t: u64, value: u64 },
    ReadReleased { actor: usize, t: u64 },
    ReadFailed { actor: usize, err: String },
    WriteStart { actor: usize, t: u64 },
    WriteAcquired { actor: usize, t: u64, seen: u64, new: u64 },
    WriteCommitted { actor: usize, t: u64, new: u64 },
    WriteDropped { actor: usize, t: u64, new: u64 },
    WriteFailed { actor: usize, err: String },
}

struct Shared {
    clock: AtomicU64,
    next_value: AtomicU64,
    readers: AtomicI64,
    writers: AtomicI64,
    log: Mutex<Vec<Ev>>,
    violations: Mutex<Vec<(String, String)>>,
    max_readers_during_write_wait: AtomicI64,
}

impl Shared {
    fn tick(&self) -> u64 {
        self.clock.fetch_add(1, Ordering::SeqCst)
    }
}

async fn pause(tape: &Tape, units: u8) {
    for _ in 0..units {
        let b = tape.next();
        if b % 3 == 0 {
            tokio::time::sleep(std::time::Duration::from_millis(1 + (b as u64 % 50))).await;
        } else {
            sim::ticks(1 + (b as u32 % 4)).await;
        }
    }
}

async fn actor_task(idx: usize, lock: RwLock<u64>, ops: Vec<Op>, sh: Arc<Shared>, tape: Tape) {
    for op in ops {
        match op {
            Op::Pause { n } => pause(&tape, n).await,
            Op::Read { hold } => {
                let t0 = sh.tick();
                sh.log.lock().unwrap().push(Ev::ReadStart { actor: idx, t: t0 });
                match lock.read().await {
                    Ok(g) => {
                        let t = sh.tick();
                        let w = sh.writers.load(Ordering::SeqCst);
                        sh.readers.fetch_add(1, Ordering::SeqCst);
                        if w > 0 {
                            sh.violations.lock().unwrap().push((
                                "C17/read-during-write".into(),
                                format!("actor {idx} obtained a read guard (value {}) while {w} write guard(s) are held", *g),
                            ));
                        }
                        sh.log.lock().unwrap().push(Ev::ReadAcquired { actor: idx, t, value: *g });
                        pause(&tape, hold).await;
                        let v2 = *g;
                        sh.readers.fetch_sub(1, Ordering::SeqCst);
                        let t = sh.tick();
                        drop(g);
                        sh.log.lock().unwrap().push(Ev::ReadReleased { actor: idx, t });
                        let _ = v2;
                    }
                    Err(e) => sh.log.lock().unwrap().push(Ev::ReadFailed { actor: idx, err: format!("{e}") }),
                }
            }
            Op::Write { commit, hold } => {
                let t0 = sh.tick();
                sh.log.lock().unwrap().push(Ev::WriteStart { actor: idx, t: t0 });
                match lock.write().await {
                    Ok(mut g) => {
                        let t = sh.tick();
                        let r = sh.readers.load(Ordering::SeqCst);
                        let w = sh.writers.fetch_add(1, Ordering::SeqCst);
                        if r > 0 || w > 0 {
                            sh.violations.lock().unwrap().push((
                                "C17/write-not-exclusive".into(),
                                format!("actor {idx} obtained a write guard while {r} read guard(s) and {w} other write guard(s) are held"),
                            ));
                        }
                        let seen = *g;
                        let new = sh.next_value.fetch_add(1, Ordering::SeqCst);
                        *g = new;
                        sh.log.lock().unwrap().push(Ev::WriteAcquired { actor: idx, t, seen, new });
                        pause(&tape, hold).await;
                        if commit {
                            // commit() consumes the guard: from the moment the owner has stored the new
                            // value it may serve the next request, before the confirmation reaches us.
                            sh.writers.fetch_sub(1, Ordering::SeqCst);
                            let res = g.commit().await;
                            let t = sh.tick();
                            match res {
                                Ok(()) => sh.log.lock().unwrap().push(Ev::WriteCommitted { actor: idx, t, new }),
                                Err(e) => sh.log.lock().unwrap().push(Ev::WriteFailed { actor: idx, err: format!("commit: {e}") }),
                            }
                        } else {
                            sh.writers.fetch_sub(1, Ordering::SeqCst);
                            let t = sh.tick();
                            drop(g);
                            sh.log.lock().unwrap().push(Ev::WriteDropped { actor: idx, t, new });
                        }
                    }
                    Err(e) => sh.log.lock().unwrap().push(Ev::WriteFailed { actor: idx, err: format!("{e}") }),
                }
            }
        }
    }
}

pub struct RunOut {
    pub fails: Vec<(String, String)>,
    pub overlap: bool,
    pub remote_used: bool,
    pub frames: u64,
}

pub async fn execute(case: &Case) -> RunOut {
    let mut out = RunOut { fails: vec![], overlap: false, remote_used: false, frames: 0 };
    let tape = case.sched.tape();
    let cfg = typed_cfg(case.chunk, case.buffer);
    let mut conn = match typed_conn::<RwLock<u64>>(&cfg, &cfg, &case.sched, vec![]).await {
        Ok(c) => c,
        Err(e) => {
            out.fails.push(("C17/setup".into(), e));
            return out;
        }
    };
    let owner = Owner::new(0u64);
    let sh = Arc::new(Shared {
        clock: AtomicU64::new(1),
        next_value: AtomicU64::new(1),
        readers: AtomicI64::new(0),
        writers: AtomicI64::new(0),
        log: Mutex::new(Vec::new()),
        violations: Mutex::new(Vec::new()),
        max_readers_during_write_wait: AtomicI64::new(0),
    });
    // Lock instances.
    let mut last_local: Option<RwLock<u64>> = None;
    let mut last_remote: Option<RwLock<u64>> = None;
    let mut handles = Vec::new();
    for (i, a) in case.actors.iter().enumerate() {
        let lock = if a.remote {
            out.remote_used = true;
            match (&last_remote, a.share_cache) {
                (Some(l), true) => l.clone(),
                _ => match move_a_to_b(&mut conn, owner.rw_lock()).await {
                    Ok(l) => {
                        last_remote = Some(l.clone());
                        l
                    }
                    Err(e) => {
                        out.fails.push(("C17/setup".into(), e));
                        return out;
                    }
                },
            }
        } else {
            match (&last_local, a.share_cache) {
                (Some(l), true) => l.clone(),
                _ => {
                    let l = owner.rw_lock();
                    last_local = Some(l.clone());
                    l
                }
            }
        };
        handles.push(spawn_actor(actor_task(i, lock, a.ops.clone(), sh.clone(), tape.clone())));
    }
    drop(last_local);
    drop(last_remote);
    let total_ops: usize = case.actors.iter().map(|a| a.ops.len()).sum();
    let deadline = case.sched.deadline_s(400 * total_ops as u64 + 2000, crate::engine::gen::delay_cap_ms(&cfg, &cfg));
    let until = tokio::time::Instant::now() + std::time::Duration::from_secs(deadline);
    let mut hung = Vec::new();
    for (i, h) in handles.into_iter().enumerate() {
        match tokio::time::timeout_at(until, h).await {
            Ok(Ok(())) => {}
            Ok(Err(e)) => out.fails.push(("C17/actor-panicked".into(), format!("actor {i}: {e}"))),
            Err(_) => hung.push(i),
        }
    }
    let log = sh.log.lock().unwrap().clone();
    if !hung.is_empty() {
        let pending: Vec<String> = hung
            .iter()
            .map(|i| {
                let last = log.iter().rev().find(|e| match e {
                    Ev::ReadStart { actor, .. }
                    | Ev::ReadAcquired { actor, .. }
                    | Ev::ReadReleased { actor, .. }
                    | Ev::WriteStart { actor, .. }
                    | Ev::WriteAcquired { actor, .. }
                    | Ev::WriteCommitted { actor, .. }
                    | Ev::WriteDropped { actor, .. }
                    | Ev::ReadFailed { actor, .. }
                    | Ev::WriteFailed { actor, .. } => actor == i,
                });
                format!("actor {i} (remote={}) last event {:?}", case.actors[*i].remote, last)
            })
            .collect();
        out.fails.push((
            "C17/deadlock".into(),
            format!(
                "requests still pending after {deadline} virtual s although every guard is released after a bounded hold time: {pending:?}; guards currently held: {} read, {} write",
                sh.readers.load(Ordering::SeqCst),
                sh.writers.load(Ordering::SeqCst)
            ),
        ));
    }
    out.fails.extend(sh.violations.lock().unwrap().iter().cloned());
    for e in &log {
        match e {
            Ev::ReadFailed { actor, err } | Ev::WriteFailed { actor, err } => {
                out.fails.push(("C17/request-failed".into(), format!("actor {actor}: lock request failed on a healthy connection with a live owner: {err}")))
            }
            _ => {}
        }
    }
    // Value oracle. Commits are totally ordered by their (exclusive) write guards; values increase.
    // committed: (value, t_acquired, t_committed)
    let mut commits: Vec<(u64, u64, u64)> = vec![(0, 0, 0)];
    let mut dropped: Vec<u64> = Vec::new();
    let mut acquired_at: std::collections::HashMap<u64, u64> = Default::default();
    for e in &log {
        match e {
            Ev::WriteAcquired { t, new, .. } => {
                acquired_at.insert(*new, *t);
            }
            Ev::WriteCommitted { t, new, .. } => commits.push((*new, acquired_at.get(new).copied().unwrap_or(0), *t)),
            Ev::WriteDropped { new, .. } => dropped.push(*new),
            _ => {}
        }
    }
    // A write guard must see the latest committed value as well.
    let mut read_starts: std::collections::HashMap<usize, u64> = Default::default();
    let mut readers_now = 0i64;
    let mut max_conc_readers = 0i64;
    for e in &log {
        match e {
            Ev::ReadStart { actor, t } => {
                read_starts.insert(*actor, *t);
            }
            Ev::ReadAcquired { actor, t, value } => {
                readers_now += 1;
                max_conc_readers = max_conc_readers.max(readers_now);
                let t0 = read_starts.get(actor).copied().unwrap_or(0);
                if dropped.contains(value) {
                    out.fails.push(("C17/dropped-write-visible".into(), format!("actor {actor} read value {value}, which was written under a write guard that was dropped without commit")));
                } else if !commits.iter().any(|(v, _, _)| v == value) {
                    // may be a commit still in flight: value of a write acquired before the read ended
                    let in_flight = acquired_at.get(value).map(|ta| ta < t).unwrap_or(false);
                    if !in_flight {
                        out.fails.push(("C17/unknown-value".into(), format!("actor {actor} read value {value}, which was never written")));
                    }
                } else {
                    // No commit that completed before the read started may be newer than the value.
                    let newest_before = commits.iter().filter(|(_, _, tc)| *tc < t0).map(|(v, _, _)| *v).max().unwrap_or(0);
                    if *value < newest_before {
                        out.fails.push((
                            "C17/stale-read".into(),
                            format!("actor {actor} read value {value} (request started at t={t0}, guard at t={t}) although value {newest_before} had been committed before the request started"),
                        ));
                    }
                }
            }
            Ev::ReadReleased { .. } => readers_now -= 1,
            Ev::WriteAcquired { actor, t, seen, .. } => {
                let t0 = *t;
                let newest_before = commits.iter().filter(|(_, _, tc)| *tc < t0).map(|(v, _, _)| *v).max().unwrap_or(0);
                if *seen != newest_before && !dropped.contains(seen) {
                    // writes are exclusive, so a writer sees exactly the last committed value
                    if *seen < newest_before {
                        out.fails.push(("C17/lost-commit".into(), format!("actor {actor} obtained a write guard showing {seen} although {newest_before} had been committed before")));
                    }
                }
                if dropped.contains(seen) {
                    out.fails.push(("C17/dropped-write-visible".into(), format!("actor {actor}'s write guard shows value {seen} from a dropped write guard")));
                }
            }
            _ => {}
        }
    }
    // Final value.
    drop(conn);
    if hung.is_empty() {
        match sim::within(600, owner.into_inner()).await {
            Ok(v) => {
                let last = commits.iter().map(|(v, _, _)| *v).max().unwrap_or(0);
                if v != last {
                    out.fails.push(("C17/final-value".into(), format!("Owner::into_inner() gives {v}, last committed value is {last}")));
                }
            }
            Err(()) => out.fails.push(("C17/into-inner-hangs".into(), "Owner::into_inner() does not return".into())),
        }
    }
    // Non-trivial: a write request overlapped with >= 2 concurrently held read guards sharing a cache, approximated
    // by: at some point >= 2 read guards were held and a write was requested before they were released.
    let mut rn = 0;
    let mut overlap = false;
    for e in &log {
        match e {
            Ev::ReadAcquired { .. } => rn += 1,
            Ev::ReadReleased { .. } => rn -= 1,
            Ev::WriteStart { .. } if rn >= 2 => overlap = true,
            _ => {}
        }
    }
    out.overlap = overlap;
    let _ = max_conc_readers;
    out
}

pub fn run_case(case: &Case) -> Outcome {
    let tape = case.sched.tape();
    let res = sim::run_sim(case.sched.tokio_seed, &tape, case.sched.defer, execute(case));
    let mut out = Outcome::default();
    out.frames = res.frames;
    if let Some((s, m)) = res.fails.first() {
        out.fail(s.clone(), m.clone());
    }
    if res.remote_used {
        out.class("remote-lock-holders");
    }
    if case.actors.iter().any(|a| a.share_cache) {
        out.class("shared-cache");
    }
    if case.sched.defer > 0 {
        out.class("deferred-task-schedule");
    }
    if res.overlap {
        out.class("write-requested-under->=2-readers");
    }
    out.nontrivial = res.overlap;
    out
}

pub const RULE: &str = "cases = (schedule incl. deferral of remoc's internal tasks, 2-6 actors on the owner's endpoint or a remote endpoint, each with its own lock instance or sharing the instance (value cache) of the previous actor on that endpoint, scripts of read (hold 0-3 pause units) / write (fresh unique value, commit or drop) / pause); oracle over the timed history on one logical clock: a write guard is obtained only while no other guard is held, a read guard only while no write guard is held (counters at acquisition), every read value was committed, is not from a dropped guard, and is not older than a commit that completed before the read was requested, a write guard shows the last committed value, Owner::into_inner equals the last commit, all requests complete by the virtual deadline (guards are always released); non-trivial = a write was requested while >= 2 read guards were held; distinct = distinct case hash";

pub fn main(tier: Tier, seed: u64) -> Report {
    let mut rep = Report::new("C17", tier, seed);
    rep.rule = RULE.into();
    rep.assumptions = vec![
        "single-threaded deterministic simulation with poll deferral of remoc's own tasks (hook H1); exclusion is checked at harness-visible acquisition instants".into(),
        "loss of a lock holder's connection is not generated in this check (C06 covers connection loss for the channel types the lock is built from)".into(),
    ];
    let regress: Vec<Case> = runner::load_regress::<Case>("C17", "gen").into_iter().map(|(_, c)| c).collect();
    if !regress.is_empty() {
        runner::run_cases(&mut rep, "regress", regress, run_case);
    }
    runner::run_generated(&mut rep, "gen", tier.pick(16_000, 150_000), || strategy(tier), run_case);
    rep
}

pub fn replay(_part: &str, case: serde_json::Value) -> (Option<runner::Failure>, u32, u32) {
    let c: Case = serde_json::from_value(case).expect("replay case does not parse as C17 case");
    let n = runner::replay_times(3);
    let (f, h) = runner::replay_case(&c, run_case, n);
    (f, h, n)
}
