//! C11 — Close and drop reach the other half, correctly classified, losing no sent data.
//! Part "port": raw chmux ports. Part "mpsc": typed mpsc channels (several senders, Sending handles).

use bytes::{Bytes, BytesMut};
use proptest::prelude::*;
use serde::{Deserialize, Serialize};
use std::sync::{Arc, Mutex};

use crate::engine::{
    gen::{self, connect_pair, gcfg_small, payload, sched, GCfg, Sched},
    link::{Fault, FaultKind},
    runner::{self, Outcome, Report, Tier},
    sim::{self, spawn_actor, tape_pause, Tape},
};
use remoc::chmux::{self, Received, RecvChunkError, SendError};

use super::c01::{resolve_len, Len, RMode};

#[derive(Clone, Debug, Serialize, Deserialize, PartialEq, Eq, Hash)]
pub enum Msg {
    Whole(Len),
    Chunked(Vec<u16>),
}

#[derive(Clone, Debug, Serialize, Deserialize, PartialEq, Eq, Hash)]
pub enum Event {
    /// Receiver calls close() after having received n messages, keeps receiving.
    Close { after: u8 },
    /// Receiver is dropped after having received n messages.
    DropRx { after: u8 },
    /// Receiver calls close() after n messages, receives up to `more` further items and is then
    /// dropped: the sender first learns of a graceful close and then of the drop.
    CloseThenDrop { after: u8, more: u8 },
    /// Sender is dropped after k messages; `mid` = inside the next (chunked) message.
    DropTx { after: u8, mid: bool },
    /// Transport cut after k frames A->B.
    Cut { after: u16 },
}

#[derive(Clone, Debug, Serialize, Deserialize, PartialEq, Eq, Hash)]
pub struct Case {
    pub cfg_a: GCfg,
    pub cfg_b: GCfg,
    pub sched: Sched,
    pub msgs: Vec<Msg>,
    pub event: Event,
    pub modes: Vec<RMode>,
    pub slow_receiver: bool,
    /// Route the stream through a forwarding hop (A -> B --forward--> A) instead of directly.
    #[serde(default)]
    pub hop: bool,
}

fn len_strategy() -> BoxedStrategy<Len> {
    prop_oneof![
        3 => (0u16..=200).prop_map(Len::Abs),
        1 => (0u16..=1200).prop_map(Len::Abs),
        2 => (any::<u8>(), -1i8..=1).prop_map(|(s, o)| Len::Near(s, o)),
    ]
    .boxed()
}

pub fn strategy(tier: Tier) -> BoxedStrategy<Case> {
    let n = tier.pick(12, 24);
    let msg = prop_oneof![
        3 => len_strategy().prop_map(Msg::Whole),
        1 => proptest::collection::vec(0u16..=120, 0..4).prop_map(Msg::Chunked),
    ];
    let event = prop_oneof![
        3 => (0u8..=12).prop_map(|after| Event::Close { after }),
        2 => (0u8..=12).prop_map(|after| Event::DropRx { after }),
        2 => (0u8..=12, 0u8..=3).prop_map(|(after, more)| Event::CloseThenDrop { after, more }),
        3 => (0u8..=12, any::<bool>()).prop_map(|(after, mid)| Event::DropTx { after, mid }),
        1 => (0u16..=60).prop_map(|after| Event::Cut { after }),
    ];
    (
        gcfg_small(),
        gcfg_small(),
        sched(true),
        proptest::collection::vec(msg, 0..n),
        event,
        proptest::collection::vec(prop_oneof![Just(RMode::Recv), Just(RMode::Any)], 1..4),
        any::<bool>(),
        prop_oneof![3 => Just(false), 1 => Just(true)],
    )
        .prop_map(|(cfg_a, cfg_b, sched, msgs, event, modes, slow_receiver, hop)| Case { cfg_a, cfg_b, sched, msgs, event, modes, slow_receiver, hop })
        .boxed()
}

#[derive(Clone, Debug)]
enum SRes {
    Sent(Bytes),
    Closed { gracefully: bool, is_closed_flag: bool },
    ChMux,
    Abandoned,
}

#[derive(Clone, Debug, PartialEq)]
enum RRes {
    Msg(Bytes),
    TooBig,
    Cancelled,
    Eos,
    ErrChMux,
    Err(String),
}

pub struct PortOut {
    pub fails: Vec<(String, String)>,
    pub in_flight: bool,
    pub frames: u64,
}

async fn execute_port(case: &Case) -> PortOut {
    let mut out = PortOut { fails: vec![], in_flight: false, frames: 0 };
    let tape = case.sched.tape();
    let faults = match &case.event {
        Event::Cut { after } => vec![Fault { dir: 0, after: 8 + *after as u32, kind: FaultKind::Eof }, Fault { dir: 1, after: 0, kind: FaultKind::StallOneWay }],
        _ => vec![],
    };
    // For Cut: the B->A direction is not stalled from the start; arm it later together with A->B.
    let faults: Vec<Fault> = faults.into_iter().filter(|f| f.kind != FaultKind::StallOneWay).collect();
    let (link, a, b) = match connect_pair(&case.cfg_a, &case.cfg_b, &case.sched, faults).await {
        Ok(x) => x,
        Err(e) => {
            if matches!(case.event, Event::Cut { .. }) {
                return out;
            }
            out.fails.push(("C11/setup".into(), e));
            return out;
        }
    };
    let (conn, acc) = tokio::join!(sim::within(3000, a.client.connect()), sim::within(3000, async { let mut l = b.listener; (l.accept().await, l) }));
    let ((tx, _rx_a), (_tx_b, rx)) = match (conn, acc) {
        (Ok(Ok(c)), Ok((Ok(Some(l)), _))) => (c, l),
        _ => {
            if matches!(case.event, Event::Cut { .. }) {
                return out;
            }
            out.fails.push(("C11/setup".into(), "port setup failed".into()));
            return out;
        }
    };
    let mut mds = case.cfg_b.max_data_size;
    // Optional forwarding hop: B forwards what it receives over a second port back to A.
    let mut rx = rx;
    let mut _fwd_keep = None;
    if case.hop && !matches!(case.event, Event::Cut { .. }) {
        let (conn2, acc2) = tokio::join!(sim::within(3000, b.client.connect()), sim::within(3000, async { let mut l = a.listener; (l.accept().await, l) }));
        match (conn2, acc2) {
            (Ok(Ok((mut tx2, rx2_unused))), Ok((Ok(Some((tx2_unused, rx2))), _))) => {
                let mut rx_b = rx;
                let fwd = spawn_actor(async move {
                    let _keep = (rx2_unused,);
                    let _ = rx_b.forward(&mut tx2).await;
                });
                _fwd_keep = Some((fwd, tx2_unused));
                rx = rx2;
                // The forwarder re-chunks: what counts is the final receiver's limit.
                mds = case.cfg_a.max_data_size;
            }
            _ => {
                out.fails.push(("C11/setup".into(), "second port setup failed".into()));
                return out;
            }
        }
    }
    let slog: Arc<Mutex<Vec<SRes>>> = Arc::new(Mutex::new(Vec::new()));
    let rlog: Arc<Mutex<Vec<RRes>>> = Arc::new(Mutex::new(Vec::new()));
    let closed_seen = Arc::new(Mutex::new(false));

    // Sender.
    let sh = {
        let slog = slog.clone();
        let msgs = case.msgs.clone();
        let (ca, cb) = (case.cfg_a.clone(), case.cfg_b.clone());
        let event = case.event.clone();
        let tape = tape.clone();
        let closed_seen = closed_seen.clone();
        spawn_actor(async move {
            let mut tx = tx;
            for (i, m) in msgs.iter().enumerate() {
                tape_pause(&tape, true).await;
                if let Event::DropTx { after, mid } = &event {
                    if i == *after as usize {
                        if *mid {
                            let cs = tx.send_chunks();
                            let _ = cs.send(payload(900 + i as u32, 3)).await;
                            slog.lock().unwrap().push(SRes::Abandoned);
                        }
                        drop(tx);
                        return None;
                    }
                }
                let was_closed = tx.is_closed();
                let res = match m {
                    Msg::Whole(l) => {
                        let data = payload(i as u32, resolve_len(l, &ca, &cb));
                        tx.send(data.clone()).await.map(|()| data)
                    }
                    Msg::Chunked(pieces) => {
                        let total: usize = pieces.iter().map(|p| *p as usize).sum();
                        let data = payload(i as u32, total);
                        let mut rest = data.clone();
                        let r = async {
                            let mut cs = tx.send_chunks();
                            for p in pieces {
                                cs = cs.send(rest.split_to(*p as usize)).await?;
                            }
                            cs.finish().await
                        }
                        .await;
                        r.map(|()| data)
                    }
                };
                match res {
                    Ok(d) => {
                        if was_closed {
                            // A send that *started* after the sender had observed the close must fail.
                            slog.lock().unwrap().push(SRes::Closed { gracefully: true, is_closed_flag: false });
                            *closed_seen.lock().unwrap() = true;
                        }
                        slog.lock().unwrap().push(SRes::Sent(d));
                    }
                    Err(SendError::Closed { gracefully }) => {
                        slog.lock().unwrap().push(SRes::Closed { gracefully, is_closed_flag: tx.is_closed() });
                        break;
                    }
                    Err(SendError::ChMux) => {
                        slog.lock().unwrap().push(SRes::ChMux);
                        break;
                    }
                }
            }
            Some(tx)
        })
    };
    // Receiver.
    let rh = {
        let rlog = rlog.clone();
        let modes = case.modes.clone();
        let event = case.event.clone();
        let slow = case.slow_receiver;
        let tape = tape.clone();
        spawn_actor(async move {
            let mut rx = rx;
            let mut got = 0usize;
            let mut k = 0usize;
            let mut closed = false;
            let mut since_close = 0usize;
            loop {
                match &event {
                    Event::Close { after } if !closed && got >= *after as usize => {
                        rx.close().await;
                        closed = true;
                    }
                    Event::DropRx { after } if got >= *after as usize => {
                        drop(rx);
                        return;
                    }
                    Event::CloseThenDrop { after, more } if got >= *after as usize => {
                        if !closed {
                            rx.close().await;
                            closed = true;
                            since_close = 0;
                        } else if since_close >= *more as usize {
                            drop(rx);
                            return;
                        }
                    }
                    _ => {}
                }
                since_close += 1;
                if slow {
                    tape_pause(&tape, true).await;
                }
                let mode = modes[k % modes.len()];
                k += 1;
                if closed && matches!(event, Event::CloseThenDrop { .. }) {
                    // After its close() the receiver does not wait for ever for traffic that the
                    // sender no longer produces: it takes what arrives within 20 virtual s, then goes.
                    match sim::within(20, rx.recv_any()).await {
                        Ok(Ok(Some(Received::Data(b)))) => {
                            got += 1;
                            rlog.lock().unwrap().push(RRes::Msg(b.into()));
                            continue;
                        }
                        _ => {
                            drop(rx);
                            return;
                        }
                    }
                }
                let item = match mode {
                    RMode::Recv => match rx.recv().await {
                        Ok(Some(b)) => RRes::Msg(b.into()),
                        Ok(None) => RRes::Eos,
                        Err(chmux::RecvError::ExceedsMaxDataSize(_)) => RRes::TooBig,
                        Err(chmux::RecvError::ChMux) => RRes::ErrChMux,
                        Err(e) => RRes::Err(e.to_string()),
                    },
                    RMode::Any => match rx.recv_any().await {
                        Ok(Some(Received::Data(b))) => RRes::Msg(b.into()),
                        Ok(Some(Received::Chunks)) => {
                            let mut acc = BytesMut::new();
                            loop {
                                match rx.recv_chunk().await {
                                    Ok(Some(c)) => acc.extend_from_slice(&c),
                                    Ok(None) => break RRes::Msg(acc.freeze()),
                                    Err(RecvChunkError::Cancelled) => break RRes::Cancelled,
                                    Err(RecvChunkError::ChMux) => break RRes::ErrChMux,
                                }
                            }
                        }
                        Ok(Some(Received::Requests(_))) => RRes::Err("unexpected requests".into()),
                        Ok(None) => RRes::Eos,
                        Err(chmux::RecvError::ChMux) => RRes::ErrChMux,
                        Err(e) => RRes::Err(e.to_string()),
                    },
                };
                let stop = matches!(item, RRes::Eos | RRes::ErrChMux | RRes::Err(_));
                if matches!(item, RRes::Msg(_) | RRes::TooBig) {
                    got += 1;
                }
                rlog.lock().unwrap().push(item);
                if stop {
                    return;
                }
            }
        })
    };

    let deadline = case.sched.deadline_s(40_000, gen::delay_cap_ms(&case.cfg_a, &case.cfg_b));
    let sres = sim::within(deadline, sh).await;
    let mut tx_back = match sres {
        Ok(Ok(t)) => t,
        _ => {
            if std::env::var("VERIF_DEBUG").is_ok() {
                let st = crate::engine::wire::analyze(&link.tap());
                for m in st.msgs.iter().filter(|m| !m.delivered && !matches!(m.msg, crate::engine::refcodec::RefMsg::Ping)) {
                    eprintln!("  t={} dir={} {:?} payload={:?}", m.t_ms, m.dir, m.msg, m.payload.as_ref().map(|p| p.len()));
                }
                eprintln!("received: {:?}", summarize_r(&rlog.lock().unwrap()));
                for d in 0..2u8 {
                    let pings: Vec<u64> = st.msgs.iter().filter(|m| !m.delivered && m.dir == d && matches!(m.msg, crate::engine::refcodec::RefMsg::Ping)).map(|m| m.t_ms).collect();
                    eprintln!("dir {d}: {} pings, last at {:?} ms; delivered frames {}", pings.len(), pings.last(), link.delivered(d));
                }
            }
            out.fails.push(("C11/sender-hangs".into(), format!("sender did not finish within {deadline} virtual s; event {:?}, results {:?}", case.event, summarize(&slog.lock().unwrap()))));
            return out;
        }
    };
    // Classification checks that need the sender still alive.
    match &case.event {
        Event::Close { .. } | Event::DropRx { .. } | Event::CloseThenDrop { .. } => {
            if let Some(tx) = tx_back.as_mut() {
                // Quiescence, then the condition must be observable.
                tokio::time::sleep(std::time::Duration::from_secs(200 + 60 * case.sched.max_delay_ms(gen::delay_cap_ms(&case.cfg_a, &case.cfg_b)) / 1000)).await;
                let receiver_acted = {
                    let r = rlog.lock().unwrap();
                    let got = r.iter().filter(|x| matches!(x, RRes::Msg(_) | RRes::TooBig)).count();
                    let after = match &case.event {
                        Event::Close { after } | Event::DropRx { after } | Event::CloseThenDrop { after, .. } => *after as usize,
                        _ => 0,
                    };
                    got >= after
                };
                if receiver_acted {
                    if sim::within(3000, tx.closed()).await.is_err() {
                        out.fails.push(("C11/closed-not-resolved".into(), format!("Sender::closed() does not resolve after {:?}", case.event)));
                    }
                    let want_graceful = matches!(case.event, Event::Close { .. });
                    match sim::within(3000, tx.send(Bytes::from_static(b"probe"))).await {
                        // Behind a forwarding hop a dropped final receiver reaches the original sender as
                        // the forwarder's close(): either classification is what the forwarder reports.
                        Ok(Err(SendError::Closed { gracefully })) if gracefully == want_graceful || case.hop => {
                            if tx.is_closed() != want_graceful && want_graceful {
                                out.fails.push(("C11/classification".into(), "is_closed() false after graceful close".into()));
                            }
                        }
                        other => out.fails.push((
                            "C11/classification".into(),
                            format!("after {:?} (quiescent) a send gives {other:?}, expected Closed{{gracefully: {want_graceful}}}", case.event),
                        )),
                    }
                }
            }
        }
        _ => {}
    }
    drop(tx_back);
    if sim::within(deadline, rh).await.is_err() {
        out.fails.push(("C11/receiver-hangs".into(), format!("receiver did not reach end-of-stream / error within {deadline} virtual s after the sender was dropped; event {:?}", case.event)));
        return out;
    }
    out.frames = link.tap_len() as u64 / 2;

    // History oracle.
    let s = slog.lock().unwrap().clone();
    let r = rlog.lock().unwrap().clone();
    let sent: Vec<&Bytes> = s.iter().filter_map(|x| if let SRes::Sent(b) = x { Some(b) } else { None }).collect();
    let abandoned_big = s.iter().any(|x| matches!(x, SRes::Abandoned));
    let mut recv: Vec<Option<&Bytes>> = Vec::new(); // None = TooBig
    for x in &r {
        match x {
            RRes::Msg(b) => recv.push(Some(b)),
            RRes::TooBig => recv.push(None),
            RRes::Err(e) => out.fails.push(("C11/recv-error".into(), format!("receiver error {e}"))),
            _ => {}
        }
    }
    let _ = abandoned_big;
    // Received must be explained by the completed sends, in order (an ExceedsMaxDataSize error may
    // also stem from an unfinished message whose transmitted part already exceeds the limit).
    {
        use super::c01::{match_history, OpResult, RItem};
        let ops: Vec<OpResult> = s
            .iter()
            .map(|x| match x {
                SRes::Sent(b) => OpResult::Sent(b.clone()),
                _ => OpResult::NotSent { len: usize::MAX, effective_cancel: false },
            })
            .collect();
        let items: Vec<RItem> = r
            .iter()
            .filter_map(|x| match x {
                RRes::Msg(b) => Some(RItem::Msg(b.clone(), RMode::Any)),
                RRes::TooBig => Some(RItem::TooBig),
                _ => None,
            })
            .collect();
        if let Err(e) = match_history(&ops, &items, mds, false) {
            out.fails.push(("C11/not-a-prefix".into(), format!("received messages are not a prefix of the completed sends: {e}; event {:?}", case.event)));
        } else if r.last() == Some(&RRes::Eos) {
            // End-of-stream is only acceptable after *all* completed sends were delivered.
            if let Err(e) = match_history(&ops, &items, mds, true) {
                out.fails.push((
                    "C11/eos-with-missing".into(),
                    format!("receiver saw end-of-stream although completed sends are missing: {e}; event {:?}", case.event),
                ));
            }
        }
    }
    let ended_eos = r.last() == Some(&RRes::Eos);
    let ended_chmux = r.last() == Some(&RRes::ErrChMux);
    match &case.event {
        Event::Close { .. } | Event::DropTx { .. } => {
            if !ended_eos {
                out.fails.push(("C11/no-eos".into(), format!("receiver ended with {:?} instead of end-of-stream; event {:?}", r.last(), case.event)));
            }
            for x in &s {
                match x {
                    SRes::Closed { gracefully: false, .. } => out.fails.push(("C11/classification".into(), format!("send failed with Closed{{gracefully: false}} although the receiver only closed; event {:?}", case.event))),
                    SRes::Closed { gracefully: true, is_closed_flag: false } => {
                        out.fails.push(("C11/classification".into(), "a send that started after is_closed() was true succeeded, or is_closed() is false after a graceful-close error".into()))
                    }
                    SRes::ChMux => out.fails.push(("C11/classification".into(), "send failed with ChMux on a healthy connection".into())),
                    _ => {}
                }
            }
            if matches!(case.event, Event::DropTx { .. }) && s.iter().any(|x| matches!(x, SRes::Closed { .. })) {
                out.fails.push(("C11/classification".into(), "send failed with Closed although the receiver neither closed nor dropped".into()));
            }
        }
        Event::CloseThenDrop { .. } => {
            // Sends may fail gracefully (between close and drop) or not (after the drop).
            for x in &s {
                if let SRes::ChMux = x {
                    out.fails.push(("C11/classification".into(), "send failed with ChMux on a healthy connection".into()));
                }
            }
        }
        Event::DropRx { .. } => {
            for x in &s {
                match x {
                    SRes::Closed { gracefully: true, .. } if !case.hop => out.fails.push(("C11/classification".into(), "send failed with graceful close although the receiver was dropped".into())),
                    SRes::ChMux => out.fails.push(("C11/classification".into(), "send failed with ChMux on a healthy connection".into())),
                    _ => {}
                }
            }
        }
        Event::Cut { .. } => {
            let _ = ended_chmux;
        }
    }
    // In flight: the event landed while the sender still had messages to send.
    out.in_flight = match &case.event {
        Event::Close { after } | Event::DropRx { after } | Event::CloseThenDrop { after, .. } => (*after as usize) < case.msgs.len(),
        Event::DropTx { after, mid } => (*after as usize) < case.msgs.len() || *mid,
        Event::Cut { .. } => true,
    };
    out
}

fn summarize(s: &[SRes]) -> Vec<String> {
    s.iter()
        .map(|x| match x {
            SRes::Sent(b) => format!("Sent({})", b.len()),
            other => format!("{other:?}"),
        })
        .collect()
}

fn summarize_r(r: &[RRes]) -> Vec<String> {
    r.iter()
        .map(|x| match x {
            RRes::Msg(b) => format!("Msg({})", b.len()),
            other => format!("{other:?}"),
        })
        .collect()
}

pub fn run_port(case: &Case) -> Outcome {
    let tape = case.sched.tape();
    let res = sim::run_sim(case.sched.tokio_seed, &tape, case.sched.defer, execute_port(case));
    let mut out = Outcome::default();
    out.frames = res.frames;
    if let Some((s, m)) = res.fails.first() {
        out.fail(s.clone(), m.clone());
    }
    out.class(format!("port:{}{}", format!("{:?}", case.event).split(' ').next().unwrap_or(""), if case.hop { ":forwarded" } else { "" }));
    out.nontrivial = res.in_flight;
    out
}

// ---------------------------------------------------------------------------------------------
// Typed mpsc channels.
// ---------------------------------------------------------------------------------------------

#[derive(Clone, Debug, Serialize, Deserialize, PartialEq, Eq, Hash)]
pub enum MEvent {
    /// Receiver closes after n items, keeps receiving until end.
    Close { after: u8 },
    DropRx { after: u8 },
    /// All senders are dropped after their scripts (always happens); nothing else.
    DropSenders,
}

#[derive(Clone, Debug, Serialize, Deserialize, PartialEq, Eq, Hash)]
pub struct MCase {
    pub cfg_a: GCfg,
    pub cfg_b: GCfg,
    pub sched: Sched,
    /// true: the receiver is remote (sent to B); false: the sender is remote.
    pub remote_receiver: bool,
    /// Items per sender (1..3 senders).
    pub senders: Vec<u8>,
    pub event: MEvent,
    pub buffer: u8,
}

pub fn mstrategy(_tier: Tier) -> BoxedStrategy<MCase> {
    let cfg = || {
        (prop_oneof![Just(16u32), Just(64u32), Just(1024u32)], prop_oneof![Just(64u32), Just(256u32), Just(4096u32)]).prop_map(|(chunk_size, receive_buffer)| GCfg {
            chunk_size,
            receive_buffer,
            max_data_size: 1 << 16,
            shared_q: 2,
            tsend_q: 2,
            trecv_q: 2,
            connect_queue: 4,
            max_ports: 64,
            max_received_ports: 16,
            timeout_s: Some(60),
        })
    };
    (
        cfg(),
        cfg(),
        sched(true),
        any::<bool>(),
        proptest::collection::vec(0u8..=10, 1..=3),
        prop_oneof![
            3 => (0u8..=12).prop_map(|after| MEvent::Close { after }),
            2 => (0u8..=12).prop_map(|after| MEvent::DropRx { after }),
            2 => Just(MEvent::DropSenders),
        ],
        1u8..=4,
    )
        .prop_map(|(cfg_a, cfg_b, sched, remote_receiver, senders, event, buffer)| MCase { cfg_a, cfg_b, sched, remote_receiver, senders, event, buffer })
        .boxed()
}

type Item = (u8, u32);

#[derive(Clone, Debug, PartialEq)]
enum MS {
    /// send() returned Ok with a Sending handle that resolved to this.
    Acked(Item),
    /// send() returned Ok, Sending handle reported an error.
    SendingErr(Item, String),
    /// send() itself failed.
    Failed(Item, String, Option<String>),
}

pub struct MOut {
    pub fails: Vec<(String, String)>,
    pub in_flight: bool,
    pub frames: u64,
}

async fn execute_mpsc(case: &MCase) -> MOut {
    use remoc::rch::{base, mpsc, ClosedReason};
    let mut out = MOut { fails: vec![], in_flight: false, frames: 0 };
    let (link, a, b) = match connect_pair(&case.cfg_a, &case.cfg_b, &case.sched, vec![]).await {
        Ok(x) => x,
        Err(e) => {
            out.fails.push(("C11/setup".into(), e));
            return out;
        }
    };
    let gen::Side { client: ca, listener: _la, run: _ra } = a;
    let gen::Side { client: _cb, listener: mut lb, run: _rb } = b;
    // Base channel A -> B to transfer one half.
    let (conn, acc) = tokio::join!(sim::within(3000, ca.connect()), sim::within(3000, lb.accept()));
    let ((raw_tx, _raw_rx_a), (_raw_tx_b, raw_rx)) = match (conn, acc) {
        (Ok(Ok(c)), Ok(Ok(Some(l)))) => (c, l),
        _ => {
            out.fails.push(("C11/setup".into(), "base port setup failed".into()));
            return out;
        }
    };
    let (tx, rx) = mpsc::channel::<Item, remoc::codec::Default>(case.buffer as usize);
    let (tx, rx): (mpsc::Sender<Item>, mpsc::Receiver<Item>) = if case.remote_receiver {
        let mut btx = base::Sender::<mpsc::Receiver<Item>>::new(raw_tx);
        let mut brx = base::Receiver::<mpsc::Receiver<Item>>::new(raw_rx);
        let (s, r) = tokio::join!(sim::within(3000, btx.send(rx)), sim::within(3000, brx.recv()));
        match (s, r) {
            (Ok(Ok(())), Ok(Ok(Some(rx2)))) => {
                tokio::spawn(async move {
                    let _keep = (btx, brx);
                    futures::future::pending::<()>().await;
                });
                (tx, rx2)
            }
            _ => {
                out.fails.push(("C11/setup".into(), "transfer of the receiver half failed".into()));
                return out;
            }
        }
    } else {
        let mut btx = base::Sender::<mpsc::Sender<Item>>::new(raw_tx);
        let mut brx = base::Receiver::<mpsc::Sender<Item>>::new(raw_rx);
        let (s, r) = tokio::join!(sim::within(3000, btx.send(tx)), sim::within(3000, brx.recv()));
        match (s, r) {
            (Ok(Ok(())), Ok(Ok(Some(tx2)))) => {
                tokio::spawn(async move {
                    let _keep = (btx, brx);
                    futures::future::pending::<()>().await;
                });
                (tx2, rx)
            }
            _ => {
                out.fails.push(("C11/setup".into(), "transfer of the sender half failed".into()));
                return out;
            }
        }
    };

    let total: usize = case.senders.iter().map(|n| *n as usize).sum();
    let mut shs = Vec::new();
    let logs: Vec<Arc<Mutex<Vec<MS>>>> = case.senders.iter().map(|_| Arc::new(Mutex::new(Vec::new()))).collect();
    let reasons: Arc<Mutex<Vec<Option<ClosedReason>>>> = Arc::new(Mutex::new(Vec::new()));
    for (si, n) in case.senders.iter().enumerate() {
        let tx = tx.clone();
        let log = logs[si].clone();
        let n = *n;
        let reasons = reasons.clone();
        let event = case.event.clone();
        shs.push(spawn_actor(async move {
            for k in 0..n as u32 {
                let item: Item = (si as u8, k);
                match tx.send(item).await {
                    Ok(sending) => match sending.await {
                        Ok(()) => log.lock().unwrap().push(MS::Acked(item)),
                        Err(e) => log.lock().unwrap().push(MS::SendingErr(item, format!("{e:?}"))),
                    },
                    Err(e) => {
                        // Classification of the error: Closed / Dropped / Failed.
                        let kind = match e.closed_reason() {
                            Some(r) => format!("{r:?}"),
                            None => "ItemSpecific".to_string(),
                        };
                        log.lock().unwrap().push(MS::Failed(item, kind, tx.closed_reason().map(|r| format!("{r:?}"))));
                        break;
                    }
                }
            }
            if !matches!(event, MEvent::DropSenders) {
                // Wait until the condition is observable, then record the classification.
                let _ = sim::within(3000, tx.closed()).await;
                if std::env::var("VERIF_DEBUG").is_ok() {
                    eprintln!("sender {si}: at closed(): {:?}", tx.closed_reason());
                    for _ in 0..5 {
                        tokio::task::yield_now().await;
                        eprintln!("sender {si}: after yield: {:?}", tx.closed_reason());
                    }
                }
                tokio::time::sleep(std::time::Duration::from_secs(300)).await;
                reasons.lock().unwrap().push(tx.closed_reason());
            }
        }));
    }
    drop(tx);
    let rlog: Arc<Mutex<Vec<Result<Option<Item>, String>>>> = Arc::new(Mutex::new(Vec::new()));
    let rh = {
        let rlog = rlog.clone();
        let event = case.event.clone();
        spawn_actor(async move {
            let mut rx = rx;
            let mut got = 0usize;
            let mut closed = false;
            loop {
                match &event {
                    MEvent::Close { after } if !closed && got >= *after as usize => {
                        rx.close();
                        closed = true;
                    }
                    MEvent::DropRx { after } if got >= *after as usize => {
                        drop(rx);
                        return;
                    }
                    _ => {}
                }
                match rx.recv().await {
                    Ok(Some(v)) => {
                        got += 1;
                        rlog.lock().unwrap().push(Ok(Some(v)));
                    }
                    Ok(None) => {
                        rlog.lock().unwrap().push(Ok(None));
                        return;
                    }
                    Err(e) => {
                        rlog.lock().unwrap().push(Err(format!("{e:?}")));
                        if e.is_final() {
                            return;
                        }
                    }
                }
            }
        })
    };
    let deadline = case.sched.deadline_s(20_000, gen::delay_cap_ms(&case.cfg_a, &case.cfg_b));
    for (i, sh) in shs.into_iter().enumerate() {
        if sim::within(deadline, sh).await.is_err() {
            out.fails.push(("C11/mpsc-sender-hangs".into(), format!("mpsc sender {i} hangs; event {:?}; log {:?}", case.event, logs[i].lock().unwrap())));
            return out;
        }
    }
    if sim::within(deadline, rh).await.is_err() {
        out.fails.push(("C11/mpsc-receiver-hangs".into(), format!("mpsc receiver does not end after all senders were dropped; event {:?}", case.event)));
        return out;
    }
    out.frames = link.tap_len() as u64 / 2;
    let r = rlog.lock().unwrap().clone();
    let got: Vec<Item> = r.iter().filter_map(|x| if let Ok(Some(v)) = x { Some(*v) } else { None }).collect();
    for e in r.iter().filter_map(|x| x.as_ref().err()) {
        out.fails.push(("C11/mpsc-recv-error".into(), format!("receiver error {e} on a healthy connection; event {:?}", case.event)));
    }
    // Per sender: received items are a prefix of that sender's items, in order.
    for (si, log) in logs.iter().enumerate() {
        let log = log.lock().unwrap().clone();
        let mine: Vec<u32> = got.iter().filter(|(s, _)| *s as usize == si).map(|(_, k)| *k).collect();
        let want: Vec<u32> = (0..mine.len() as u32).collect();
        if mine != want {
            out.fails.push(("C11/mpsc-not-a-prefix".into(), format!("sender {si}: receiver obtained {mine:?}, not a prefix in order; event {:?}", case.event)));
        }
        let acked: Vec<u32> = log.iter().filter_map(|m| if let MS::Acked((_, k)) = m { Some(*k) } else { None }).collect();
        match &case.event {
            MEvent::DropSenders | MEvent::Close { .. } => {
                // Every acknowledged item must have been delivered before end-of-stream.
                for k in &acked {
                    if !mine.contains(k) {
                        out.fails.push((
                            "C11/mpsc-acked-item-lost".into(),
                            format!("sender {si}: item {k} was acknowledged as sent but the receiver reached end-of-stream without it; event {:?}; sender log {log:?}; received {got:?}", case.event),
                        ));
                        break;
                    }
                }
            }
            MEvent::DropRx { .. } => {}
        }
        // Items accepted locally but not transmitted form a suffix: after the first non-acked item
        // no later item may be acked.
        let first_bad = log.iter().position(|m| !matches!(m, MS::Acked(_)));
        if let Some(fb) = first_bad {
            if log[fb..].iter().any(|m| matches!(m, MS::Acked(_))) {
                out.fails.push(("C11/mpsc-gap".into(), format!("sender {si}: an item was acknowledged after an earlier one had been reported dropped: {log:?}")));
            }
        }
        for m in &log {
            match (m, &case.event) {
                (MS::Failed(_, kind, _), MEvent::DropSenders) => out.fails.push(("C11/mpsc-classification".into(), format!("send failed with {kind} although nothing was closed or dropped"))),
                (MS::Failed(_, kind, _), MEvent::Close { .. }) if kind != "Closed" => {
                    out.fails.push(("C11/mpsc-classification".into(), format!("send failed with {kind} after the receiver was closed (expected Closed)")))
                }
                (MS::Failed(_, kind, _), MEvent::DropRx { .. }) if kind != "Dropped" && kind != "Closed" => {
                    // A remote receiver that was dropped may first surface as closed.
                    out.fails.push(("C11/mpsc-classification".into(), format!("send failed with {kind} after the receiver was dropped")))
                }
                _ => {}
            }
        }
    }
    // Classification at quiescence.
    let reasons = reasons.lock().unwrap().clone();
    if std::env::var("VERIF_DEBUG").is_ok() {
        for l in &logs {
            eprintln!("sender log {:?}", l.lock().unwrap());
        }
        eprintln!("reasons {reasons:?} received {r:?}");
        let st = crate::engine::wire::analyze(&link.tap());
        for m in st.msgs.iter().filter(|m| !m.delivered && !matches!(m.msg, crate::engine::refcodec::RefMsg::Ping)) {
            eprintln!("  t={} dir={} {:?} payload={:?}", m.t_ms, m.dir, m.msg, m.payload.as_ref().map(|p| p.len()));
        }
    }
    for r in &reasons {
        let s = format!("{r:?}");
        let ok = match &case.event {
            MEvent::Close { .. } => s == "Some(Closed)",
            MEvent::DropRx { .. } => s == "Some(Dropped)",
            MEvent::DropSenders => true,
        };
        let receiver_acted = match &case.event {
            MEvent::Close { after } | MEvent::DropRx { after } => got.len() >= *after as usize && (*after as usize) <= total,
            MEvent::DropSenders => true,
        };
        if receiver_acted && !ok {
            out.fails.push(("C11/mpsc-classification".into(), format!("closed_reason at quiescence is {s} after {:?}", case.event)));
        }
    }
    out.in_flight = match &case.event {
        MEvent::Close { after } | MEvent::DropRx { after } => (*after as usize) < total,
        MEvent::DropSenders => total > 0,
    };
    out
}

pub fn run_mpsc(case: &MCase) -> Outcome {
    let tape = case.sched.tape();
    let res = sim::run_sim(case.sched.tokio_seed, &tape, case.sched.defer, execute_mpsc(case));
    let mut out = Outcome::default();
    out.frames = res.frames;
    if let Some((s, m)) = res.fails.first() {
        out.fail(s.clone(), m.clone());
    }
    out.class(format!("mpsc:{}:{}", format!("{:?}", case.event).split(' ').next().unwrap_or(""), if case.remote_receiver { "remote-rx" } else { "remote-tx" }));
    if case.senders.len() > 1 {
        out.class("mpsc:several-senders");
    }
    out.nontrivial = res.in_flight;
    out
}

pub const RULE: &str = "part port: cases = (Cfg pair, schedule, message stream of whole/chunked messages with boundary-biased sizes, one event: receiver close() after n messages / receiver dropped after n / sender dropped after k messages or inside a chunked message / transport cut after k frames, receive modes recv or recv_any+recv_chunk); oracles = received messages are exactly a prefix of the completed sends in order, with close or sender-drop the receiver reaches end-of-stream only after *all* completed sends, send errors are classified (Closed{gracefully:true} for close, Closed{gracefully:false} for drop, never ChMux on a healthy link), a send started after is_closed() fails, Sender::closed() resolves, classification read at quiescence. part mpsc: 1-3 cloned senders, remote receiver or remote sender, Sending handles: acknowledged items are delivered before end-of-stream, per-sender in-order prefix, non-acknowledged items form a suffix, closed_reason at quiescence = Closed / Dropped. non-trivial = the event landed while messages were still to be sent; distinct = distinct case hash";

pub fn main(tier: Tier, seed: u64) -> Report {
    let mut rep = Report::new("C11", tier, seed);
    rep.rule = RULE.into();
    rep.assumptions = vec![
        "classifications are read at quiescence (the statement says 'eventually becomes observable')".into(),
        "single-threaded deterministic simulation; task-level interleavings only".into(),
        "lr / oneshot / bin channels share the base-channel close path exercised through mpsc and raw ports; they are covered by C04/C05/C18 workloads, not here".into(),
    ];
    let regress: Vec<Case> = runner::load_regress::<Case>("C11", "port").into_iter().map(|(_, c)| c).collect();
    if !regress.is_empty() {
        runner::run_cases(&mut rep, "regress-port", regress, run_port);
    }
    let regress: Vec<MCase> = runner::load_regress::<MCase>("C11", "mpsc").into_iter().map(|(_, c)| c).collect();
    if !regress.is_empty() {
        runner::run_cases(&mut rep, "regress-mpsc", regress, run_mpsc);
    }
    runner::run_generated(&mut rep, "port", tier.pick(20_000, 150_000), || strategy(tier), run_port);
    runner::run_generated(&mut rep, "mpsc", tier.pick(12_000, 80_000), || mstrategy(tier), run_mpsc);
    rep
}

pub fn replay(part: &str, case: serde_json::Value) -> (Option<runner::Failure>, u32, u32) {
    let n = runner::replay_times(3);
    if part.contains("mpsc") {
        let c: MCase = serde_json::from_value(case).expect("replay case does not parse as C11 mpsc case");
        let (f, h) = runner::replay_case(&c, run_mpsc, n);
        (f, h, n)
    } else {
        let c: Case = serde_json::from_value(case).expect("replay case does not parse as C11 port case");
        let (f, h) = runner::replay_case(&c, run_port, n);
        (f, h, n)
    }
}
