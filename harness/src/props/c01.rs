//! C01 — Port delivery: exactly-once, in-order, byte-exact, cancel-atomic messages.
//! The same runs feed the C02 wire monitor (flow-control safety).

use bytes::{Bytes, BytesMut};
use proptest::prelude::*;
use serde::{Deserialize, Serialize};
use std::sync::{Arc, Mutex};

use crate::engine::{
    gen::{self, connect_pair, gcfg_small, payload, sched, GCfg, Sched},
    link::SimLink,
    runner::{self, Outcome, Report, Tier},
    sim::{self, spawn_actor, tape_pause, CancelAfter, Cancelled, Tape},
    wire,
};
use remoc::chmux::{self, Received, RecvChunkError, RecvError, TrySendError};


#[derive(Clone, Debug, Serialize, Deserialize, PartialEq, Eq, Hash)]
pub enum Len {
    Abs(u16),
    /// Near a configuration boundary (see gen::boundary_len).
    Near(u8, i8),
}

#[derive(Clone, Debug, Serialize, Deserialize, PartialEq, Eq, Hash)]
pub enum End {
    Finish,
    SendFinal,
    Abandon,
}

#[derive(Clone, Debug, Serialize, Deserialize, PartialEq, Eq, Hash)]
pub enum How {
    Whole(Len),
    Try(Len),
    Chunked { pieces: Vec<u16>, end: End },
}

#[derive(Clone, Debug, Serialize, Deserialize, PartialEq, Eq, Hash)]
pub struct SendOp {
    pub how: How,
    /// Drop the send future after this many polls if still pending.
    pub cancel: Option<u8>,
}

#[derive(Clone, Copy, Debug, Serialize, Deserialize, PartialEq, Eq, Hash)]
pub enum RMode {
    /// Buffered `recv()`.
    Recv,
    /// `recv_any()` and chunk streaming via `recv_chunk()` when `Received::Chunks`.
    Any,
}

#[derive(Clone, Debug, Serialize, Deserialize, PartialEq, Eq, Hash)]
pub struct PortScript {
    /// true: data flows B -> A.
    pub reverse: bool,
    pub ops: Vec<SendOp>,
    pub modes: Vec<RMode>,
    /// Receiver pauses between receive calls (driven by the tape).
    pub slow_receiver: bool,
    /// Poll budgets after which a pending receive call is dropped and re-issued (cyclic; 0 = never),
    /// as a caller using select! or a timeout around recv would do.
    #[serde(default)]
    pub recv_cancel: Vec<u8>,
}

#[derive(Clone, Debug, Serialize, Deserialize, PartialEq, Eq, Hash)]
pub struct Case {
    pub cfg_a: GCfg,
    pub cfg_b: GCfg,
    pub sched: Sched,
    pub ports: Vec<PortScript>,
}

fn len_strategy() -> BoxedStrategy<Len> {
    prop_oneof![
        3 => (0u16..=300).prop_map(Len::Abs),
        1 => (0u16..=2100).prop_map(Len::Abs),
        1 => (0u16..=3).prop_map(Len::Abs),
        3 => (any::<u8>(), -1i8..=1).prop_map(|(s, o)| Len::Near(s, o)),
    ]
    .boxed()
}

fn op_strategy() -> BoxedStrategy<SendOp> {
    let how = prop_oneof![
        4 => len_strategy().prop_map(How::Whole),
        2 => len_strategy().prop_map(How::Try),
        3 => (
            proptest::collection::vec(prop_oneof![3 => 0u16..=80, 1 => Just(0u16), 1 => 0u16..=600], 0..5),
            prop_oneof![3 => Just(End::Finish), 2 => Just(End::SendFinal), 2 => Just(End::Abandon)]
        )
            .prop_map(|(pieces, end)| How::Chunked { pieces, end }),
    ];
    (how, prop_oneof![3 => Just(None), 2 => (1u8..=12).prop_map(Some), 1 => Just(Some(0u8))])
        .prop_map(|(how, cancel)| SendOp { how, cancel })
        .boxed()
}

pub fn port_strategy(max_ops: usize) -> BoxedStrategy<PortScript> {
    (
        any::<bool>(),
        proptest::collection::vec(op_strategy(), 0..max_ops),
        proptest::collection::vec(prop_oneof![Just(RMode::Recv), Just(RMode::Any)], 1..5),
        any::<bool>(),
        prop_oneof![2 => Just(Vec::new()), 1 => proptest::collection::vec(0u8..=4, 1..4)],
    )
        .prop_map(|(reverse, ops, modes, slow_receiver, recv_cancel)| PortScript { reverse, ops, modes, slow_receiver, recv_cancel })
        .boxed()
}

pub fn strategy(tier: Tier) -> BoxedStrategy<Case> {
    let max_ops = tier.pick(16, 24);
    (gcfg_small(), gcfg_small(), sched(true), proptest::collection::vec(port_strategy(max_ops), 1..=2))
        .prop_map(|(cfg_a, cfg_b, sched, ports)| Case { cfg_a, cfg_b, sched, ports })
        .boxed()
}

/// What the sender side did with one op.
#[derive(Clone, Debug)]
pub enum OpResult {
    /// Send completed with Ok.
    Sent(Bytes),
    /// Cancelled / abandoned / try_send Full. `len` bounds what may have been emitted.
    NotSent { len: usize, effective_cancel: bool },
    /// Send returned an error.
    Failed(String),
}

#[derive(Clone, Debug, PartialEq)]
pub enum RItem {
    Msg(Bytes, RMode),
    TooBig,
    CancelMarker,
    Eos,
    Err(String),
}

pub fn resolve_len(l: &Len, snd: &GCfg, rcv: &GCfg) -> usize {
    match l {
        Len::Abs(n) => *n as usize,
        Len::Near(s, o) => gen::boundary_len(*s, *o, snd, rcv),
    }
}

pub async fn sender_actor(
    mut tx: chmux::Sender, ops: Vec<SendOp>, snd_cfg: GCfg, rcv_cfg: GCfg, tape: Tape, log: Arc<Mutex<Vec<OpResult>>>,
    port_idx: u32,
) {
    for (i, op) in ops.iter().enumerate() {
        let msg_id = port_idx * 1000 + i as u32;
        tape_pause(&tape, true).await;
        let cancel = op.cancel.map(|c| c as u32);
        let res = match &op.how {
            How::Whole(l) => {
                let len = resolve_len(l, &snd_cfg, &rcv_cfg);
                let data = payload(msg_id, len);
                match CancelAfter::new(tx.send(data.clone()), cancel).await {
                    Cancelled::Done(Ok(())) => OpResult::Sent(data),
                    Cancelled::Done(Err(e)) => OpResult::Failed(format!("send: {e}")),
                    Cancelled::Dropped => OpResult::NotSent { len, effective_cancel: true },
                }
            }
            How::Try(l) => {
                let len = resolve_len(l, &snd_cfg, &rcv_cfg);
                let data = payload(msg_id, len);
                match tx.try_send(&data) {
                    Ok(()) => OpResult::Sent(data),
                    Err(TrySendError::Full) => OpResult::NotSent { len, effective_cancel: false },
                    Err(e) => OpResult::Failed(format!("try_send: {e}")),
                }
            }
            How::Chunked { pieces, end } => {
                let total: usize = pieces.iter().map(|p| *p as usize).sum();
                let data = payload(msg_id, total);
                let pieces = pieces.clone();
                let end = end.clone();
                let d2 = data.clone();
                let fut = async {
                    let mut rest = d2;
                    let mut cs = tx.send_chunks();
                    let n = pieces.len();
                    for (k, p) in pieces.iter().enumerate() {
                        let piece = rest.split_to(*p as usize);
                        if k + 1 == n && end == End::SendFinal {
                            cs.send_final(piece).await?;
                            return Ok::<bool, chmux::SendError>(true);
                        }
                        cs = cs.send(piece).await?;
                    }
                    match end {
                        End::Finish => {
                            cs.finish().await?;
                            Ok(true)
                        }
                        End::SendFinal => {
                            // no pieces: send_final with empty chunk
                            cs.send_final(Bytes::new()).await?;
                            Ok(true)
                        }
                        End::Abandon => {
                            drop(cs);
                            Ok(false)
                        }
                    }
                };
                match CancelAfter::new(fut, cancel).await {
                    Cancelled::Done(Ok(true)) => OpResult::Sent(data),
                    Cancelled::Done(Ok(false)) => OpResult::NotSent { len: total, effective_cancel: false },
                    Cancelled::Done(Err(e)) => OpResult::Failed(format!("chunk send: {e}")),
                    Cancelled::Dropped => OpResult::NotSent { len: total, effective_cancel: true },
                }
            }
        };
        log.lock().unwrap().push(res);
    }
    drop(tx);
}

/// Runs a receive call; if a cancel budget applies, the pending future is dropped after that many
/// polls and the call is re-issued (the documented-by-use cancel safety of recv/recv_any).
macro_rules! with_recv_cancel {
    ($cancel:expr, $ctr:expr, $call:expr) => {{
        // The cancellation budget grows with every re-issue of the same receive and the fourth
        // attempt is awaited to completion: a receive that is dropped at *every* wake-up can
        // livelock against another receiver doing the same (the queue slot each one is handed
        // goes back and forth), which is a property of the adversary, not of the library.
        let mut attempt = 0u32;
        loop {
            let budget = if $cancel.is_empty() { 0 } else { $cancel[$ctr % $cancel.len()] as u32 };
            $ctr += 1;
            if budget == 0 || attempt >= 3 {
                break $call.await;
            }
            match CancelAfter::new($call, Some(budget + attempt)).await {
                Cancelled::Done(r) => break r,
                Cancelled::Dropped => {
                    attempt += 1;
                    continue;
                }
            }
        }
    }};
}
pub(crate) use with_recv_cancel;

pub async fn receiver_actor(
    mut rx: chmux::Receiver, modes: Vec<RMode>, slow: bool, recv_cancel: Vec<u8>, tape: Tape, log: Arc<Mutex<Vec<RItem>>>,
) -> chmux::Receiver {
    let mut k = 0usize;
    let mut cc = 0usize;
    loop {
        if slow {
            tape_pause(&tape, true).await;
        }
        let mode = modes[k % modes.len()];
        k += 1;
        match mode {
            RMode::Recv => match with_recv_cancel!(recv_cancel, cc, rx.recv()) {
                Ok(Some(buf)) => {
                    let b: Bytes = buf.into();
                    log.lock().unwrap().push(RItem::Msg(b, mode));
                }
                Ok(None) => {
                    log.lock().unwrap().push(RItem::Eos);
                    break;
                }
                Err(RecvError::ExceedsMaxDataSize(_)) => log.lock().unwrap().push(RItem::TooBig),
                Err(e) => {
                    log.lock().unwrap().push(RItem::Err(format!("recv: {e}")));
                    break;
                }
            },
            RMode::Any => match with_recv_cancel!(recv_cancel, cc, rx.recv_any()) {
                Ok(Some(Received::Data(buf))) => {
                    let b: Bytes = buf.into();
                    log.lock().unwrap().push(RItem::Msg(b, mode));
                }
                Ok(Some(Received::Chunks)) => {
                    let mut acc = BytesMut::new();
                    loop {
                        if slow {
                            tape_pause(&tape, true).await;
                        }
                        match with_recv_cancel!(recv_cancel, cc, rx.recv_chunk()) {
                            Ok(Some(c)) => acc.extend_from_slice(&c),
                            Ok(None) => {
                                log.lock().unwrap().push(RItem::Msg(acc.freeze(), mode));
                                break;
                            }
                            Err(RecvChunkError::Cancelled) => {
                                log.lock().unwrap().push(RItem::CancelMarker);
                                break;
                            }
                            Err(e) => {
                                log.lock().unwrap().push(RItem::Err(format!("recv_chunk: {e}")));
                                return rx;
                            }
                        }
                    }
                }
                Ok(Some(Received::Requests(_))) => {
                    log.lock().unwrap().push(RItem::Err("unexpected port requests".into()));
                }
                Ok(None) => {
                    log.lock().unwrap().push(RItem::Eos);
                    break;
                }
                Err(e) => {
                    log.lock().unwrap().push(RItem::Err(format!("recv_any: {e}")));
                    break;
                }
            },
        }
    }
    rx
}

/// Decides whether `received` is explained by `ops`. `complete`: the receiver reached
/// end-of-stream after the sender finished all ops (otherwise: prefix check only).
pub fn match_history(ops: &[OpResult], received: &[RItem], max_data_size: usize, complete: bool) -> Result<(), String> {
    // received without markers
    let rec: Vec<&RItem> = received.iter().filter(|r| !matches!(r, RItem::CancelMarker | RItem::Eos)).collect();
    let n = ops.len();
    let m = rec.len();
    // reach[i][j]: ops[..i] can explain rec[..j]
    let mut reach = vec![vec![false; m + 1]; n + 1];
    reach[0][0] = true;
    for i in 0..n {
        for j in 0..=m {
            if !reach[i][j] {
                continue;
            }
            match &ops[i] {
                OpResult::NotSent { len, .. } => {
                    reach[i + 1][j] = true;
                    if j < m && *rec[j] == RItem::TooBig && *len > max_data_size {
                        reach[i + 1][j + 1] = true;
                    }
                }
                OpResult::Failed(_) => {
                    reach[i + 1][j] = true;
                }
                OpResult::Sent(p) => {
                    if j < m {
                        match rec[j] {
                            RItem::Msg(b, mode) => {
                                if b == p && !(*mode == RMode::Recv && p.len() > max_data_size) {
                                    reach[i + 1][j + 1] = true;
                                }
                            }
                            RItem::TooBig => {
                                if p.len() > max_data_size {
                                    reach[i + 1][j + 1] = true;
                                }
                            }
                            _ => {}
                        }
                    }
                }
            }
        }
    }
    let ok = if complete { reach[n][m] } else { (0..=n).any(|i| reach[i][m]) };
    if ok {
        return Ok(());
    }
    // Build a diagnostic.
    let exp: Vec<String> = ops
        .iter()
        .map(|o| match o {
            OpResult::Sent(p) => format!("Sent({})", p.len()),
            OpResult::NotSent { len, .. } => format!("NotSent({len})"),
            OpResult::Failed(e) => format!("Failed({e})"),
        })
        .collect();
    let got: Vec<String> = received
        .iter()
        .map(|r| match r {
            RItem::Msg(b, m) => format!("Msg({},{m:?})", b.len()),
            other => format!("{other:?}"),
        })
        .collect();
    // Classify.
    let sent: Vec<&Bytes> = ops.iter().filter_map(|o| if let OpResult::Sent(p) = o { Some(p) } else { None }).collect();
    let msgs: Vec<&Bytes> = rec.iter().filter_map(|r| if let RItem::Msg(b, _) = r { Some(b) } else { None }).collect();
    let class = if msgs.iter().any(|b| !sent.contains(b)) {
        "corrupt-or-foreign"
    } else if msgs.len() < sent.iter().filter(|p| p.len() <= max_data_size).count() && complete {
        "lost"
    } else {
        "order-or-count"
    };
    Err(format!("{class}|sender ops {exp:?} vs receiver {got:?} (max_data_size {max_data_size}, complete={complete})"))
}

pub struct PortRun {
    pub ops: Vec<OpResult>,
    pub received: Vec<RItem>,
    pub sender_done: bool,
    pub receiver_done: bool,
}

pub struct CaseRun {
    pub ports: Vec<PortRun>,
    pub link: SimLink,
    pub setup_err: Option<String>,
    pub run_results: Vec<Option<String>>,
}

pub fn frames_bound(case: &Case) -> u64 {
    let mut bytes = 0u64;
    let mut nops = 0u64;
    for p in &case.ports {
        let (s, r) = if p.reverse { (&case.cfg_b, &case.cfg_a) } else { (&case.cfg_a, &case.cfg_b) };
        for op in &p.ops {
            nops += 1;
            bytes += match &op.how {
                How::Whole(l) | How::Try(l) => resolve_len(l, s, r) as u64 + 1,
                How::Chunked { pieces, .. } => pieces.iter().map(|p| *p as u64 + 1).sum::<u64>() + 1,
            };
        }
    }
    2_000 + 8 * bytes + 16 * nops
}

pub fn deadline_s(case: &Case) -> u64 {
    case.sched.deadline_s(frames_bound(case), gen::delay_cap_ms(&case.cfg_a, &case.cfg_b))
}

pub async fn execute(case: &Case) -> CaseRun {
    #[allow(non_snake_case)]
    let DEADLINE_S = deadline_s(case);
    let tape = case.sched.tape();
    let (link, a, b) = match connect_pair(&case.cfg_a, &case.cfg_b, &case.sched, vec![]).await {
        Ok(x) => x,
        Err(e) => {
            let (link, _, _) = SimLink::plain(1);
            return CaseRun { ports: vec![], link, setup_err: Some(e), run_results: vec![] };
        }
    };
    let mut actors = Vec::new();
    let mut logs = Vec::new();
    let mut keep = Vec::new();
    let gen::Side { client: client_a, listener: mut listener_a, run: run_a } = a;
    let gen::Side { client: client_b, listener: mut listener_b, run: run_b } = b;
    for (pi, p) in case.ports.iter().enumerate() {
        let (snd_cfg, rcv_cfg) =
            if p.reverse { (case.cfg_b.clone(), case.cfg_a.clone()) } else { (case.cfg_a.clone(), case.cfg_b.clone()) };
        let conn = if p.reverse {
            let (c, l) = tokio::join!(client_b.connect(), listener_a.accept());
            (c, l)
        } else {
            let (c, l) = tokio::join!(client_a.connect(), listener_b.accept());
            (c, l)
        };
        let ((tx, rx_unused), (tx_unused, rx)) = match conn {
            (Ok(c), Ok(Some(l))) => (c, l),
            (c, l) => {
                return CaseRun {
                    ports: vec![],
                    link,
                    setup_err: Some(format!("port setup failed: {:?} {:?}", c.err(), l.map(|_| ()).err())),
                    run_results: vec![],
                }
            }
        };
        keep.push((rx_unused, tx_unused));
        let slog = Arc::new(Mutex::new(Vec::new()));
        let rlog = Arc::new(Mutex::new(Vec::new()));
        let sh = spawn_actor(sender_actor(tx, p.ops.clone(), snd_cfg, rcv_cfg, tape.clone(), slog.clone(), pi as u32));
        let rh = spawn_actor(receiver_actor(rx, p.modes.clone(), p.slow_receiver, p.recv_cancel.clone(), tape.clone(), rlog.clone()));
        actors.push((sh, rh));
        logs.push((slog, rlog));
    }
    let mut ports = Vec::new();
    let deadline = tokio::time::Instant::now() + std::time::Duration::from_secs(DEADLINE_S);
    let mut sdone = Vec::new();
    let mut rhs = Vec::new();
    for (sh, rh) in actors {
        let sres = tokio::time::timeout_at(deadline, sh).await;
        sdone.push(matches!(sres, Ok(Ok(_))));
        rhs.push(rh);
    }
    // Receivers get their own grace period after the senders are done.
    let deadline = tokio::time::Instant::now() + std::time::Duration::from_secs(DEADLINE_S);
    for ((sender_done, rh), (slog, rlog)) in sdone.into_iter().zip(rhs).zip(logs) {
        let rres = tokio::time::timeout_at(deadline, rh).await;
        let receiver_done = matches!(rres, Ok(Ok(_)));
        drop(rres);
        ports.push(PortRun {
            ops: slog.lock().unwrap().clone(),
            received: rlog.lock().unwrap().clone(),
            sender_done,
            receiver_done,
        });
    }
    drop(keep);
    drop(client_a);
    drop(client_b);
    drop(listener_a);
    drop(listener_b);
    let mut run_results = Vec::new();
    for r in [run_a, run_b] {
        match sim::within(DEADLINE_S, r).await {
            Ok(Ok(Ok(()))) => run_results.push(None),
            Ok(Ok(Err(e))) => run_results.push(Some(format!("{e}"))),
            Ok(Err(e)) => run_results.push(Some(format!("join: {e}"))),
            Err(()) => run_results.push(Some("dispatcher did not terminate".into())),
        }
    }
    CaseRun { ports, link, setup_err: None, run_results }
}

pub fn run_case(case: &Case) -> Outcome {
    let tape = case.sched.tape();
    let res = sim::run_sim(case.sched.tokio_seed, &tape, case.sched.defer, execute(case));
    let mut out = Outcome::default();
    #[allow(non_snake_case)]
    let DEADLINE_S = deadline_s(case);
    out.frames = res.link.tap_len() as u64 / 2;
    if let Some(e) = res.setup_err {
        out.fail("C01/setup", e);
        return out;
    }
    let mut multi_frame_delivered = false;
    let mut special = false;
    let any_stalled = res.ports.iter().any(|p| !p.sender_done);
    for (pi, (p, script)) in res.ports.iter().zip(&case.ports).enumerate() {
        let rcv_cfg = if script.reverse { &case.cfg_a } else { &case.cfg_b };
        let snd_cfg = if script.reverse { &case.cfg_b } else { &case.cfg_a };
        let mds = rcv_cfg.max_data_size;
        for r in &p.received {
            if let RItem::Err(e) = r {
                out.fail("C01/recv-error", format!("port {pi}: receiver got error {e}"));
            }
        }
        for o in &p.ops {
            match o {
                OpResult::Failed(e) => out.fail("C01/send-error", format!("port {pi}: {e} while connection is up")),
                OpResult::Sent(b) => {
                    if b.len() > rcv_cfg.chunk_size as usize {
                        multi_frame_delivered = true;
                    }
                    if b.len() > mds {
                        special = true;
                        out.class("msg>max_data_size");
                    }
                }
                OpResult::NotSent { effective_cancel, len } => {
                    if *effective_cancel {
                        out.class("effective-cancel");
                        if *len > 0 {
                            special = true;
                        }
                    } else {
                        special = true;
                        out.class("abandon-or-full");
                    }
                }
            }
        }
        if script.ops.iter().any(|o| matches!(o.how, How::Try(_))) {
            special = true;
        }
        let _ = snd_cfg;
        let complete = p.sender_done && p.receiver_done;
        if !p.sender_done {
            // A send that never completes although the receiver keeps receiving: if it follows a
            // cancelled / abandoned / failed send, that earlier send disturbed it (C01's
            // cancel-atomicity clause). Without such a predecessor it is C03's subject only.
            out.class("sender-stalled");
            if p.ops.iter().any(|o| matches!(o, OpResult::NotSent { .. })) {
                out.fail(
                    "C01/send-stalled-after-cancel",
                    format!(
                        "port {pi}: a send stays pending for {DEADLINE_S} virtual s (receiver keeps receiving) after earlier cancelled/abandoned/Full sends; completed so far {:?}",
                        p.ops.iter().map(|o| match o { OpResult::Sent(b) => format!("Sent({})", b.len()), OpResult::NotSent { len, .. } => format!("NotSent({len})"), OpResult::Failed(e) => format!("Failed({e})") }).collect::<Vec<_>>()
                    ),
                );
            } else {
                out.inconclusive = true;
            }
        } else if !p.receiver_done && !any_stalled {
            out.fail(
                "C01/not-delivered",
                format!(
                    "port {pi}: all sends finished and sender dropped, but receiver did not reach end-of-stream within {DEADLINE_S} virtual s; received so far {:?}",
                    p.received.iter().map(|r| match r { RItem::Msg(b, _) => format!("Msg({})", b.len()), o => format!("{o:?}") }).collect::<Vec<_>>()
                ),
            );
        }
        let mut ops = p.ops.clone();
        if !p.sender_done {
            // The op in flight when the sender stalled may have emitted part of its message.
            ops.push(OpResult::NotSent { len: usize::MAX, effective_cancel: false });
        }
        if let Err(e) = match_history(&ops, &p.received, mds, complete) {
            let mut it = e.splitn(2, '|');
            let class = it.next().unwrap();
            out.fail(format!("C01/{class}"), format!("port {pi}: {}", it.next().unwrap_or("")));
        }
    }
    if !out.inconclusive {
        for (i, r) in res.run_results.iter().enumerate() {
            if let Some(e) = r {
                out.fail("C01/dispatcher", format!("dispatcher {i} ended with: {e}"));
            }
        }
    }
    out.nontrivial = multi_frame_delivered && special;
    if case.sched.perturbed() {
        out.class("perturbed-schedule");
    }
    if case.ports.len() > 1 {
        out.class("two-ports");
    }
    if case.ports.iter().any(|p| p.recv_cancel.iter().any(|c| *c > 0)) {
        out.class("receive-calls-cancelled");
    }
    // C02 monitor piggy-backs (reported under C01 only as a class, the C02 check owns it).
    out
}

/// Wire-level outcome of the same run, for C02.
pub fn run_case_c02(case: &Case) -> Outcome {
    let tape = case.sched.tape();
    let res = sim::run_sim(case.sched.tokio_seed, &tape, case.sched.defer, execute(case));
    let mut out = Outcome::default();
    let tap = res.link.tap();
    out.frames = tap.len() as u64 / 2;
    let st = wire::analyze(&tap);
    if let Some(v) = st.first_violation() {
        out.fail(format!("C02/{}", v.sig), v.msg.clone());
    }
    let delayed = st.pairs.iter().any(|p| p.flows.iter().any(|f| f.max_credit_delay_ms >= 1000));
    if st.hit_credit_limit {
        out.class("hit-credit-limit");
    }
    if delayed {
        out.class("credit-frame-delayed>=1s");
    }
    out.nontrivial = st.hit_credit_limit && delayed;
    out
}

pub const RULE: &str = "cases = (Cfg pair, schedule {tape, deferral level, tokio seed, link capacity, per-frame delays}, 1-2 ports each with a sender script of whole/try_send/chunked sends with generated lengths (boundary-biased) and cancel points, and a receiver script of recv()/recv_any()+recv_chunk() modes); oracle = received sequence must be exactly the payloads of the sends that returned Ok, in order (DP alignment; ExceedsMaxDataSize allowed only for messages > max_data_size); non-trivial = at least one delivered message spanning more than one frame AND (an effective cancel of a non-empty send, an abandoned chunk stream / try_send Full, a message > max_data_size, or a try_send in the script); distinct = distinct case hash";

pub fn main(tier: Tier, seed: u64) -> Report {
    let mut rep = Report::new("C01", tier, seed);
    rep.rule = RULE.into();
    rep.assumptions = vec![
        "single-threaded deterministic simulation (tokio current-thread, paused clock); task-level interleavings only".into(),
        "transport is reliable and ordered (SimLink), no faults in this property".into(),
        "a stalled sender (flow-control liveness) is counted inconclusive here and decided by C03".into(),
    ];
    let regress: Vec<Case> = runner::load_regress::<Case>("C01", "gen").into_iter().map(|(_, c)| c).collect();
    if !regress.is_empty() {
        runner::run_cases(&mut rep, "regress", regress, run_case);
    }
    let cases = tier.pick(20_000, 300_000);
    runner::run_generated(&mut rep, "gen", cases, || strategy(tier), run_case);
    rep
}

pub fn replay(_part: &str, case: serde_json::Value) -> (Option<runner::Failure>, u32, u32) {
    let case: Case = serde_json::from_value(case).expect("replay case does not parse as C01 case");
    let n = runner::replay_times(5);
    let (f, hits) = runner::replay_case(&case, run_case, n);
    (f, hits, n)
}
