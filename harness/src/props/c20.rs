//! C20 — Handles and lazy values: confinement, type safety, fidelity, release.
//!
//! Part "handle": `robj::handle::Handle` instances travel over a chain (optionally a ring) of
//! 2..4 endpoints; a reference model decides for every `as_ref` / `as_mut` / `into_inner`
//! whether an error is mandatory (foreign endpoint, cast type, value already taken), whether
//! success is mandatory (never left the origin, or documented single round trip) and when the
//! stored value (which carries a drop counter) must / must not have been released.
//!
//! Part "lazy": a `Lazy<T>` or `LazyBlob` is created on one endpoint, forwarded over 0..3
//! connections (back and forth allowed), fetched (optionally while a connection is cut at a
//! generated frame) and compared with what was provided; release of the stored value is
//! observed through a drop guard.

use bytes::Bytes;
use proptest::prelude::*;
use serde::{de::DeserializeOwned, Deserialize, Serialize};
use std::{
    sync::{
        atomic::{AtomicU32, Ordering},
        Arc,
    },
    time::Duration,
};

use crate::engine::{
    gen::{self, connect_pair, sched, GCfg, Sched},
    link::{Fault, FaultKind, SimLink},
    runner::{self, Outcome, Report, Tier},
    sim::{self, tape_pause},
};
use remoc::{
    rch::base,
    robj::{
        handle::{Handle, HandleError, Provider as HandleProvider},
        lazy::Lazy,
        lazy_blob::LazyBlob,
    },
};

// ---------------------------------------------------------------------------------------------
// Observations and known triggers (switches).
// ---------------------------------------------------------------------------------------------

/// A `LazyBlob` fetched on the endpoint that created it *without ever having been sent* yields
/// `FetchError::Dropped` (the request never passes a serializer, so no binary channel is made).
/// That is an error, not a wrong value, and the blob was never "lazily transferred", so the
/// check does not demand success there (observation, class `lazy:blob-local-get-err`).
const REQUIRE_LOCAL_BLOB_FETCH: bool = false;

/// GENUINE FINDING (replay: findings/C20-lazy-fetch-hangs-parked-credit-return.json): with
/// `shared_send_queue = 1` a `LazyBlob::get` (same for `Lazy::get`) issued through a forwarding
/// endpoint never returns when the connection behind the forwarder fails at that moment: the
/// forwarder's `rch::mpsc::recv_impl` task leaves `remote_rx.recv()` with a chmux credit return
/// parked as a stored future (`ChannelCreditReturner::return_fut`, queued for the event queue but
/// only polled by the next receive) and then awaits `raw_tx.send(BACKCHANNEL_MSG_ERROR)` on the
/// same multiplexer, whose `reserve()` queues behind the parked future: self-deadlock; the
/// consumer's port request is never answered, so `get()` yields neither data nor an error.
/// While this constant is true, cases with a transport cut use `shared_send_queue = 16` on all
/// endpoints so that the credit return never finds the event queue full.
const EXCLUDE_PARKED_CREDIT_RETURN_DEADLOCK: bool = false;

/// GENUINE FINDING (replays: findings/C20-lazy-fetch-blocked-by-abandoned-get-{a,b}.json): a
/// `LazyBlob::get()` / `Lazy::get()` future that is dropped while pending leaves the *inner* fetch
/// future alive but unpolled inside the object (`fetch_task`, an `Arc<Mutex<Option<MaybeDone<..>>>>`
/// that only the next `get()` / `into_inner()` on that object polls again). When the fetch was at
/// that moment waiting for a slot of the connection's shared event queue
/// (`chmux::Receiver::recv` -> `ChannelCreditReturner::return_flush` -> `tx.reserve()`, reached
/// when the credit return found the queue full), the parked future keeps its place in the FIFO
/// queue of that semaphore: the next free slot is assigned to it and never used. With
/// `shared_send_queue = 1` every other user of that multiplexer (credit returns and data of the
/// forwarders on that endpoint, requests of other holders) waits behind it until the abandoning
/// holder calls `get()` again or drops its object: another holder's `get()` yields neither data
/// nor an error (signature `C20/lazy-fetch-blocked-after-abandon`; in the replays the blocked
/// fetch delivers the full data immediately after the abandoning holder's object is dropped).
/// Same family as commit 71ffdac (parked credit return), different site: there the library made
/// `recv()` cancel-safe, here the not-cancelled inner future is retained by the lazy object.
/// While this constant is true, cases in which some holder leaves an abandoned fetch unresolved at
/// the end of its script (no later get / into_inner / drop) use `shared_send_queue = 16` on all
/// endpoints, so that the credit return never finds the event queue full. Cases in which every
/// abandoned fetch is later resumed or dropped keep the small queues (the blockage is temporary
/// there and the oracle stays unchanged).
const EXCLUDE_ABANDONED_FETCH_PARKED_QUEUE_SLOT: bool = true;

/// GENUINE FINDING (replays: findings/C20-lazy-not-released-after-abandoned-fetch-{a,b}.json):
/// when a holder drops its `LazyBlob` while its abandoned fetch is still in flight and the binary
/// channel of that fetch passes two or more forwarding endpoints in chunk mode (blob larger than
/// the forwarders' `max_data_size`), the blob data is never released (drop guard never fires) and
/// forwarding tasks and ports stay allocated for ever. `chmux::forward::forward` runs its sender
/// with `override_graceful_close = true`. The forwarder next to the holder sees its sender closed,
/// calls `rx.close()` (ReceiveClose upstream, a *graceful* close), fails on its next chunk send
/// and drops its receiver (ReceiveFinish upstream). In `chmux/mux.rs` the `ReceiveFinish` handler
/// calls `sender_credit_provider.close(false)` only when `remote_receiver_closed` is not yet set;
/// after the earlier ReceiveClose it is set, so `closed` stays `Some(true)`. The upstream
/// forwarder, waiting in `CreditUser::request` for credits for its next chunk, ignores a graceful
/// close because of the override and is never told that the receiver is gone: it waits for ever,
/// keeps its own receiver open without returning credits, and the provider's send task (which
/// owns a clone of the data) stays blocked behind it. Experiment (scratch build, reverted): calling
/// `close(false)` on every ReceiveFinish makes all replays pass and the whole quick tier silent.
/// The trigger needs a receiver that goes away in the middle of a chunked transfer, i.e. an
/// abandoned fetch; fetches awaited to completion never produce it.
/// While this constant is true, cases in which a holder may drop its object with an abandoned,
/// unfinished fetch after three or more forwards use `max_data_size = 65536` on all endpoints
/// (forwarders then receive the whole blob before they pass it on and never fail mid-message).
const EXCLUDE_FORWARDER_STUCK_AFTER_CLOSE_THEN_DROP: bool = false;

// ---------------------------------------------------------------------------------------------
// Network of 2..4 endpoints.
// ---------------------------------------------------------------------------------------------

/// One direction of one link: typed sender on the source endpoint, typed receiver on the other.
struct Lane<P> {
    tx: base::Sender<P>,
    rx: base::Receiver<P>,
}

struct Net<P> {
    n: usize,
    links: Vec<SimLink>,
    /// Link k connects endpoints ends[k].0 (side A) and ends[k].1 (side B).
    ends: Vec<(usize, usize)>,
    /// lanes[k][0]: A -> B, lanes[k][1]: B -> A.
    lanes: Vec<[Lane<P>; 2]>,
    /// Keeps clients, listeners and dispatcher join handles alive.
    keep: Vec<(gen::Side, gen::Side)>,
}

impl<P> Net<P> {
    /// (link, direction, destination) of every lane that starts at endpoint `e`.
    fn exits(&self, e: usize) -> Vec<(usize, usize, usize)> {
        let mut v = Vec::new();
        for (k, (a, b)) in self.ends.iter().enumerate() {
            if *a == e {
                v.push((k, 0, *b));
            }
            if *b == e {
                v.push((k, 1, *a));
            }
        }
        v
    }

    fn frames(&self) -> u64 {
        self.links.iter().map(|l| l.tap_len() as u64 / 2).sum()
    }
}

fn cap_ms(cfgs: &[GCfg]) -> u64 {
    cfgs.iter().filter_map(|c| c.timeout_s).min().map(|t| t as u64 * 1000 / 4).unwrap_or(10_000)
}

async fn build_net<P>(n: usize, ring: bool, cfgs: &[GCfg], s: &Sched) -> Result<Net<P>, String>
where
    P: Serialize + DeserializeOwned + Send + 'static,
{
    let mut ends: Vec<(usize, usize)> = (0..n - 1).map(|k| (k, k + 1)).collect();
    if ring {
        ends.push((n - 1, 0));
    }
    let mut net = Net { n, links: vec![], ends: ends.clone(), lanes: vec![], keep: vec![] };
    for (a, b) in ends {
        let (link, sa, sb) = connect_pair(&cfgs[a], &cfgs[b], s, vec![]).await?;
        // Like a real transport: the wire (and the tap) must not share memory with the sender's
        // buffers, otherwise the tap itself would keep a provided blob alive.
        link.set_copy_frames(true);
        let gen::Side { client: ca, listener: la, run: ra } = sa;
        let gen::Side { client: cb, listener: mut lb, run: rb } = sb;
        let (conn, acc) = tokio::join!(sim::within(3000, ca.connect()), sim::within(3000, lb.accept()));
        let ((tx_a, rx_a), (tx_b, rx_b)) = match (conn, acc) {
            (Ok(Ok(c)), Ok(Ok(Some(l)))) => (c, l),
            _ => return Err(format!("base port setup failed on link {a}-{b}")),
        };
        net.lanes.push([
            Lane { tx: base::Sender::new(tx_a), rx: base::Receiver::new(rx_b) },
            Lane { tx: base::Sender::new(tx_b), rx: base::Receiver::new(rx_a) },
        ]);
        net.links.push(link);
        net.keep.push((gen::Side { client: ca, listener: la, run: ra }, gen::Side { client: cb, listener: lb, run: rb }));
    }
    Ok(net)
}

/// Moves one parcel over lane (k, d); both halves are driven concurrently and bounded.
async fn xfer<P>(net: &mut Net<P>, k: usize, d: usize, parcel: P, deadline: u64) -> Result<P, String>
where
    P: Serialize + DeserializeOwned + Send + 'static,
{
    let lane = &mut net.lanes[k][d];
    let (s, r) = tokio::join!(sim::within(deadline, lane.tx.send(parcel)), sim::within(deadline, lane.rx.recv()));
    match (s, r) {
        (Ok(Ok(())), Ok(Ok(Some(p)))) => Ok(p),
        (Err(()), _) => Err("send did not complete".into()),
        (_, Err(())) => Err("receive did not complete".into()),
        (Ok(Err(e)), _) => Err(format!("send failed: {:?}", e.kind)),
        (_, Ok(Err(e))) => Err(format!("receive failed: {e}")),
        (_, Ok(Ok(None))) => Err("receive: channel ended".into()),
    }
}

/// `small_mds`: allow a small `max_data_size` (lazy part: blobs larger than it are streamed
/// chunk-wise through forwarding endpoints). Typed items always stay below `max_data_size`, so
/// nothing is (de)serialised on helper threads and the paused clock / virtual deadlines stay sound.
fn cfg_strategy(small_mds: bool) -> BoxedStrategy<GCfg> {
    let mds = if small_mds {
        prop_oneof![2 => Just(256usize), 1 => Just(1024usize), 2 => Just(1usize << 16), 1 => 200usize..=700].boxed()
    } else {
        Just(1usize << 16).boxed()
    };
    (
        prop_oneof![2 => Just(16u32), 2 => Just(64u32), 1 => Just(1024u32), 2 => 8u32..=96],
        prop_oneof![2 => Just(64u32), 2 => Just(256u32), 1 => Just(4096u32), 2 => 32u32..=400],
        1usize..=3,
        1usize..=3,
        1usize..=3,
        mds,
    )
        .prop_map(|(chunk_size, receive_buffer, shared_q, tsend_q, trecv_q, max_data_size)| GCfg {
            chunk_size,
            receive_buffer,
            max_data_size,
            shared_q,
            tsend_q,
            trecv_q,
            connect_queue: 4,
            max_ports: 128,
            max_received_ports: 32,
            timeout_s: Some(60),
        })
        .boxed()
}

// ---------------------------------------------------------------------------------------------
// Part "handle".
// ---------------------------------------------------------------------------------------------

/// The stored value: identity, a field mutated through `as_mut`, and a drop counter.
pub struct Val {
    id: u32,
    gen: u32,
    drops: Arc<AtomicU32>,
    clones: Arc<AtomicU32>,
}

impl Drop for Val {
    fn drop(&mut self) {
        self.drops.fetch_add(1, Ordering::SeqCst);
    }
}

/// `Handle<T>: Clone` is derived and therefore asks for `T: Clone`; cloning a handle must never
/// clone the value, which is recorded here.
impl Clone for Val {
    fn clone(&self) -> Self {
        self.clones.fetch_add(1, Ordering::SeqCst);
        Val { id: self.id, gen: self.gen, drops: self.drops.clone(), clones: self.clones.clone() }
    }
}

/// The "other type" a handle is cast to.
#[derive(Clone)]
pub struct Decoy(#[allow(dead_code)] u64);

#[derive(Serialize, Deserialize)]
enum HParcel {
    Orig(Handle<Val>),
    Cast(Handle<Decoy>),
}

enum HAny {
    Orig(Handle<Val>),
    Cast(Handle<Decoy>),
}

#[derive(Clone, Debug, Serialize, Deserialize, PartialEq, Eq, Hash)]
pub struct VSpec {
    pub origin: u8,
    /// true: `Handle::provided` (provider held until a Provider op or the end); false: `Handle::new`.
    pub provided: bool,
}

#[derive(Clone, Debug, Serialize, Deserialize, PartialEq, Eq, Hash)]
pub enum HOp {
    Clone { i: u8 },
    Drop { i: u8 },
    Cast { i: u8 },
    /// Send instance i over the `via`-th lane leaving its endpoint.
    Send { i: u8, via: u8 },
    AsRef { i: u8 },
    AsMut { i: u8 },
    /// `into_inner`.
    Take { i: u8 },
    /// keep() or drop the provider of value v (no effect when it is gone already).
    Provider { v: u8, keep: bool },
    Pause,
}

#[derive(Clone, Debug, Serialize, Deserialize, PartialEq, Eq, Hash)]
pub struct Case {
    pub n: u8,
    pub ring: bool,
    pub cfgs: Vec<GCfg>,
    pub sched: Sched,
    pub values: Vec<VSpec>,
    pub ops: Vec<HOp>,
    /// Sort keys giving the order in which leftover instances are dropped at the end.
    pub final_order: Vec<u8>,
}

pub fn strategy(tier: Tier) -> BoxedStrategy<Case> {
    let max_ops = tier.pick(24usize, 40usize);
    let op = prop_oneof![
        3 => any::<u8>().prop_map(|i| HOp::Clone { i }),
        3 => any::<u8>().prop_map(|i| HOp::Drop { i }),
        1 => any::<u8>().prop_map(|i| HOp::Cast { i }),
        7 => (any::<u8>(), any::<u8>()).prop_map(|(i, via)| HOp::Send { i, via }),
        3 => any::<u8>().prop_map(|i| HOp::AsRef { i }),
        2 => any::<u8>().prop_map(|i| HOp::AsMut { i }),
        1 => any::<u8>().prop_map(|i| HOp::Take { i }),
        2 => (any::<u8>(), prop_oneof![1 => Just(true), 2 => Just(false)]).prop_map(|(v, keep)| HOp::Provider { v, keep }),
        1 => Just(HOp::Pause),
    ];
    (
        2u8..=4,
        prop_oneof![2 => Just(false), 1 => Just(true)],
        proptest::collection::vec(cfg_strategy(false), 4),
        sched(true),
        proptest::collection::vec((0u8..4, any::<bool>()).prop_map(|(origin, provided)| VSpec { origin, provided }), 1..=2),
        proptest::collection::vec(op, 0..max_ops),
        proptest::collection::vec(any::<u8>(), 0..8),
    )
        .prop_map(|(n, ring, cfgs, sched, values, ops, final_order)| Case { n, ring, cfgs, sched, values, ops, final_order })
        .boxed()
}

struct Token {
    /// Link over which the handle left its origin (its id lives in that connection's storage).
    link: usize,
    /// An instance carrying this token has already been received back on the origin over `link`.
    returned: bool,
}

struct Inst {
    h: HAny,
    val: usize,
    at: usize,
    cast: bool,
    token: Option<usize>,
    /// Model: this instance shares ownership of the stored value (never left the origin, or is
    /// the first return of its token over the right connection).
    has_arc: bool,
    hops: u32,
}

struct VState {
    origin: usize,
    provider: Option<HandleProvider>,
    prov_dropped: bool,
    taken: bool,
    gen: u32,
    drops: Arc<AtomicU32>,
    clones: Arc<AtomicU32>,
    release_seen: bool,
}

#[derive(Debug)]
enum Deref {
    Ok { id: u32, gen: u32 },
    Unknown,
    Mismatch,
    Hang,
}

#[derive(Default)]
pub struct HOut {
    pub fails: Vec<(String, String)>,
    pub classes: Vec<String>,
    pub frames: u64,
    pub transfers: u32,
    pub travelled_derefs: u32,
    pub required_releases: u32,
}

impl HOut {
    fn fail(&mut self, sig: &str, msg: String) {
        self.fails.push((sig.to_string(), msg));
    }
    fn class(&mut self, c: &str) {
        if !self.classes.iter().any(|x| x == c) {
            self.classes.push(c.to_string());
        }
    }
}

struct HModel {
    vals: Vec<VState>,
    tokens: Vec<Token>,
    insts: Vec<Inst>,
}

impl HModel {
    fn must_be_alive(&self, v: usize) -> bool {
        let vs = &self.vals[v];
        if vs.prov_dropped || vs.taken {
            return false;
        }
        self.insts.iter().any(|i| {
            i.val == v && ((i.has_arc && i.at == vs.origin) || i.token.map(|t| !self.tokens[t].returned).unwrap_or(false))
        })
    }

    /// Some(rule) when the statement demands that the value has been released.
    fn must_be_released(&self, v: usize) -> Option<&'static str> {
        let vs = &self.vals[v];
        if vs.taken {
            return Some("taken");
        }
        if !self.insts.iter().any(|i| i.val == v) {
            return Some("all-handles-gone");
        }
        if vs.prov_dropped && !self.insts.iter().any(|i| i.val == v && i.at == vs.origin) {
            return Some("provider-dropped");
        }
        None
    }
}

/// Compares the drop counters with the model; waits (virtual time) where release is mandatory.
async fn check_release(m: &mut HModel, out: &mut HOut, wait_s: u64, ctx: &str) {
    for v in 0..m.vals.len() {
        let d = m.vals[v].drops.load(Ordering::SeqCst);
        if m.vals[v].clones.load(Ordering::SeqCst) > 0 {
            out.fail("C20/value-cloned", format!("value {v}: the stored value itself was cloned ({ctx})"));
        }
        if d > 1 {
            out.fail("C20/double-drop", format!("value {v}: drop counter is {d} ({ctx})"));
            continue;
        }
        if d == 1 && !m.vals[v].taken && m.must_be_alive(v) {
            out.fail(
                "C20/released-early",
                format!("value {v}: stored value was dropped although its provider is alive, nobody took it and a handle that must still resolve exists ({ctx})"),
            );
            continue;
        }
        if d == 1 {
            if !m.vals[v].release_seen {
                m.vals[v].release_seen = true;
                if m.must_be_released(v).is_none() {
                    out.class("h:released-not-required(O2)");
                }
            }
            continue;
        }
        if let Some(rule) = m.must_be_released(v) {
            if rule == "taken" {
                out.fail("C20/not-released", format!("value {v}: into_inner consumed the value on its origin but the drop counter is 0 ({ctx})"));
                continue;
            }
            // Wait with one overall deadline.
            let mut waited = 0u64;
            let mut step = 1u64;
            while m.vals[v].drops.load(Ordering::SeqCst) == 0 && waited < wait_s {
                tokio::time::sleep(Duration::from_secs(step)).await;
                waited += step;
                step = (step * 2).min(100);
            }
            let d = m.vals[v].drops.load(Ordering::SeqCst);
            if d == 0 {
                out.fail(
                    "C20/not-released",
                    format!("value {v}: not released {waited} virtual s after rule '{rule}' applied, all connections alive ({ctx})"),
                );
            } else {
                m.vals[v].release_seen = true;
                out.required_releases += 1;
                out.class(&format!("h:release:{rule}"));
            }
        }
    }
}

fn judge(m: &HModel, out: &mut HOut, inst_val: usize, at: usize, cast: bool, has_arc: bool, hops: u32, what: &str, res: &Deref, gen_before: u32) {
    let vs = &m.vals[inst_val];
    let foreign = at != vs.origin;
    let ctx = format!(
        "{what} on value {inst_val} at endpoint {at} (origin {}), cast={cast}, travelled {hops} hops, model-resolvable={has_arc}, taken={}, provider-dropped={}",
        vs.origin, vs.taken, vs.prov_dropped
    );
    match res {
        Deref::Hang => out.fail("C20/deref-hangs", format!("{ctx}: did not complete although no reference is held")),
        Deref::Ok { id, gen } => {
            if foreign {
                out.fail("C20/foreign-deref", format!("{ctx}: returned a value (id {id}) on an endpoint that did not create it"));
            } else if cast {
                out.fail("C20/cast-deref", format!("{ctx}: returned a value at a type other than the original"));
            } else if vs.taken {
                out.fail("C20/use-after-take", format!("{ctx}: returned a value (id {id}) after into_inner had taken it"));
            } else if *id != inst_val as u32 + 100 || *gen != gen_before {
                out.fail("C20/wrong-value", format!("{ctx}: returned id {id} gen {gen}, expected id {} gen {gen_before}", inst_val + 100));
            } else {
                out.class(if hops == 0 { "h:local-deref-ok" } else { "h:returned-deref-ok" });
            }
        }
        Deref::Unknown | Deref::Mismatch => {
            let required = !foreign && !cast && !vs.taken && has_arc && !vs.prov_dropped;
            if required {
                out.fail(
                    "C20/origin-deref-failed",
                    format!("{ctx}: returned {res:?} although the handle {} and its provider is alive", if hops == 0 { "never left its origin" } else { "made the documented single round trip" }),
                );
            } else if foreign {
                out.class("h:foreign-deref-err");
            } else if cast {
                out.class("h:cast-deref-err");
            } else if vs.taken {
                out.class("h:use-after-take-err");
            } else if !has_arc {
                out.class("h:stale-at-origin-err(O2)");
            } else {
                out.class("h:after-provider-drop-err");
            }
        }
    }
}

async fn execute_handle(case: &Case) -> HOut {
    let mut out = HOut::default();
    let n = case.n as usize;
    let tape = case.sched.tape();
    let cap = cap_ms(&case.cfgs);
    let deadline = case.sched.deadline_s(400, cap);
    let mut net: Net<HParcel> = match build_net(n, case.ring, &case.cfgs, &case.sched).await {
        Ok(x) => x,
        Err(e) => {
            out.fail("C20/setup", e);
            return out;
        }
    };
    let mut m = HModel { vals: vec![], tokens: vec![], insts: vec![] };
    for (v, spec) in case.values.iter().enumerate() {
        let origin = spec.origin as usize % n;
        let drops = Arc::new(AtomicU32::new(0));
        let clones = Arc::new(AtomicU32::new(0));
        let val = Val { id: v as u32 + 100, gen: 0, drops: drops.clone(), clones: clones.clone() };
        let (h, provider) = if spec.provided {
            let (h, p) = Handle::<Val>::provided(val);
            (h, Some(p))
        } else {
            (Handle::<Val>::new(val), None)
        };
        m.vals.push(VState { origin, provider, prov_dropped: false, taken: false, gen: 0, drops, clones, release_seen: false });
        m.insts.push(Inst { h: HAny::Orig(h), val: v, at: origin, cast: false, token: None, has_arc: true, hops: 0 });
    }
    if case.values.len() > 1 {
        out.class("h:two-values");
    }
    if case.ring {
        out.class("h:ring");
    }

    for (step, op) in case.ops.iter().enumerate() {
        if !out.fails.is_empty() {
            break;
        }
        let ctx = format!("after op {step} {op:?}");
        let pick = |i: u8, len: usize| if len == 0 { None } else { Some(i as usize % len) };
        match op {
            HOp::Pause => tape_pause(&tape, true).await,
            HOp::Provider { v, keep } => {
                let v = *v as usize % m.vals.len();
                if let Some(p) = m.vals[v].provider.take() {
                    if *keep {
                        p.keep();
                        out.class("h:provider-keep");
                    } else {
                        drop(p);
                        m.vals[v].prov_dropped = true;
                        out.class("h:provider-dropped");
                    }
                }
            }
            HOp::Clone { i } => {
                if let Some(i) = pick(*i, m.insts.len()) {
                    let s = &m.insts[i];
                    let h = match &s.h {
                        HAny::Orig(h) => HAny::Orig(h.clone()),
                        HAny::Cast(h) => HAny::Cast(h.clone()),
                    };
                    let c = Inst { h, val: s.val, at: s.at, cast: s.cast, token: s.token, has_arc: s.has_arc, hops: s.hops };
                    m.insts.push(c);
                }
            }
            HOp::Drop { i } => {
                if let Some(i) = pick(*i, m.insts.len()) {
                    let inst = m.insts.remove(i);
                    if inst.at != m.vals[inst.val].origin {
                        out.class("h:drop-remote");
                    }
                    drop(inst);
                }
            }
            HOp::Cast { i } => {
                if let Some(i) = pick(*i, m.insts.len()) {
                    let mut inst = m.insts.remove(i);
                    inst.h = match inst.h {
                        HAny::Orig(h) => HAny::Cast(h.cast::<Decoy>()),
                        HAny::Cast(h) => HAny::Orig(h.cast::<Val>()),
                    };
                    inst.cast = !inst.cast;
                    m.insts.insert(i, inst);
                }
            }
            HOp::Send { i, via } => {
                if let Some(i) = pick(*i, m.insts.len()) {
                    let exits = net.exits(m.insts[i].at);
                    let (k, d, dest) = exits[*via as usize % exits.len()];
                    let mut inst = m.insts.remove(i);
                    let origin = m.vals[inst.val].origin;
                    if inst.at == origin && inst.token.is_none() {
                        m.tokens.push(Token { link: k, returned: false });
                        inst.token = Some(m.tokens.len() - 1);
                    }
                    let parcel = match inst.h {
                        HAny::Orig(h) => HParcel::Orig(h),
                        HAny::Cast(h) => HParcel::Cast(h),
                    };
                    match xfer(&mut net, k, d, parcel, deadline).await {
                        Ok(p) => {
                            inst.h = match p {
                                HParcel::Orig(h) => HAny::Orig(h),
                                HParcel::Cast(h) => HAny::Cast(h),
                            };
                            inst.at = dest;
                            inst.hops += 1;
                            inst.has_arc = false;
                            out.transfers += 1;
                            if dest == origin {
                                let t = &mut m.tokens[inst.token.unwrap()];
                                if t.link == k && !t.returned {
                                    t.returned = true;
                                    inst.has_arc = true;
                                } else if t.link != k {
                                    out.class("h:return-over-other-connection");
                                }
                            }
                            out.class(&format!("h:hops={}", inst.hops.min(6)));
                            m.insts.insert(i, inst);
                        }
                        Err(e) => {
                            out.fail("C20/transfer-failed", format!("sending a handle over healthy link {k} dir {d} failed: {e} ({ctx})"));
                            break;
                        }
                    }
                }
            }
            HOp::AsRef { i } | HOp::AsMut { i } | HOp::Take { i } => {
                if let Some(i) = pick(*i, m.insts.len()) {
                    let gen_before = m.vals[m.insts[i].val].gen;
                    let (what, res, info) = match op {
                        HOp::AsRef { .. } => {
                            let inst = &m.insts[i];
                            let res = match &inst.h {
                                HAny::Orig(h) => match sim::within(deadline, h.as_ref()).await {
                                    Ok(Ok(r)) => Deref::Ok { id: r.id, gen: r.gen },
                                    Ok(Err(HandleError::Unknown)) => Deref::Unknown,
                                    Ok(Err(HandleError::MismatchedType(_))) => Deref::Mismatch,
                                    Err(()) => Deref::Hang,
                                },
                                HAny::Cast(h) => match sim::within(deadline, h.as_ref()).await {
                                    Ok(Ok(_)) => Deref::Ok { id: u32::MAX, gen: 0 },
                                    Ok(Err(HandleError::Unknown)) => Deref::Unknown,
                                    Ok(Err(HandleError::MismatchedType(_))) => Deref::Mismatch,
                                    Err(()) => Deref::Hang,
                                },
                            };
                            ("as_ref", res, (inst.val, inst.at, inst.cast, inst.has_arc, inst.hops))
                        }
                        HOp::AsMut { .. } => {
                            let inst = &mut m.insts[i];
                            let res = match &mut inst.h {
                                HAny::Orig(h) => match sim::within(deadline, h.as_mut()).await {
                                    Ok(Ok(mut r)) => {
                                        let seen = Deref::Ok { id: r.id, gen: r.gen };
                                        r.gen += 1;
                                        seen
                                    }
                                    Ok(Err(HandleError::Unknown)) => Deref::Unknown,
                                    Ok(Err(HandleError::MismatchedType(_))) => Deref::Mismatch,
                                    Err(()) => Deref::Hang,
                                },
                                HAny::Cast(h) => match sim::within(deadline, h.as_mut()).await {
                                    Ok(Ok(_)) => Deref::Ok { id: u32::MAX, gen: 0 },
                                    Ok(Err(HandleError::Unknown)) => Deref::Unknown,
                                    Ok(Err(HandleError::MismatchedType(_))) => Deref::Mismatch,
                                    Err(()) => Deref::Hang,
                                },
                            };
                            ("as_mut", res, (inst.val, inst.at, inst.cast, inst.has_arc, inst.hops))
                        }
                        _ => {
                            let inst = m.insts.remove(i);
                            let info = (inst.val, inst.at, inst.cast, inst.has_arc, inst.hops);
                            let res = match inst.h {
                                HAny::Orig(h) => match sim::within(deadline, h.into_inner()).await {
                                    Ok(Ok(v)) => Deref::Ok { id: v.id, gen: v.gen },
                                    Ok(Err(HandleError::Unknown)) => Deref::Unknown,
                                    Ok(Err(HandleError::MismatchedType(_))) => Deref::Mismatch,
                                    Err(()) => Deref::Hang,
                                },
                                HAny::Cast(h) => match sim::within(deadline, h.into_inner()).await {
                                    Ok(Ok(_)) => Deref::Ok { id: u32::MAX, gen: 0 },
                                    Ok(Err(HandleError::Unknown)) => Deref::Unknown,
                                    Ok(Err(HandleError::MismatchedType(_))) => Deref::Mismatch,
                                    Err(()) => Deref::Hang,
                                },
                            };
                            ("into_inner", res, info)
                        }
                    };
                    let (val, at, cast, has_arc, hops) = info;
                    judge(&m, &mut out, val, at, cast, has_arc, hops, what, &res, gen_before);
                    if hops > 0 {
                        out.travelled_derefs += 1;
                    }
                    if at == m.vals[val].origin {
                        match (op, &res) {
                            (HOp::AsMut { .. }, Deref::Ok { .. }) => m.vals[val].gen += 1,
                            (HOp::Take { .. }, Deref::Ok { .. }) => {
                                m.vals[val].taken = true;
                                out.class("h:take-ok");
                            }
                            (HOp::Take { .. }, Deref::Mismatch) => {
                                // A wrongly typed into_inner consumes the value and reports an error.
                                m.vals[val].taken = true;
                                out.class("h:take-cast-consumes");
                            }
                            _ => {}
                        }
                    }
                }
            }
        }
        check_release(&mut m, &mut out, deadline, &ctx).await;
    }

    // Final phase: leftover instances go in a generated order, providers that are still held
    // stay alive until every handle is gone (the value must be released nevertheless).
    let mut k = 0usize;
    while !m.insts.is_empty() && out.fails.is_empty() {
        let key = case.final_order.get(k).copied().unwrap_or(0);
        k += 1;
        let i = key as usize % m.insts.len();
        let inst = m.insts.remove(i);
        let ctx = format!("final phase: dropped an instance of value {} at endpoint {}", inst.val, inst.at);
        drop(inst);
        check_release(&mut m, &mut out, deadline, &ctx).await;
    }
    if out.fails.is_empty() {
        check_release(&mut m, &mut out, deadline, "end of script, all handles dropped, connections alive").await;
    }
    out.frames = net.frames();
    for v in &mut m.vals {
        v.provider.take();
    }
    drop(net);
    out
}

pub fn run_handle(case: &Case) -> Outcome {
    let tape = case.sched.tape();
    let res = sim::run_sim(case.sched.tokio_seed, &tape, case.sched.defer, execute_handle(case));
    let mut out = Outcome::default();
    out.frames = res.frames;
    if let Some((s, m)) = res.fails.first() {
        out.fail(s.clone(), m.clone());
    }
    for c in &res.classes {
        out.class(c.clone());
    }
    out.class(format!("h:endpoints={}", case.n));
    out.nontrivial = res.transfers > 0 && res.travelled_derefs > 0 && res.required_releases > 0;
    out
}

// ---------------------------------------------------------------------------------------------
// Part "lazy".
// ---------------------------------------------------------------------------------------------

#[derive(Clone, Debug, Serialize, Deserialize, PartialEq)]
pub struct LVal {
    tag: u32,
    body: String,
}

#[derive(Serialize, Deserialize)]
enum LParcel {
    L(Lazy<LVal>),
    B(LazyBlob),
}

struct DropGuard(Arc<AtomicU32>);

impl Drop for DropGuard {
    fn drop(&mut self) {
        self.0.fetch_add(1, Ordering::SeqCst);
    }
}

struct BlobOwner {
    data: Vec<u8>,
    _guard: DropGuard,
}

impl AsRef<[u8]> for BlobOwner {
    fn as_ref(&self) -> &[u8] {
        &self.data
    }
}

#[derive(Clone, Copy, Debug, Serialize, Deserialize, PartialEq, Eq, Hash)]
pub enum PMode {
    /// `Lazy::new` / `LazyBlob::new` semantics (provider.keep()).
    Kept,
    /// Provider object held by the creator until the fetch is over, then dropped.
    Held,
    DropBeforeSend,
    DropBeforeGet,
}

#[derive(Clone, Copy, Debug, Serialize, Deserialize, PartialEq, Eq, Hash)]
pub enum FetchMode {
    Get,
    GetTwice,
    IntoInner,
    /// The consumer is dropped without fetching.
    Skip,
}

#[derive(Clone, Copy, Debug, Serialize, Deserialize, PartialEq, Eq, Hash)]
pub struct Cut {
    pub link: u8,
    pub dir: u8,
    /// Frames of that direction that still pass after the fetch started.
    pub after: u16,
    pub kind: FaultKind,
}

#[derive(Clone, Debug, Serialize, Deserialize, PartialEq, Eq, Hash)]
pub struct LCase {
    pub n: u8,
    pub cfgs: Vec<GCfg>,
    pub sched: Sched,
    pub blob: bool,
    /// Size: base selector, offset, or absolute.
    pub len_sel: u8,
    pub len_off: i8,
    pub len_abs: Option<u16>,
    pub origin: u8,
    /// Moves along the chain: true = towards the higher endpoint (reflected at the ends).
    pub route: Vec<bool>,
    pub provider: PMode,
    /// Blob only: keep a clone on the endpoint before the i-th move and fetch there as well.
    pub keep_clones: Vec<bool>,
    pub fetch: FetchMode,
    pub cut: Option<Cut>,
}

pub fn lstrategy(_tier: Tier) -> BoxedStrategy<LCase> {
    let kind = prop_oneof![Just(FaultKind::Eof), Just(FaultKind::StreamError), Just(FaultKind::SinkError), Just(FaultKind::Stall), Just(FaultKind::StallOneWay)];
    let cut = (0u8..3, 0u8..2, prop_oneof![3 => 0u16..24, 1 => 0u16..400], kind).prop_map(|(link, dir, after, kind)| Cut { link, dir, after, kind });
    (
        (2u8..=4, proptest::collection::vec(cfg_strategy(true), 4), sched(true), any::<bool>()),
        (any::<u8>(), -1i8..=1, prop_oneof![4 => Just(None), 2 => (0u16..=300).prop_map(Some), 2 => (0u16..=6000).prop_map(Some), 1 => (0u16..=1).prop_map(Some)]),
        0u8..4,
        proptest::collection::vec(any::<bool>(), 0..=3),
        prop_oneof![4 => Just(PMode::Kept), 3 => Just(PMode::Held), 1 => Just(PMode::DropBeforeSend), 1 => Just(PMode::DropBeforeGet)],
        proptest::collection::vec(prop_oneof![3 => Just(false), 1 => Just(true)], 3),
        prop_oneof![4 => Just(FetchMode::Get), 2 => Just(FetchMode::GetTwice), 2 => Just(FetchMode::IntoInner), 1 => Just(FetchMode::Skip)],
        prop_oneof![3 => Just(None), 2 => cut.prop_map(Some)],
    )
        .prop_map(|((n, mut cfgs, sched, blob), (len_sel, len_off, len_abs), origin, route, provider, keep_clones, fetch, cut)| {
            if EXCLUDE_PARKED_CREDIT_RETURN_DEADLOCK && cut.is_some() {
                for c in cfgs.iter_mut() {
                    c.shared_q = 16;
                }
            }
            LCase {
            n,
            cfgs,
            sched,
            blob,
            len_sel,
            len_off,
            len_abs,
            origin,
            route,
            provider,
            keep_clones,
            fetch,
            cut,
            }
        })
        .boxed()
}

fn resolve_len(c: &LCase) -> usize {
    let n = c.n as usize;
    let min_mds = c.cfgs[..n].iter().map(|g| g.max_data_size).min().unwrap_or(256);
    // A lazily sent *value* is a typed item: keep it below every max_data_size (see cfg_strategy).
    let max = if c.blob { 9000 } else { min_mds.saturating_sub(64).min(9000) };
    if let Some(a) = c.len_abs {
        return (a as usize).min(max);
    }
    let mut bases: Vec<usize> = Vec::new();
    for cfg in &c.cfgs[..n] {
        let (cs, rb, mds) = (cfg.chunk_size as usize, cfg.receive_buffer as usize, cfg.max_data_size);
        bases.extend([cs, rb, 2 * cs, 2 * rb, 3 * cs, rb + cs, rb / 2, mds, 2 * mds, mds + cs]);
    }
    let base = bases[c.len_sel as usize % bases.len()] as i64;
    (base + c.len_off as i64).clamp(0, max as i64) as usize
}

fn body(len: usize) -> Vec<u8> {
    // Printable ASCII, position dependent, so that a shifted or truncated copy never compares equal.
    (0..len).map(|i| b'!' + ((i as u32).wrapping_mul(2654435761) >> 11) as u8 % 90).collect()
}

#[derive(Default)]
pub struct LOut {
    pub fails: Vec<(String, String)>,
    pub classes: Vec<String>,
    pub frames: u64,
    pub hops: u32,
    pub compared: u32,
    pub cut_errors: u32,
}

impl LOut {
    fn fail(&mut self, sig: &str, msg: String) {
        self.fails.push((sig.to_string(), msg));
    }
    fn class(&mut self, c: &str) {
        if !self.classes.iter().any(|x| x == c) {
            self.classes.push(c.to_string());
        }
    }
}

/// Result of one fetch: Ok(bytes) / Err(text) / hang.
enum Fetched {
    Data(Vec<u8>, u32),
    Err(String),
    Hang,
}

enum Consumer {
    L(Lazy<LVal>),
    B(LazyBlob),
}

async fn fetch_one(c: Consumer, mode: FetchMode, deadline: u64) -> (Vec<Fetched>, Option<Consumer>) {
    let mut res = Vec::new();
    match c {
        Consumer::L(l) => match mode {
            FetchMode::Skip => (res, Some(Consumer::L(l))),
            FetchMode::IntoInner => {
                res.push(match sim::within(deadline, l.into_inner()).await {
                    Ok(Ok(v)) => Fetched::Data(v.body.into_bytes(), v.tag),
                    Ok(Err(e)) => Fetched::Err(format!("{e:?}")),
                    Err(()) => Fetched::Hang,
                });
                (res, None)
            }
            FetchMode::Get | FetchMode::GetTwice => {
                let times = if mode == FetchMode::GetTwice { 2 } else { 1 };
                for _ in 0..times {
                    let r = match sim::within(deadline, l.get()).await {
                        Ok(Ok(v)) => Fetched::Data(v.body.clone().into_bytes(), v.tag),
                        Ok(Err(e)) => Fetched::Err(format!("{e:?}")),
                        Err(()) => Fetched::Hang,
                    };
                    let hang = matches!(r, Fetched::Hang);
                    res.push(r);
                    if hang {
                        break;
                    }
                }
                (res, Some(Consumer::L(l)))
            }
        },
        Consumer::B(b) => match mode {
            FetchMode::Skip => (res, Some(Consumer::B(b))),
            FetchMode::IntoInner => {
                res.push(match sim::within(deadline, b.into_inner()).await {
                    Ok(Ok(v)) => Fetched::Data(Vec::from(v), 7),
                    Ok(Err(e)) => Fetched::Err(format!("{e:?}")),
                    Err(()) => Fetched::Hang,
                });
                (res, None)
            }
            FetchMode::Get | FetchMode::GetTwice => {
                let times = if mode == FetchMode::GetTwice { 2 } else { 1 };
                for _ in 0..times {
                    let r = match sim::within(deadline, b.get()).await {
                        Ok(Ok(v)) => Fetched::Data(Vec::from(v), 7),
                        Ok(Err(e)) => Fetched::Err(format!("{e:?}")),
                        Err(()) => Fetched::Hang,
                    };
                    let hang = matches!(r, Fetched::Hang);
                    res.push(r);
                    if hang {
                        break;
                    }
                }
                (res, Some(Consumer::B(b)))
            }
        },
    }
}

async fn wait_released(drops: &Arc<AtomicU32>, wait_s: u64) -> (bool, u64) {
    let mut waited = 0u64;
    let mut step = 1u64;
    while drops.load(Ordering::SeqCst) == 0 && waited < wait_s {
        tokio::time::sleep(Duration::from_secs(step)).await;
        waited += step;
        step = (step * 2).min(100);
    }
    (drops.load(Ordering::SeqCst) > 0, waited)
}

async fn execute_lazy(case: &LCase) -> LOut {
    let mut out = LOut::default();
    let n = case.n as usize;
    let cap = cap_ms(&case.cfgs);
    let len = resolve_len(case);
    let min_chunk = case.cfgs[..n].iter().map(|c| c.chunk_size.min(c.receive_buffer) as u64).min().unwrap_or(8).max(1);
    let hops_max = case.route.len() as u64 + 1;
    let frames_est = 400 + (len as u64 / min_chunk + 8) * 4 * hops_max;
    let deadline = case.sched.deadline_s(frames_est, cap) + 600;
    let mut net: Net<LParcel> = match build_net(n, false, &case.cfgs, &case.sched).await {
        Ok(x) => x,
        Err(e) => {
            out.fail("C20/setup", e);
            return out;
        }
    };
    let origin = case.origin as usize % n;
    let data = body(len);
    let drops = Arc::new(AtomicU32::new(0));
    let guard = DropGuard(drops.clone());
    enum Prov {
        L(remoc::robj::lazy::Provider),
        B(remoc::robj::lazy_blob::Provider),
    }
    let (mut cur_obj, provider) = if case.blob {
        let bytes = Bytes::from_owner(BlobOwner { data: data.clone(), _guard: guard });
        let (b, p) = LazyBlob::provided(bytes);
        (Consumer::B(b), Prov::B(p))
    } else {
        let v = LVal { tag: 7, body: String::from_utf8(data.clone()).unwrap() };
        let (l, p) = Lazy::provided_future(async move {
            let g = guard;
            let v = v;
            drop(g);
            v
        });
        (Consumer::L(l), Prov::L(p))
    };
    let mut provider = match case.provider {
        PMode::Kept => {
            match provider {
                Prov::L(p) => p.keep(),
                Prov::B(p) => p.keep(),
            }
            None
        }
        PMode::DropBeforeSend => {
            drop(provider);
            None
        }
        PMode::Held | PMode::DropBeforeGet => Some(provider),
    };
    let mut provider_dropped = case.provider == PMode::DropBeforeSend;

    // Travel.
    let mut cur = origin;
    // (consumer, endpoint, hops travelled)
    let mut retained: Vec<(Consumer, usize, u32)> = Vec::new();
    for (step, up) in case.route.iter().enumerate() {
        let next = if *up {
            if cur + 1 < n { cur + 1 } else { cur - 1 }
        } else if cur > 0 {
            cur - 1
        } else {
            cur + 1
        };
        let (k, d) = if next > cur { (cur, 0) } else { (next, 1) };
        if let Consumer::B(b) = &cur_obj {
            if case.keep_clones.get(step).copied().unwrap_or(false) {
                retained.push((Consumer::B(b.clone()), cur, step as u32));
            }
        }
        let parcel = match cur_obj {
            Consumer::L(l) => LParcel::L(l),
            Consumer::B(b) => LParcel::B(b),
        };
        match xfer(&mut net, k, d, parcel, deadline).await {
            Ok(LParcel::L(l)) => cur_obj = Consumer::L(l),
            Ok(LParcel::B(b)) => cur_obj = Consumer::B(b),
            Err(e) => {
                out.fail("C20/transfer-failed", format!("sending the lazy object over healthy link {k} dir {d} failed: {e}"));
                return out;
            }
        }
        cur = next;
        out.hops += 1;
    }
    let hops = out.hops;
    out.class(&format!("lazy:{}:hops={hops}", if case.blob { "blob" } else { "value" }));
    if hops >= 2 && cur == origin {
        out.class("lazy:back-on-origin");
    }
    if case.provider == PMode::DropBeforeGet {
        provider.take();
        provider_dropped = true;
    }

    // Blob length is known without fetching.
    if let Consumer::B(b) = &cur_obj {
        match b.len() {
            Ok(l) if l == len => {}
            other => out.fail("C20/lazy-wrong-len", format!("LazyBlob::len() = {other:?} after {hops} forwards, provided {len} bytes")),
        }
    }

    // Cut.
    let mut cut_armed: Option<(usize, u8)> = None;
    if let Some(c) = &case.cut {
        let k = c.link as usize % net.links.len();
        let dir = c.dir % 2;
        let after = net.links[k].sent(dir) + c.after as u32;
        net.links[k].arm(Fault { dir, after, kind: c.kind });
        cut_armed = Some((k, dir));
        out.class(&format!("lazy:cut:{:?}", c.kind));
    }

    // Fetch on the final endpoint and on every endpoint that kept a clone, concurrently.
    let skip = case.fetch == FetchMode::Skip;
    let mut consumers: Vec<(Consumer, usize, u32)> = retained;
    consumers.push((cur_obj, cur, hops));
    let meta: Vec<(usize, u32)> = consumers.iter().map(|(_, e, h)| (*e, *h)).collect();
    if consumers.len() > 1 {
        out.class("lazy:blob-several-consumers");
    }
    let futs: Vec<_> = consumers.into_iter().map(|(c, _, _)| fetch_one(c, case.fetch, deadline)).collect();
    let results = futures::future::join_all(futs).await;
    if std::env::var("VERIF_DEBUG").is_ok() {
        for (k, l) in net.links.iter().enumerate() {
            eprintln!("--- link {k} ({}-{}) sent {} / {} delivered {} / {}", net.ends[k].0, net.ends[k].1, l.sent(0), l.sent(1), l.delivered(0), l.delivered(1));
            let st = crate::engine::wire::analyze(&l.tap());
            eprintln!("  dispatcher finished: {} / {}; fault times {:?} / {:?}", net.keep[k].0.run.is_finished(), net.keep[k].1.run.is_finished(), l.fault_time_ms(0), l.fault_time_ms(1));
            let show_pings = std::env::var("VERIF_DEBUG").map(|v| v == "2").unwrap_or(false);
            for m in st.msgs.iter().filter(|m| !matches!(m.msg, crate::engine::refcodec::RefMsg::Hello { .. }) && (show_pings || !matches!(m.msg, crate::engine::refcodec::RefMsg::Ping))) {
                eprintln!("  t={} dir={} {} {:?} payload={:?}", m.t_ms, m.dir, if m.delivered { "dlv" } else { "put" }, m.msg, m.payload.as_ref().map(|p| p.len()));
            }
        }
    }
    let cut_fired = cut_armed.map(|(k, d)| net.links[k].fault_time_ms(d).is_some() || net.links[k].fault_time_ms(1 - d).is_some()).unwrap_or(false);
    let mut leftovers: Vec<Consumer> = Vec::new();
    for ((fetched, left), (ep, h)) in results.into_iter().zip(meta) {
        if let Some(c) = left {
            leftovers.push(c);
        }
        let mut first_ok: Option<Vec<u8>> = None;
        for (gi, f) in fetched.into_iter().enumerate() {
            let ctx = format!(
                "{} of {len} bytes fetched on endpoint {ep} (origin {origin}) after {h} forwards, fetch #{gi}, provider {:?}, cut {:?} (fired: {cut_fired})",
                if case.blob { "LazyBlob" } else { "Lazy" },
                case.provider,
                case.cut
            );
            match f {
                Fetched::Hang => {
                    out.fail("C20/lazy-fetch-hangs", format!("{ctx}: neither data nor an error within {deadline} virtual s"));
                }
                Fetched::Data(got, tag) => {
                    out.compared += 1;
                    if got != data || tag != 7 {
                        let sig = if got.len() < data.len() { "C20/lazy-truncated" } else { "C20/lazy-wrong-data" };
                        let first_diff = got.iter().zip(data.iter()).position(|(a, b)| a != b);
                        out.fail(sig, format!("{ctx}: got {} bytes (tag {tag}), first difference at {first_diff:?}", got.len()));
                    } else if let Some(prev) = &first_ok {
                        if prev != &got {
                            out.fail("C20/lazy-wrong-data", format!("{ctx}: cached value differs from the first fetch"));
                        }
                    } else {
                        first_ok = Some(got);
                        out.class(if len == 0 { "lazy:fetched-empty" } else { "lazy:fetched-equal" });
                    }
                }
                Fetched::Err(e) => {
                    let local_blob = case.blob && h == 0;
                    let required = case.cut.is_none() && !provider_dropped && (!local_blob || REQUIRE_LOCAL_BLOB_FETCH);
                    if required {
                        out.fail("C20/lazy-fetch-failed", format!("{ctx}: error {e} although no connection was cut and the provider is alive"));
                    } else if case.cut.is_some() {
                        if cut_fired {
                            out.cut_errors += 1;
                        }
                        out.class("lazy:error-after-cut");
                    } else if provider_dropped {
                        out.class("lazy:error-provider-dropped");
                    } else {
                        out.class("lazy:blob-local-get-err");
                    }
                }
            }
        }
    }

    // Release of the stored value. Only judged on healthy connections.
    if out.fails.is_empty() && case.cut.is_none() {
        let wait = deadline;
        // Held provider: the value stays available while consumers exist (not judged), then
        // either the consumers or the provider go first (decided by a generated field, reused).
        let provider_first = case.len_sel % 2 == 0;
        if provider.is_some() && provider_first && !leftovers.is_empty() {
            provider.take();
            let (ok, waited) = wait_released(&drops, wait).await;
            if !ok {
                out.fail("C20/lazy-not-released", format!("stored value not released {waited} virtual s after its provider was dropped ({} consumers alive)", leftovers.len()));
            } else {
                out.class("lazy:release:provider-dropped");
            }
        } else if provider_dropped {
            let (ok, waited) = wait_released(&drops, wait).await;
            if !ok {
                out.fail("C20/lazy-not-released", format!("stored value not released {waited} virtual s after its provider was dropped (mode {:?})", case.provider));
            } else {
                out.class("lazy:release:provider-dropped");
            }
        }
        if out.fails.is_empty() {
            let fetched_all = !skip;
            leftovers.clear();
            let (ok, waited) = wait_released(&drops, wait).await;
            if !ok {
                out.fail(
                    "C20/lazy-not-released",
                    format!("stored value not released {waited} virtual s after every consumer on every endpoint was dropped (fetched before: {fetched_all}, provider {:?})", case.provider),
                );
            } else {
                out.class(if skip { "lazy:release:consumers-dropped-unfetched" } else { "lazy:release:consumers-dropped" });
            }
        }
        let d = drops.load(Ordering::SeqCst);
        if d > 1 {
            out.fail("C20/double-drop", format!("lazy drop guard fired {d} times"));
        }
    }
    out.frames = net.frames();
    drop(leftovers);
    drop(provider);
    drop(net);
    out
}

pub fn run_lazy(case: &LCase) -> Outcome {
    let tape = case.sched.tape();
    let res = sim::run_sim(case.sched.tokio_seed, &tape, case.sched.defer, execute_lazy(case));
    let mut out = Outcome::default();
    out.frames = res.frames;
    if let Some((s, m)) = res.fails.first() {
        out.fail(s.clone(), m.clone());
    }
    for c in &res.classes {
        out.class(c.clone());
    }
    out.nontrivial = res.hops >= 1 && (res.compared > 0 || res.cut_errors > 0);
    out
}

// ---------------------------------------------------------------------------------------------
// Part "abandon": several holders of one lazy object, fetches that are started and abandoned.
// ---------------------------------------------------------------------------------------------
//
// One `LazyBlob` (or `Lazy<T>`) is created on the origin. 1..3 holders are derived from it: clones
// made on the origin before anything is sent (each travelling its own route of connections), or
// clones of an earlier holder's instance made on that holder's endpoint and forwarded further (or
// kept there: a local twin that shares the fetch cache). Every holder then runs its script as an
// actor of its own, concurrently with the others: `get()` to completion, `get()` polled until it
// has been pending n times and then dropped (`CancelAfter`), pause, `into_inner()`, drop. Receive
// buffers are small (64..1024 bytes) and blobs are mostly larger than them, so an abandoned fetch
// leaves a transfer stalled under flow control somewhere between the provider and the holder.
//
// `Lazy<T>` is not `Clone`: there the additional holders share the first holder's instance through
// an `Arc` (local twins; `Lazy::get` takes `&self`).

#[derive(Clone, Copy, Debug, Serialize, Deserialize, PartialEq, Eq, Hash)]
pub enum AStep {
    /// `get()` awaited to completion.
    Get,
    /// `get()` polled until it has been pending `polls` times, dropped at the next wake-up
    /// (`polls == 0`: created and dropped without a poll). The object is kept.
    GetCancel { polls: u8 },
    /// `into_inner()`; consumes the holder's object.
    Take,
    Pause,
    /// The holder drops its object (end of its script).
    Drop,
}

#[derive(Clone, Debug, Serialize, Deserialize, PartialEq, Eq, Hash)]
pub struct AHolder {
    /// Holder i > 0: `src % (i + 1) == 0` = clone of the original made on the origin before any
    /// send; otherwise clone of holder `src % (i + 1) - 1` made on that holder's final endpoint.
    /// Holder 0 is the original itself.
    pub src: u8,
    /// Moves: the `via`-th lane leaving the current endpoint.
    pub route: Vec<u8>,
    pub script: Vec<AStep>,
}

#[derive(Clone, Copy, Debug, Serialize, Deserialize, PartialEq, Eq, Hash)]
pub enum AProv {
    /// `provider.keep()`.
    Kept,
    /// Provider object held until every holder has finished its script, dropped afterwards.
    Held,
    /// Provider dropped by an actor of its own while the scripts run (after a pause code).
    DropDuring { after: u8 },
}

#[derive(Clone, Debug, Serialize, Deserialize, PartialEq, Eq, Hash)]
pub struct ACase {
    pub n: u8,
    pub ring: bool,
    pub cfgs: Vec<GCfg>,
    pub sched: Sched,
    pub blob: bool,
    pub len_sel: u8,
    pub len_off: i8,
    pub len_abs: Option<u16>,
    pub origin: u8,
    pub holders: Vec<AHolder>,
    pub provider: AProv,
    /// Held provider: dropped before (true) or after the leftover holder objects.
    pub provider_first: bool,
    /// Selection keys: order in which leftover holder objects are dropped at the end.
    pub drop_order: Vec<u8>,
}

fn acfg_strategy() -> BoxedStrategy<GCfg> {
    (
        prop_oneof![2 => Just(16u32), 2 => Just(64u32), 1 => Just(256u32), 2 => 8u32..=96],
        prop_oneof![2 => Just(64u32), 2 => Just(128u32), 1 => Just(256u32), 1 => Just(1024u32), 2 => 64u32..=1024],
        1usize..=3,
        1usize..=3,
        1usize..=3,
        prop_oneof![2 => Just(256usize), 2 => Just(1024usize), 2 => Just(1usize << 16), 1 => 200usize..=700],
    )
        .prop_map(|(chunk_size, receive_buffer, shared_q, tsend_q, trecv_q, max_data_size)| GCfg {
            chunk_size,
            receive_buffer,
            max_data_size,
            shared_q,
            tsend_q,
            trecv_q,
            connect_queue: 4,
            max_ports: 128,
            max_received_ports: 32,
            timeout_s: Some(60),
        })
        .boxed()
}

pub fn astrategy(_tier: Tier) -> BoxedStrategy<ACase> {
    let step = prop_oneof![
        4 => Just(AStep::Get),
        5 => prop_oneof![1 => Just(0u8), 6 => 1u8..=8, 3 => 9u8..=40].prop_map(|polls| AStep::GetCancel { polls }),
        1 => Just(AStep::Take),
        2 => Just(AStep::Pause),
        1 => Just(AStep::Drop),
    ];
    let holder = (
        any::<u8>(),
        prop_oneof![1 => Just(Vec::new()), 8 => proptest::collection::vec(any::<u8>(), 1..=3)],
        proptest::collection::vec(step, 1..=4),
    )
        .prop_map(|(src, route, script)| AHolder { src, route, script });
    (
        (2u8..=4, any::<bool>(), proptest::collection::vec(acfg_strategy(), 4), sched(true)),
        (prop_oneof![4 => Just(true), 1 => Just(false)], any::<u8>(), -1i8..=1, prop_oneof![5 => Just(None), 2 => (0u16..=4096).prop_map(Some), 1 => (0u16..=64).prop_map(Some)]),
        0u8..4,
        proptest::collection::vec(holder, 1..=3),
        prop_oneof![3 => Just(AProv::Kept), 3 => Just(AProv::Held), 2 => any::<u8>().prop_map(|after| AProv::DropDuring { after })],
        any::<bool>(),
        proptest::collection::vec(any::<u8>(), 0..4),
    )
        .prop_map(|((n, ring, mut cfgs, sched), (blob, len_sel, len_off, len_abs), origin, holders, provider, provider_first, drop_order)| {
            if EXCLUDE_ABANDONED_FETCH_PARKED_QUEUE_SLOT && may_leave_parked_fetch(blob, &holders) {
                for c in cfgs.iter_mut() {
                    c.shared_q = 16;
                }
            }
            if EXCLUDE_FORWARDER_STUCK_AFTER_CLOSE_THEN_DROP {
                let (src, routes) = resolve_holders(blob, &holders);
                let mut hops: Vec<usize> = Vec::new();
                for i in 0..holders.len() {
                    hops.push(src[i].map(|j| hops[j]).unwrap_or(0) + routes[i].len());
                }
                if (0..holders.len()).any(|i| hops[i] >= 3 && drops_abandoned_fetch(&holders[i].script)) {
                    for c in cfgs.iter_mut() {
                        c.max_data_size = 1 << 16;
                    }
                }
            }
            ACase {
            n,
            ring,
            cfgs,
            sched,
            blob,
            len_sel,
            len_off,
            len_abs,
            origin,
            holders,
            provider,
            provider_first,
            drop_order,
            }
        })
        .boxed()
}

/// True when the script can end with a started, abandoned fetch that is neither resumed (get /
/// into_inner) nor released (drop) by the same holder afterwards.
/// True when an abandoned fetch can stay parked in a lazy object to the end of the case: a holder
/// whose own script leaves it unresolved, or any abandonment at all when some holder is a local
/// twin (a clone kept on the same endpoint shares the fetch cache, so the parked future lives on
/// in the twin even after the abandoning holder has dropped its own object).
fn may_leave_parked_fetch(blob: bool, holders: &[AHolder]) -> bool {
    if holders.iter().any(|h| leaves_abandoned_fetch(&h.script)) {
        return true;
    }
    let (_, routes) = resolve_holders(blob, holders);
    let any_twin = routes.iter().enumerate().any(|(i, r)| i > 0 && r.is_empty());
    let any_abandon = holders.iter().any(|h| h.script.iter().any(|s| matches!(s, AStep::GetCancel { polls } if *polls > 0)));
    any_twin && any_abandon
}

fn leaves_abandoned_fetch(script: &[AStep]) -> bool {
    let mut parked = false;
    for s in script {
        match s {
            AStep::GetCancel { polls } if *polls > 0 => parked = true,
            AStep::GetCancel { .. } | AStep::Pause => {}
            AStep::Get => parked = false,
            AStep::Take | AStep::Drop => return false,
        }
    }
    parked
}

/// True when the holder's object can be dropped (by a Drop step or at the end of the case) while
/// a started, abandoned fetch of it has not been completed by a later get / into_inner.
fn drops_abandoned_fetch(script: &[AStep]) -> bool {
    let mut parked = false;
    for s in script {
        match s {
            AStep::GetCancel { polls } if *polls > 0 => parked = true,
            AStep::GetCancel { .. } | AStep::Pause => {}
            AStep::Get => parked = false,
            AStep::Take => return false,
            AStep::Drop => return parked,
        }
    }
    parked
}

/// Source and route of every holder. src[i] = None: derived from the original on the origin;
/// Some(j): clone of holder j made on j's final endpoint (empty route: local twin).
fn resolve_holders(blob: bool, holders: &[AHolder]) -> (Vec<Option<usize>>, Vec<Vec<u8>>) {
    let mut src: Vec<Option<usize>> = Vec::new();
    let mut routes: Vec<Vec<u8>> = Vec::new();
    for (i, h) in holders.iter().enumerate() {
        if i == 0 {
            src.push(None);
            routes.push(h.route.clone());
        } else if !blob {
            // Lazy<T> cannot be cloned: further holders share holder 0's instance.
            src.push(Some(0));
            routes.push(Vec::new());
        } else {
            let s = h.src as usize % (i + 1);
            src.push(if s == 0 { None } else { Some(s - 1) });
            // A clone of an earlier holder travels at most two further connections.
            routes.push(if s == 0 { h.route.clone() } else { h.route.iter().copied().take(2).collect() });
        }
    }
    (src, routes)
}

fn aresolve_len(c: &ACase) -> usize {
    let n = c.n as usize;
    let min_mds = c.cfgs[..n].iter().map(|g| g.max_data_size).min().unwrap_or(256);
    // A lazily sent *value* is a typed item: keep it below every max_data_size (see cfg_strategy).
    let max = if c.blob { 6000 } else { min_mds.saturating_sub(64).min(6000) };
    if let Some(a) = c.len_abs {
        return (a as usize).min(max);
    }
    let mut bases: Vec<usize> = Vec::new();
    for cfg in &c.cfgs[..n] {
        let (cs, rb) = (cfg.chunk_size as usize, cfg.receive_buffer as usize);
        bases.extend([rb + 1, 2 * rb, rb + cs, 3 * rb + 1, 2 * rb + cs, 4 * rb, rb / 2, 3 * cs]);
    }
    let base = bases[c.len_sel as usize % bases.len()] as i64;
    (base + c.len_off as i64).clamp(0, max as i64) as usize
}

enum AObj {
    B(LazyBlob),
    L(Arc<Lazy<LVal>>),
}

impl AObj {
    fn twin(&self) -> AObj {
        match self {
            AObj::B(b) => AObj::B(b.clone()),
            AObj::L(l) => AObj::L(l.clone()),
        }
    }
}

struct AShared {
    /// Set immediately before the provider object is dropped.
    provider_dropped: std::sync::atomic::AtomicBool,
    /// Completion order of fetches and abandonments over all actors.
    seq: AtomicU32,
}

enum ARecKind {
    Fetched(Fetched),
    /// The pending `get()` future was dropped after `polls` pending polls.
    Abandoned { polls: u8 },
}

struct ARec {
    step: usize,
    seq: u32,
    /// Provider already dropped when the result was observed.
    prov_dropped: bool,
    kind: ARecKind,
}

fn conv_blob(r: Result<Result<remoc::chmux::DataBuf, remoc::robj::lazy_blob::FetchError>, ()>) -> Fetched {
    match r {
        Ok(Ok(v)) => Fetched::Data(Vec::from(v), 7),
        Ok(Err(e)) => Fetched::Err(format!("{e:?}")),
        Err(()) => Fetched::Hang,
    }
}

async fn holder_actor(obj: AObj, script: Vec<AStep>, deadline: u64, tape: sim::Tape, sh: Arc<AShared>) -> (Vec<ARec>, Option<AObj>) {
    use sim::{CancelAfter, Cancelled};
    let mut recs: Vec<ARec> = Vec::new();
    let mut obj = Some(obj);
    for (si, st) in script.iter().enumerate() {
        if obj.is_none() {
            break;
        }
        let kind = match st {
            AStep::Pause => {
                tape_pause(&tape, true).await;
                None
            }
            AStep::Drop => {
                obj = None;
                None
            }
            AStep::Get => Some(ARecKind::Fetched(match obj.as_ref().unwrap() {
                AObj::B(b) => conv_blob(sim::within(deadline, b.get()).await),
                AObj::L(l) => match sim::within(deadline, l.get()).await {
                    Ok(Ok(v)) => Fetched::Data(v.body.clone().into_bytes(), v.tag),
                    Ok(Err(e)) => Fetched::Err(format!("{e:?}")),
                    Err(()) => Fetched::Hang,
                },
            })),
            AStep::GetCancel { polls } => {
                let n = Some(*polls as u32);
                let f = match obj.as_ref().unwrap() {
                    AObj::B(b) => match sim::within(deadline, CancelAfter::new(b.get(), n)).await {
                        Ok(Cancelled::Done(r)) => Some(conv_blob(Ok(r))),
                        Ok(Cancelled::Dropped) => None,
                        Err(()) => Some(Fetched::Hang),
                    },
                    AObj::L(l) => match sim::within(deadline, CancelAfter::new(l.get(), n)).await {
                        Ok(Cancelled::Done(Ok(v))) => Some(Fetched::Data(v.body.clone().into_bytes(), v.tag)),
                        Ok(Cancelled::Done(Err(e))) => Some(Fetched::Err(format!("{e:?}"))),
                        Ok(Cancelled::Dropped) => None,
                        Err(()) => Some(Fetched::Hang),
                    },
                };
                Some(match f {
                    Some(f) => ARecKind::Fetched(f),
                    None => ARecKind::Abandoned { polls: *polls },
                })
            }
            AStep::Take => Some(ARecKind::Fetched(match obj.take().unwrap() {
                AObj::B(b) => conv_blob(sim::within(deadline, b.into_inner()).await),
                AObj::L(l) => match Arc::try_unwrap(l) {
                    Ok(l) => match sim::within(deadline, l.into_inner()).await {
                        Ok(Ok(v)) => Fetched::Data(v.body.into_bytes(), v.tag),
                        Ok(Err(e)) => Fetched::Err(format!("{e:?}")),
                        Err(()) => Fetched::Hang,
                    },
                    // Shared with a twin: fetch through the reference, then let go.
                    Err(l) => match sim::within(deadline, l.get()).await {
                        Ok(Ok(v)) => Fetched::Data(v.body.clone().into_bytes(), v.tag),
                        Ok(Err(e)) => Fetched::Err(format!("{e:?}")),
                        Err(()) => Fetched::Hang,
                    },
                },
            })),
        };
        if let Some(kind) = kind {
            let hang = matches!(kind, ARecKind::Fetched(Fetched::Hang));
            recs.push(ARec {
                step: si,
                seq: sh.seq.fetch_add(1, Ordering::SeqCst),
                prov_dropped: sh.provider_dropped.load(Ordering::SeqCst),
                kind,
            });
            if hang {
                break;
            }
        }
    }
    (recs, obj)
}

#[derive(Default)]
pub struct AOut {
    pub fails: Vec<(String, String)>,
    pub classes: Vec<String>,
    pub frames: u64,
    /// Fetches abandoned after at least one poll.
    pub abandoned: u32,
    /// Fetches whose data was compared and that completed after an abandonment in the same run.
    pub compared_after_abandon: u32,
    pub compared: u32,
}

impl AOut {
    fn fail(&mut self, sig: &str, msg: String) {
        self.fails.push((sig.to_string(), msg));
    }
    fn class(&mut self, c: &str) {
        if !self.classes.iter().any(|x| x == c) {
            self.classes.push(c.to_string());
        }
    }
}

fn debug_dump<P>(net: &Net<P>) {
    if std::env::var("VERIF_DEBUG").is_err() {
        return;
    }
    for (k, l) in net.links.iter().enumerate() {
        eprintln!("--- link {k} ({}-{}) sent {} / {} delivered {} / {}", net.ends[k].0, net.ends[k].1, l.sent(0), l.sent(1), l.delivered(0), l.delivered(1));
        let st = crate::engine::wire::analyze(&l.tap());
        eprintln!("  dispatcher finished: {} / {}", net.keep[k].0.run.is_finished(), net.keep[k].1.run.is_finished());
        let show_pings = std::env::var("VERIF_DEBUG").map(|v| v == "2").unwrap_or(false);
        for m in st.msgs.iter().filter(|m| !matches!(m.msg, crate::engine::refcodec::RefMsg::Hello { .. }) && (show_pings || !matches!(m.msg, crate::engine::refcodec::RefMsg::Ping))) {
            eprintln!("  t={} dir={} {} {:?} payload={:?}", m.t_ms, m.dir, if m.delivered { "dlv" } else { "put" }, m.msg, m.payload.as_ref().map(|p| p.len()));
        }
    }
}

async fn execute_abandon(case: &ACase) -> AOut {
    let mut out = AOut::default();
    let n = case.n as usize;
    let ring = case.ring;
    let cap = cap_ms(&case.cfgs);
    let len = aresolve_len(case);
    let tape = case.sched.tape();
    let min_chunk = case.cfgs[..n].iter().map(|c| c.chunk_size.min(c.receive_buffer) as u64).min().unwrap_or(8).max(1);
    let nh = case.holders.len();

    let (src, routes) = resolve_holders(case.blob, &case.holders);
    let total_hops: u64 = routes.iter().map(|r| r.len() as u64 + 1).sum::<u64>() + 3 * nh as u64;
    let frames_est = 400 + (len as u64 / min_chunk + 8) * 4 * total_hops;
    let deadline = case.sched.deadline_s(frames_est, cap) + 600;

    let mut net: Net<LParcel> = match build_net(n, ring, &case.cfgs, &case.sched).await {
        Ok(x) => x,
        Err(e) => {
            out.fail("C20/setup", e);
            return out;
        }
    };
    let origin = case.origin as usize % n;
    let data = body(len);
    let drops = Arc::new(AtomicU32::new(0));
    let guard = DropGuard(drops.clone());
    enum Prov {
        L(remoc::robj::lazy::Provider),
        B(remoc::robj::lazy_blob::Provider),
    }
    let (original, provider) = if case.blob {
        let bytes = Bytes::from_owner(BlobOwner { data: data.clone(), _guard: guard });
        let (b, p) = LazyBlob::provided(bytes);
        (Consumer::B(b), Prov::B(p))
    } else {
        let v = LVal { tag: 7, body: String::from_utf8(data.clone()).unwrap() };
        let (l, p) = Lazy::provided_future(async move {
            let g = guard;
            let v = v;
            drop(g);
            v
        });
        (Consumer::L(l), Prov::L(p))
    };
    let sh = Arc::new(AShared { provider_dropped: std::sync::atomic::AtomicBool::new(false), seq: AtomicU32::new(0) });
    let mut provider = match case.provider {
        AProv::Kept => {
            match provider {
                Prov::L(p) => p.keep(),
                Prov::B(p) => p.keep(),
            }
            None
        }
        AProv::Held | AProv::DropDuring { .. } => Some(provider),
    };
    out.class(match case.provider {
        AProv::Kept => "ab:provider:kept",
        AProv::Held => "ab:provider:held-dropped-afterwards",
        AProv::DropDuring { .. } => "ab:provider:dropped-during",
    });

    // Clones made on the origin before anything is sent.
    let mut pending: Vec<Option<Consumer>> = Vec::new();
    for i in 0..nh {
        pending.push(match (&original, src[i], i) {
            (Consumer::B(b), None, i) if i > 0 => Some(Consumer::B(b.clone())),
            _ => None,
        });
    }
    pending[0] = Some(original);

    // Travel, holder by holder.
    // placed[i] = (object, endpoint, hops)
    let mut placed: Vec<(AObj, usize, u32)> = Vec::new();
    for i in 0..nh {
        let (mut cur_obj, mut cur, mut hops) = match src[i] {
            None => (pending[i].take().unwrap(), origin, 0u32),
            Some(j) => {
                let (e, h) = (placed[j].1, placed[j].2);
                if routes[i].is_empty() {
                    // Local twin: shares the fetch cache of holder j.
                    out.class("ab:twin");
                    let t = placed[j].0.twin();
                    placed.push((t, e, h));
                    continue;
                }
                match &placed[j].0 {
                    AObj::B(b) => (Consumer::B(b.clone()), e, h),
                    AObj::L(_) => unreachable!("Lazy holders beyond the first are always twins"),
                }
            }
        };
        if src[i].is_some() {
            out.class("ab:forwarded-from-holder");
        }
        for via in &routes[i] {
            let exits = net.exits(cur);
            let (k, d, dest) = exits[*via as usize % exits.len()];
            let parcel = match cur_obj {
                Consumer::L(l) => LParcel::L(l),
                Consumer::B(b) => LParcel::B(b),
            };
            match xfer(&mut net, k, d, parcel, deadline).await {
                Ok(LParcel::L(l)) => cur_obj = Consumer::L(l),
                Ok(LParcel::B(b)) => cur_obj = Consumer::B(b),
                Err(e) => {
                    out.fail("C20/transfer-failed", format!("sending the lazy object of holder {i} over healthy link {k} dir {d} failed: {e}"));
                    return out;
                }
            }
            cur = dest;
            hops += 1;
        }
        let obj = match cur_obj {
            Consumer::B(b) => {
                match b.len() {
                    Ok(l) if l == len => {}
                    other => out.fail("C20/lazy-wrong-len", format!("LazyBlob::len() = {other:?} on holder {i} after {hops} forwards, provided {len} bytes")),
                }
                AObj::B(b)
            }
            Consumer::L(l) => AObj::L(Arc::new(l)),
        };
        placed.push((obj, cur, hops));
    }
    drop(pending);
    if !out.fails.is_empty() {
        return out;
    }
    out.class(&format!("ab:{}:holders={nh}", if case.blob { "blob" } else { "value" }));
    {
        let mut eps: Vec<usize> = placed.iter().map(|p| p.1).collect();
        eps.sort();
        eps.dedup();
        if eps.len() > 1 {
            out.class("ab:holders-on-different-endpoints");
        }
    }
    let meta: Vec<(usize, u32)> = placed.iter().map(|(_, e, h)| (*e, *h)).collect();

    // Run the scripts concurrently, one actor per holder (plus the provider dropper).
    let mut handles = Vec::new();
    for (i, (obj, _, _)) in placed.into_iter().enumerate() {
        handles.push(sim::spawn_actor(holder_actor(obj, case.holders[i].script.clone(), deadline, tape.clone(), sh.clone())));
    }
    let dropper = if let AProv::DropDuring { after } = case.provider {
        let p = provider.take();
        let sh = sh.clone();
        Some(sim::spawn_actor(async move {
            match after {
                0..=99 => sim::ticks(after as u32 % 25).await,
                _ => tokio::time::sleep(Duration::from_millis([1u64, 10, 100, 1000, 5000][after as usize % 5])).await,
            }
            sh.provider_dropped.store(true, Ordering::SeqCst);
            drop(p);
        }))
    } else {
        None
    };
    let max_steps = case.holders.iter().map(|h| h.script.len() as u64).max().unwrap_or(1);
    let overall = deadline * (max_steps + 1) + 100;
    let mut results: Vec<(Vec<ARec>, Option<AObj>)> = Vec::new();
    for (i, h) in handles.into_iter().enumerate() {
        match sim::within(overall, h).await {
            Ok(Ok(r)) => results.push(r),
            Ok(Err(e)) => {
                out.fail("C20/actor-died", format!("actor of holder {i} ended abnormally: {e}"));
                results.push((Vec::new(), None));
            }
            Err(()) => {
                out.fail("C20/lazy-fetch-hangs", format!("actor of holder {i} did not finish within {overall} virtual s"));
                results.push((Vec::new(), None));
            }
        }
    }
    if let Some(d) = dropper {
        let _ = sim::within(overall, d).await;
    }
    if std::env::var("VERIF_DEBUG").map(|v| v == "3").unwrap_or(false) {
        debug_dump(&net);
    }

    // Judge.
    let first_abandon: Option<u32> = results
        .iter()
        .flat_map(|(r, _)| r.iter())
        .filter(|r| matches!(r.kind, ARecKind::Abandoned { polls } if polls > 0))
        .map(|r| r.seq)
        .min();
    let mut leftovers: Vec<AObj> = Vec::new();
    // (holder, object) of holders that kept a started, unfinished fetch; holders whose get hung.
    let mut parked: Vec<(usize, AObj)> = Vec::new();
    let mut hung: Vec<(usize, String, String)> = Vec::new();
    for (i, (recs, left)) in results.into_iter().enumerate() {
        let (ep, h) = meta[i];
        let rb = case.cfgs[ep].receive_buffer as usize;
        let mut own_abandon = false;
        let mut finished = false;
        for r in recs {
            let after_abandon = first_abandon.map(|a| r.seq > a).unwrap_or(false);
            let ctx = format!(
                "{} of {len} bytes, holder {i} on endpoint {ep} (origin {origin}, receive buffer {rb}) after {h} forwards, script step {} {:?}, provider {:?} (dropped when observed: {}), completed after an abandoned fetch: {after_abandon}",
                if case.blob { "LazyBlob" } else { "Lazy" },
                r.step,
                case.holders[i].script[r.step],
                case.provider,
                r.prov_dropped
            );
            match r.kind {
                ARecKind::Abandoned { polls } => {
                    if polls > 0 {
                        out.abandoned += 1;
                        if !finished {
                            own_abandon = true;
                            out.class(if len > rb { "ab:abandoned:len>receive-buffer" } else { "ab:abandoned:len<=receive-buffer" });
                        } else {
                            out.class("ab:abandoned-after-cached");
                        }
                    } else {
                        out.class("ab:dropped-unpolled");
                    }
                }
                ARecKind::Fetched(Fetched::Hang) => {
                    // The listed finding (parked queue slot) lives only in the territory the generator
                    // excludes: a holder that leaves an abandoned fetch unresolved on a network with a
                    // small shared event queue. Its signature says so; anywhere else a blocked fetch
                    // is a violation of its own.
                    let parked_slot = may_leave_parked_fetch(case.blob, &case.holders) && case.cfgs.iter().any(|c| c.shared_q < 16);
                    let sig = if (after_abandon || own_abandon) && parked_slot {
                        "C20/lazy-fetch-blocked-after-abandon/parked-queue-slot"
                    } else if after_abandon || own_abandon {
                        "C20/lazy-fetch-blocked-after-abandon"
                    } else {
                        "C20/lazy-fetch-hangs"
                    };
                    hung.push((i, sig.to_string(), format!("{ctx}: neither data nor an error within {deadline} virtual s")));
                }
                ARecKind::Fetched(Fetched::Data(got, tag)) => {
                    out.compared += 1;
                    if got != data || tag != 7 {
                        let sig = if got.len() < data.len() { "C20/lazy-truncated" } else { "C20/lazy-wrong-data" };
                        let first_diff = got.iter().zip(data.iter()).position(|(a, b)| a != b);
                        out.fail(sig, format!("{ctx}: got {} bytes (tag {tag}), first difference at {first_diff:?}", got.len()));
                    } else {
                        finished = true;
                        if after_abandon {
                            out.compared_after_abandon += 1;
                        }
                        if own_abandon {
                            out.class("ab:resumed-own-abandoned-fetch-ok");
                        } else if after_abandon {
                            out.class("ab:other-holder-ok-after-abandon");
                        } else {
                            out.class("ab:fetched-equal");
                        }
                    }
                }
                ARecKind::Fetched(Fetched::Err(e)) => {
                    let local_blob = case.blob && h == 0;
                    let required = !r.prov_dropped && (!local_blob || REQUIRE_LOCAL_BLOB_FETCH);
                    if required {
                        out.fail(
                            "C20/lazy-fetch-failed",
                            format!("{ctx}: error {e} although every connection is healthy and the provider is alive"),
                        );
                    } else if r.prov_dropped {
                        finished = true;
                        out.class("ab:error-provider-dropped");
                    } else {
                        finished = true;
                        out.class("ab:blob-local-get-err");
                    }
                }
            }
        }
        if let Some(o) = left {
            if own_abandon && !finished && !hung.iter().any(|h| h.0 == i) {
                out.class("ab:abandoned-fetch-kept-to-the-end");
                parked.push((i, o));
            } else {
                leftovers.push(o);
            }
        }
    }
    // Diagnosis of a hang: does the same fetch end once the objects that hold an abandoned,
    // unfinished fetch are dropped? (Tells a blocked fetch from a lost one; part of the message only.)
    if let Some((i, sig, msg)) = hung.into_iter().next() {
        let holders: Vec<usize> = parked.iter().map(|p| p.0).collect();
        parked.clear();
        let again = if case.holders[i].script.iter().any(|s| matches!(s, AStep::Take)) || holders.is_empty() {
            "not tried".to_string()
        } else {
            // The hung holder's object is among the leftovers only if its script did not consume it;
            // a fresh get() on any leftover twin of it resumes the same stored fetch.
            let mut res = "not tried (object consumed)".to_string();
            for o in &leftovers {
                let r = match o {
                    AObj::B(b) => match sim::within(deadline, b.get()).await {
                        Ok(Ok(v)) => format!("data ({} bytes)", Vec::from(v).len()),
                        Ok(Err(e)) => format!("error {e:?}"),
                        Err(()) => "still pending".to_string(),
                    },
                    AObj::L(l) => match sim::within(deadline, l.get()).await {
                        Ok(Ok(v)) => format!("data ({} bytes)", v.body.len()),
                        Ok(Err(e)) => format!("error {e:?}"),
                        Err(()) => "still pending".to_string(),
                    },
                };
                res = r;
                if res == "still pending" {
                    break;
                }
            }
            res
        };
        out.fail(&sig, format!("{msg}; after dropping the objects of holders {holders:?} (which keep an abandoned, unfinished fetch) a get() on every remaining holder gives: {again}"));
    }
    leftovers.extend(parked.into_iter().map(|p| p.1));

    // Release of the stored value: demanded once every holder object on every endpoint is gone
    // (abandoned, possibly stalled transfers included).
    if out.fails.is_empty() {
        if provider.is_some() && case.provider_first {
            sh.provider_dropped.store(true, Ordering::SeqCst);
            provider.take();
        }
        let mut k = 0usize;
        while !leftovers.is_empty() {
            let key = case.drop_order.get(k).copied().unwrap_or(0);
            k += 1;
            let i = key as usize % leftovers.len();
            drop(leftovers.remove(i));
            if key >= 128 {
                sim::ticks(key as u32 % 4 + 1).await;
            }
        }
        let (ok, waited) = wait_released(&drops, deadline).await;
        if !ok {
            out.fail(
                if out.abandoned > 0 { "C20/lazy-not-released-after-abandon" } else { "C20/lazy-not-released" },
                format!(
                    "stored value not released {waited} virtual s after every holder on every endpoint was dropped ({} fetches had been abandoned, provider {:?}, dropped first: {})",
                    out.abandoned, case.provider, case.provider_first
                ),
            );
        } else {
            out.class(if out.abandoned > 0 { "ab:release:after-abandoned-fetches" } else { "ab:release:consumers-dropped" });
        }
        let d = drops.load(Ordering::SeqCst);
        if d > 1 {
            out.fail("C20/double-drop", format!("lazy drop guard fired {d} times"));
        }
    }
    if !out.fails.is_empty() {
        debug_dump(&net);
    }
    out.frames = net.frames();
    drop(leftovers);
    drop(provider);
    drop(net);
    out
}

pub fn run_abandon(case: &ACase) -> Outcome {
    let tape = case.sched.tape();
    let res = sim::run_sim(case.sched.tokio_seed, &tape, case.sched.defer, execute_abandon(case));
    let mut out = Outcome::default();
    out.frames = res.frames;
    if let Some((s, m)) = res.fails.first() {
        out.fail(s.clone(), m.clone());
    }
    for c in &res.classes {
        out.class(c.clone());
    }
    out.nontrivial = res.abandoned > 0 && res.compared_after_abandon > 0;
    out
}

pub const RULE: &str = "part handle: cases = (2..4 endpoints in a chain or ring of chmux connections with generated Cfg, schedule, 1..2 values (Handle::new or Handle::provided, origins generated) each carrying a drop counter, script of clone / drop / cast / send over a neighbouring connection / as_ref / as_mut / into_inner / provider keep or drop / pause, generated order of the final drops); reference model per instance (token = one serialization on the origin; resolvable = never left the origin or first return of its token over the same connection); oracles = a deref on a foreign endpoint, at a cast type or after into_inner took the value must be an error; a value returned must be the original one incl. as_mut history; success is mandatory for handles that never left the origin and for the documented single round trip while the provider is alive; drop counter <= 1, == 1 right after into_inner on the origin, == 0 while a handle that must resolve exists (provider alive), == 1 within the virtual deadline once no handle exists on any endpoint or the provider is dropped and no handle is left on the origin (connections alive). non-trivial = a handle crossed a connection AND a deref was attempted on a travelled handle AND a mandatory release was observed. part lazy: cases = (2..4 endpoints chain, Cfg, schedule, Lazy<T> or LazyBlob of a size around chunk sizes / receive buffers, origin, 0..3 forwards incl. back to the origin, provider kept / held / dropped before send / before get, blob clones kept on intermediate endpoints, get / get twice / into_inner / no fetch, optional transport fault on a generated connection after a generated number of frames); oracles = fetched data equals the provided data (never shorter), LazyBlob::len equals, an error is acceptable only with a cut, a dropped provider or a never-sent blob, every fetch ends within the virtual deadline, the stored value (drop guard) is released after provider drop / after all consumers are dropped (healthy connections only). non-trivial = at least one forward AND (data compared OR error observed after the cut fired). part abandon: cases = (2..4 endpoints chain or ring, Cfg with receive buffers 64..1024 and chunks 8..256, schedule, LazyBlob (or Lazy<T>) of a size around 1..4 receive buffers (mostly larger than the buffer), 1..3 holders = clones made on the origin before sending, each sent over its own route of 0..3 connections, or clones of an earlier holder forwarded 1..2 connections further or kept as a local twin sharing the fetch cache (Lazy<T>: twins through an Arc), one script per holder out of get / get dropped after n pending polls (CancelAfter) / into_inner / pause / drop, all scripts run concurrently as actors, provider kept / held and dropped afterwards / dropped by an actor of its own during the scripts, generated final drop order); oracles = every completed fetch yields exactly the provided data, an error is acceptable only when the provider had already been dropped when the result was observed (or the blob was never sent), every get ends within the virtual deadline also while other holders' abandoned transfers are stalled under flow control, the stored value (drop guard) is released once every holder on every endpoint is dropped. non-trivial = a fetch was abandoned after >= 1 poll AND a fetch that completed later in the same run delivered data that was compared; distinct = distinct case hash";

pub fn main(tier: Tier, seed: u64) -> Report {
    let mut rep = Report::new("C20", tier, seed);
    rep.rule = RULE.into();
    rep.assumptions = vec![
        "success of a deref is demanded only for handles that never left their origin and for the documented single round trip (DESIGN O2: a second return is Unknown on the origin; counted as class, not flagged)".into(),
        "a local handle clone kept on the origin keeps the value alive after Provider drop (counted, not flagged): release after provider drop is demanded only when no handle is left on the origin".into(),
        "LazyBlob::get on a blob that was never sent returns FetchError::Dropped (counted as class lazy:blob-local-get-err, not flagged)".into(),
        "all items stay below max_data_size, so no helper threads exist and virtual deadlines are sound".into(),
        "part abandon: after a provider drop an in-flight (possibly stalled) transfer may keep the data alive, so release is demanded only after every holder is dropped".into(),
        "single-threaded deterministic simulation; task-level interleavings only".into(),
    ];
    let regress: Vec<Case> = runner::load_regress::<Case>("C20", "handle").into_iter().map(|(_, c)| c).collect();
    if !regress.is_empty() {
        runner::run_cases(&mut rep, "regress-handle", regress, run_handle);
    }
    let regress: Vec<LCase> = runner::load_regress::<LCase>("C20", "lazy").into_iter().map(|(_, c)| c).collect();
    if !regress.is_empty() {
        runner::run_cases(&mut rep, "regress-lazy", regress, run_lazy);
    }
    runner::run_generated(&mut rep, "handle", tier.pick(24_000, 1_200_000), || strategy(tier), run_handle);
    runner::run_generated(&mut rep, "lazy", tier.pick(16_000, 800_000), || lstrategy(tier), run_lazy);
    let regress: Vec<ACase> = runner::load_regress::<ACase>("C20", "abandon").into_iter().map(|(_, c)| c).collect();
    if !regress.is_empty() {
        runner::run_cases(&mut rep, "regress-abandon", regress, run_abandon);
    }
    runner::run_generated(&mut rep, "abandon", tier.pick(12_000, 600_000), || astrategy(tier), run_abandon);
    rep
}

pub fn replay(part: &str, case: serde_json::Value) -> (Option<runner::Failure>, u32, u32) {
    let n = runner::replay_times(3);
    if part.contains("abandon") {
        let c: ACase = serde_json::from_value(case).expect("replay case does not parse as C20 abandon case");
        let (f, h) = runner::replay_case(&c, run_abandon, n);
        (f, h, n)
    } else if part.contains("lazy") {
        let c: LCase = serde_json::from_value(case).expect("replay case does not parse as C20 lazy case");
        let (f, h) = runner::replay_case(&c, run_lazy, n);
        (f, h, n)
    } else {
        let c: Case = serde_json::from_value(case).expect("replay case does not parse as C20 handle case");
        let (f, h) = runner::replay_case(&c, run_handle, n);
        (f, h, n)
    }
}
