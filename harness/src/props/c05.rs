//! C05 — Channel halves embedded in values are wired one-to-one to their counterparts.
//!
//! A value of a recursive shape (unit / bytes / list / option / pair / map / channel halves of
//! every remote channel kind) is built at the origin endpoint, sent over 1–3 chmux connections
//! (every intermediate endpoint receives = deserialises the value and sends it on) and taken apart
//! at the final endpoint. Every channel has a unique id; after delivery each sending end emits
//! `Label{id, n}` and each receiving end checks that it only ever sees labels of its own id.
//!
//! Part "wire": values below `max_data_size` (buffered serialisation, virtual time).
//! Part "stream": the value is padded beyond `max_data_size`, so that `base::Sender::send`
//! serialises it twice (buffered attempt overflows, streaming attempt repeats it); helper threads
//! inhibit the paused clock, therefore this part paces with scheduler ticks only.

use bytes::{Buf, Bytes};
use proptest::prelude::*;
use serde::{Deserialize, Serialize};
use std::{
    collections::{BTreeMap, HashMap, HashSet},
    sync::{Arc, Mutex},
    time::Duration,
};
use tokio::{task::JoinHandle, time::Instant};

use crate::engine::{
    gen::{self, connect_pair, sched, GCfg, Sched},
    link::{Fault, FaultKind, SimLink},
    runner::{self, Outcome, Report, Tier},
    sim::{self, spawn_actor, tape_pause, Tape},
};
use remoc::{
    chmux,
    rch::{base, bin, broadcast, io, lr, mpsc, oneshot, watch},
};

// ---------------------------------------------------------------------------------------------
// Generator exclusions (each one documents a trigger that is excluded from the search).
// ---------------------------------------------------------------------------------------------

/// Values whose send is expected to fail *after* part of the value was serialised (an `lr` half
/// that cannot be forwarded or whose other half was sent too, or exhausted ports) leave the
/// already serialised halves behind in the state "prepared for hand-over". Kept in the search.
pub const INCLUDE_FAILING_SENDS: bool = true;

/// Transport faults (connection cut while the halves are being connected or used).
pub const INCLUDE_FAULTS: bool = true;

/// GENUINE FINDING (kept as /tmp/hw/C05/findings/unconnectable-half-hangs-behind-two-forwarders.json):
/// when a connection fails behind two consecutive chmux forwarders (two endpoints relaying with
/// `chmux::Receiver::forward`, or the forwarders that `bin`/`io` halves install on every re-sending
/// endpoint), the downstream forwarder first closes its receiver gracefully (its sender reported
/// "closed") and then drops it when its next send fails. The mux handles the resulting
/// `ReceiveFinish` after `ReceiveClose` without downgrading the credit provider to a non-graceful
/// close, and the upstream forwarder sends with `override_graceful_close`: it waits for credits
/// forever. Port requests of later values are then never forwarded nor rejected, and the ends of
/// those halves at the origin hang (e.g. `bin::Sender::into_inner`, `mpsc::Receiver::recv`).
/// The same happens without any fault when a receiver behind two forwarders is dropped while data
/// is in flight: both halves of an `lr` channel sent through two relays (the second half is not
/// refused, see REPORT.md) leave the sender at the destination without any error for ever
/// (/tmp/hw/C05/findings/sender-never-closed-behind-two-forwarders-lr-both.json).
/// With this constant `true` the generator injects no fault, and sends no `lr` channel with both
/// halves, when two forwarders are in a row.
pub const EXCLUDE_DROPPED_RECEIVER_BEHIND_TWO_FORWARDERS: bool = false;

/// With a transport fault the statement only speaks about halves that *cannot be connected*: a
/// channel whose value reached the destination was connected, and what happens to it when a
/// connection dies afterwards is the subject of the fail-stop and close/drop properties (C06, C11).
/// With this constant `false` the no-hang and both-ends-see-an-error rules are applied, in fault
/// cases, only to channels whose value never reached the destination. Setting it to `true` finds
/// the side finding kept as /tmp/hw/C05/findings/side-forwarded-bin-sender-hangs-after-fault.json
/// (chmux: `ReceiveFinish` after `ReceiveClose` leaves the credit provider "gracefully closed", so
/// a forwarding sender, which overrides graceful close, waits for credits forever).
pub const JUDGE_CONNECTED_CHANNELS_AFTER_FAULT: bool = false;

/// GENUINE FINDING (kept as /tmp/hw/C05/findings/io-half-serialised-twice-*.json): `rch::io` halves
/// have a destructive `Serialize` (`take()` of the inner `bin` half). A value larger than
/// `max_data_size` is serialised twice by `base::Sender::send` (buffered attempt, then streaming),
/// so an `io::Sender` arrives as an empty shell ("channel closed") while its counterpart sees
/// "other part was dropped", and a value with an `io::Receiver` cannot be sent at all ("cannot
/// serialize: channel already connected or closed"). With this constant `true` the generator
/// replaces `io` halves by `bin` halves in part "stream" so that the search continues.
pub const EXCLUDE_IO_HALVES_WHEN_SERIALISED_TWICE: bool = true;

// ---------------------------------------------------------------------------------------------
// Case
// ---------------------------------------------------------------------------------------------

#[derive(Clone, Copy, Debug, Serialize, Deserialize, PartialEq, Eq, Hash)]
pub enum Kind {
    MpscTx,
    MpscRx,
    OneTx,
    OneRx,
    WatchTx,
    WatchRx,
    BcastRx,
    BinTx,
    BinRx,
    LrTx,
    LrRx,
    IoTx,
    IoRx,
}

#[derive(Clone, Copy, Debug, Serialize, Deserialize, PartialEq, Eq, Hash)]
pub enum Fam {
    Mpsc,
    Oneshot,
    Watch,
    Bcast,
    Bin,
    Lr,
    Io,
}

impl Kind {
    fn fam(self) -> Fam {
        match self {
            Kind::MpscTx | Kind::MpscRx => Fam::Mpsc,
            Kind::OneTx | Kind::OneRx => Fam::Oneshot,
            Kind::WatchTx | Kind::WatchRx => Fam::Watch,
            Kind::BcastRx => Fam::Bcast,
            Kind::BinTx | Kind::BinRx => Fam::Bin,
            Kind::LrTx | Kind::LrRx => Fam::Lr,
            Kind::IoTx | Kind::IoRx => Fam::Io,
        }
    }
    fn is_tx(self) -> bool {
        matches!(self, Kind::MpscTx | Kind::OneTx | Kind::WatchTx | Kind::BinTx | Kind::LrTx | Kind::IoTx)
    }
}

/// Shape of a value.
#[derive(Clone, Debug, Serialize, Deserialize, PartialEq, Eq, Hash)]
pub enum Shape {
    Unit,
    Bytes(u8),
    List(Vec<Shape>),
    Opt(Option<Box<Shape>>),
    Pair(Box<Shape>, Box<Shape>),
    Map(Vec<(u8, Shape)>),
    /// One half of a fresh channel; the counterpart stays at the origin. `queued` items are put
    /// into the channel before the half is sent (hand-over with a non-empty queue).
    Half { kind: Kind, queued: u8 },
    /// Both halves of one fresh channel, as a pair.
    Both { fam: Fam, rx_first: bool, queued: u8 },
}

#[derive(Clone, Debug, Serialize, Deserialize, PartialEq, Eq, Hash)]
pub struct FaultSpec {
    pub conn: u8,
    pub dir: u8,
    /// Frames of that direction that pass after the connection and the base channel are set up.
    pub after: u16,
    pub kind: u8,
}

#[derive(Clone, Debug, Serialize, Deserialize, PartialEq, Eq, Hash)]
pub struct Case {
    /// One entry per connection: configuration of the endpoint nearer to the origin and of the
    /// endpoint nearer to the destination. `cfgs.len()` = number of hops.
    pub cfgs: Vec<(GCfg, GCfg)>,
    pub sched: Sched,
    /// Values sent one after the other over the same base channel.
    pub vals: Vec<Shape>,
    /// Labels sent through every channel after delivery (oneshot: one).
    pub labels: u8,
    #[serde(default)]
    pub fault: Option<FaultSpec>,
    /// Streaming part: position at which the padding is inserted into the top-level list.
    #[serde(default)]
    pub pad: Option<u8>,
    /// Per intermediate endpoint: true = the endpoint does not receive and re-send the value but
    /// relays the base channel transparently with `chmux::Receiver::forward`.
    #[serde(default)]
    pub relay: Vec<bool>,
}

fn kind_strategy() -> BoxedStrategy<Kind> {
    prop_oneof![
        4 => Just(Kind::MpscTx),
        4 => Just(Kind::MpscRx),
        3 => Just(Kind::OneTx),
        3 => Just(Kind::OneRx),
        3 => Just(Kind::WatchTx),
        3 => Just(Kind::WatchRx),
        3 => Just(Kind::BcastRx),
        3 => Just(Kind::BinTx),
        3 => Just(Kind::BinRx),
        2 => Just(Kind::LrTx),
        2 => Just(Kind::LrRx),
        2 => Just(Kind::IoTx),
        2 => Just(Kind::IoRx),
    ]
    .boxed()
}

fn fam_strategy() -> BoxedStrategy<Fam> {
    prop_oneof![4 => Just(Fam::Mpsc), 3 => Just(Fam::Oneshot), 3 => Just(Fam::Watch), 4 => Just(Fam::Bin), 1 => Just(Fam::Lr), 2 => Just(Fam::Io)].boxed()
}

fn shape_strategy() -> BoxedStrategy<Shape> {
    let leaf = prop_oneof![
        1 => Just(Shape::Unit),
        1 => (0u8..=12).prop_map(Shape::Bytes),
        9 => (kind_strategy(), prop_oneof![3 => Just(0u8), 1 => Just(1u8), 1 => Just(2u8)]).prop_map(|(kind, queued)| Shape::Half { kind, queued }),
        2 => (fam_strategy(), any::<bool>(), 0u8..=1).prop_map(|(fam, rx_first, queued)| Shape::Both { fam, rx_first, queued }),
    ];
    leaf.prop_recursive(3, 24, 5, |inner| {
        prop_oneof![
            5 => proptest::collection::vec(inner.clone(), 0..6).prop_map(Shape::List),
            1 => proptest::option::of(inner.clone()).prop_map(|o| Shape::Opt(o.map(Box::new))),
            2 => (inner.clone(), inner.clone()).prop_map(|(a, b)| Shape::Pair(Box::new(a), Box::new(b))),
            2 => proptest::collection::vec((0u8..8, inner), 0..4).prop_map(Shape::Map),
        ]
    })
    .boxed()
}

/// A value: a shape that mostly contains at least one half.
fn value_strategy() -> BoxedStrategy<Shape> {
    (shape_strategy(), proptest::collection::vec((kind_strategy(), 0u8..=1), 1..=3), prop_oneof![9 => Just(true), 1 => Just(false)], any::<bool>())
        .prop_map(|(s, extra, want_halves, front)| {
            if want_halves && count_halves(&s) < 2 {
                // Add one to three halves next to whatever was generated.
                let mut items: Vec<Shape> = extra.into_iter().map(|(kind, queued)| Shape::Half { kind, queued }).collect();
                if front {
                    items.insert(0, s);
                } else {
                    items.push(s);
                }
                Shape::List(items)
            } else {
                s
            }
        })
        .boxed()
}

fn count_halves(s: &Shape) -> usize {
    match s {
        Shape::Unit | Shape::Bytes(_) => 0,
        Shape::List(v) => v.iter().map(count_halves).sum(),
        Shape::Opt(o) => o.as_ref().map(|b| count_halves(b)).unwrap_or(0),
        Shape::Pair(a, b) => count_halves(a) + count_halves(b),
        Shape::Map(m) => dedup_map(m).iter().map(|(_, s)| count_halves(s)).sum(),
        Shape::Half { .. } => 1,
        Shape::Both { .. } => 2,
    }
}

/// Map entries in the order in which they end up in the `BTreeMap` (last entry of a key wins).
fn dedup_map(m: &[(u8, Shape)]) -> Vec<(u8, &Shape)> {
    let mut b: BTreeMap<u8, &Shape> = BTreeMap::new();
    for (k, s) in m {
        b.insert(*k, s);
    }
    b.into_iter().collect()
}

/// Normalises a generated shape: at most `budget` halves (later ones become `Unit`), map keys
/// unique, `lr` halves replaced by `mpsc` halves unless allowed.
fn normalise(s: Shape, budget: &mut usize, allow_lr: bool, allow_io: bool) -> Shape {
    match s {
        Shape::Unit | Shape::Bytes(_) => s,
        Shape::List(v) => Shape::List(v.into_iter().map(|x| normalise(x, budget, allow_lr, allow_io)).collect()),
        Shape::Opt(o) => Shape::Opt(o.map(|b| Box::new(normalise(*b, budget, allow_lr, allow_io)))),
        Shape::Pair(a, b) => {
            let a = normalise(*a, budget, allow_lr, allow_io);
            let b = normalise(*b, budget, allow_lr, allow_io);
            Shape::Pair(Box::new(a), Box::new(b))
        }
        Shape::Map(m) => {
            let mut b: BTreeMap<u8, Shape> = BTreeMap::new();
            for (k, s) in m {
                b.insert(k, s);
            }
            Shape::Map(b.into_iter().map(|(k, s)| (k, normalise(s, budget, allow_lr, allow_io))).collect())
        }
        Shape::Half { kind, queued } => {
            if *budget == 0 {
                return Shape::Unit;
            }
            *budget -= 1;
            let kind = match kind {
                Kind::LrTx if !allow_lr => Kind::MpscTx,
                Kind::LrRx if !allow_lr => Kind::MpscRx,
                Kind::IoTx if !allow_io => Kind::BinTx,
                Kind::IoRx if !allow_io => Kind::BinRx,
                k => k,
            };
            Shape::Half { kind, queued }
        }
        Shape::Both { fam, rx_first, queued } => {
            if *budget < 2 {
                return Shape::Unit;
            }
            *budget -= 2;
            let fam = if (fam == Fam::Lr && !allow_lr) || (fam == Fam::Io && !allow_io) { Fam::Bin } else { fam };
            Shape::Both { fam, rx_first, queued }
        }
    }
}

fn lr_both_to_bin(s: Shape) -> Shape {
    match s {
        Shape::List(v) => Shape::List(v.into_iter().map(lr_both_to_bin).collect()),
        Shape::Opt(o) => Shape::Opt(o.map(|b| Box::new(lr_both_to_bin(*b)))),
        Shape::Pair(a, b) => Shape::Pair(Box::new(lr_both_to_bin(*a)), Box::new(lr_both_to_bin(*b))),
        Shape::Map(m) => Shape::Map(m.into_iter().map(|(k, s)| (k, lr_both_to_bin(s))).collect()),
        Shape::Both { fam: Fam::Lr, rx_first, queued } => Shape::Both { fam: Fam::Bin, rx_first, queued },
        other => other,
    }
}

fn cfg_strategy(streaming: bool) -> BoxedStrategy<GCfg> {
    (
        prop_oneof![2 => Just(4u32), 2 => Just(8u32), 2 => Just(16u32), 2 => Just(64u32), 1 => Just(1024u32)],
        prop_oneof![3 => 4u32..=16, 2 => Just(32u32), 2 => Just(256u32), 1 => Just(4096u32)],
        Just(64u32),
        prop_oneof![Just(1usize), Just(2usize), Just(16usize)],
        1usize..=3,
        1u16..=4,
        prop_oneof![Just(64usize), Just(128usize), Just(256usize)],
    )
        .prop_map(move |(chunk_size, receive_buffer, max_ports, max_received_ports, q, connect_queue, small_mds)| GCfg {
            chunk_size,
            receive_buffer,
            max_data_size: if streaming { small_mds } else { 1 << 16 },
            shared_q: q,
            tsend_q: q,
            trecv_q: q,
            connect_queue,
            max_ports,
            max_received_ports,
            timeout_s: Some(60),
        })
        .boxed()
}

pub fn strategy(streaming: bool) -> BoxedStrategy<Case> {
    let hops = prop_oneof![3 => Just(1usize), 3 => Just(2usize), 2 => Just(3usize)];
    let fault = if INCLUDE_FAULTS && !streaming {
        prop_oneof![
            7 => Just(None),
            1 => (0u8..3, 0u8..2, 0u16..120, 0u8..3).prop_map(|(conn, dir, after, kind)| Some(FaultSpec { conn, dir, after, kind })),
        ]
        .boxed()
    } else {
        Just(None).boxed()
    };
    (
        hops,
        proptest::collection::vec((cfg_strategy(streaming), cfg_strategy(streaming)), 3),
        sched(!streaming),
        prop_oneof![4 => proptest::collection::vec(value_strategy(), 1), 1 => proptest::collection::vec(value_strategy(), 2)],
        1u8..=3,
        fault,
        // lr halves cannot be forwarded: with several hops they are generated only sometimes.
        prop_oneof![1 => Just(true), 5 => Just(false)],
        any::<u8>(),
        // Port limits small enough to exhaust, on one or two endpoints.
        prop_oneof![
            6 => Just(Vec::new()),
            3 => proptest::collection::vec((any::<u8>(), prop_oneof![1 => 1u32..=3, 3 => 2u32..=10]), 1),
            1 => proptest::collection::vec((any::<u8>(), 1u32..=10), 2),
        ],
        proptest::collection::vec(prop_oneof![3 => Just(false), 1 => Just(true)], 2),
    )
        .prop_map(move |(hops, mut cfgs, sched, vals, labels, fault, lr_anyway, pad_pos, tight, mut relay)| {
            cfgs.truncate(hops);
            relay.truncate(hops - 1);
            for (sel, ports) in tight {
                let mut k = sel as usize % (2 * hops);
                // `forward` waits for a free port instead of failing: no tight limits on a relay.
                let at_relay = |k: usize| {
                    let endpoint = (k + 1) / 2;
                    endpoint >= 1 && endpoint < hops && relay[endpoint - 1]
                };
                if at_relay(k) {
                    k = if sel % 2 == 0 { 0 } else { 2 * hops - 1 };
                }
                let c = &mut cfgs[k / 2];
                if k % 2 == 0 {
                    c.0.max_ports = ports;
                } else {
                    c.1.max_ports = ports;
                }
            }
            let allow_lr = relay.iter().all(|r| *r) || (lr_anyway && INCLUDE_FAILING_SENDS);
            let mut budget = 8usize;
            let allow_io = !(streaming && EXCLUDE_IO_HALVES_WHEN_SERIALISED_TWICE);
            let vals: Vec<Shape> = vals.into_iter().map(|s| normalise(s, &mut budget, allow_lr, allow_io)).collect();
            let fault = fault.map(|mut f| {
                f.conn %= hops as u8;
                f
            });
            let mut case = Case { cfgs, sched, vals, labels, fault, pad: if streaming { Some(pad_pos) } else { None }, relay };
            if EXCLUDE_DROPPED_RECEIVER_BEHIND_TWO_FORWARDERS && two_forwarders_in_a_row(&case) {
                case.fault = None;
                case.vals = std::mem::take(&mut case.vals).into_iter().map(lr_both_to_bin).collect();
            }
            case
        })
        .boxed()
}

// ---------------------------------------------------------------------------------------------
// Runtime value
// ---------------------------------------------------------------------------------------------

#[derive(Clone, Copy, Debug, Serialize, Deserialize, PartialEq, Eq, Hash)]
pub struct Label {
    pub id: u32,
    pub n: u32,
}

type MTx = mpsc::Sender<Label>;
type MRx = mpsc::Receiver<Label>;
type OTx = oneshot::Sender<Label>;
type ORx = oneshot::Receiver<Label>;
type WTx = watch::Sender<Label>;
type WRx = watch::Receiver<Label>;
type BTx = broadcast::Sender<Label>;
type BRx = broadcast::Receiver<Label>;
type LTx = lr::Sender<Label>;
type LRx = lr::Receiver<Label>;

/// The value that travels. Every half carries the id of its channel.
#[derive(Serialize, Deserialize)]
pub enum Val {
    Unit,
    Bytes(Vec<u8>),
    List(Vec<Val>),
    Opt(Option<Box<Val>>),
    Pair(Box<Val>, Box<Val>),
    Map(BTreeMap<u8, Val>),
    MpscTx(u32, MTx),
    MpscRx(u32, MRx),
    OneTx(u32, OTx),
    OneRx(u32, ORx),
    WatchTx(u32, WTx),
    WatchRx(u32, WRx),
    BcastRx(u32, BRx),
    BinTx(u32, bin::Sender),
    BinRx(u32, bin::Receiver),
    LrTx(u32, LTx),
    LrRx(u32, LRx),
    IoTx(u32, io::Sender),
    IoRx(u32, io::Receiver),
}

#[derive(Serialize, Deserialize)]
pub struct Envelope {
    idx: u32,
    val: Val,
}

/// One end of a channel, held by the origin (retained counterpart) or by the destination.
enum End {
    MpscTx(MTx),
    MpscRx(MRx),
    OneTx(OTx),
    OneRx(ORx),
    WatchTx(WTx),
    WatchRx(WRx),
    BcastTx(BTx),
    BcastRx(BRx),
    BinTx(bin::Sender),
    BinRx(bin::Receiver),
    LrTx(LTx),
    LrRx(LRx),
    IoTx(io::Sender),
    IoRx(io::Receiver),
}

impl End {
    fn is_tx(&self) -> bool {
        matches!(self, End::MpscTx(_) | End::OneTx(_) | End::WatchTx(_) | End::BcastTx(_) | End::BinTx(_) | End::LrTx(_) | End::IoTx(_))
    }
}

#[derive(Clone, Debug)]
struct ChanInfo {
    id: u32,
    fam: Fam,
    val_idx: usize,
    /// Labels put into the channel before the hand-over.
    queued: u32,
    /// Stream kinds: number of labels overall (n = 0..total). Watch: value of the last label.
    total: u32,
    tx_sent: bool,
    rx_sent: bool,
    /// Oneshot whose sender was used up before the hand-over: there is no sending end any more.
    tx_used_up: bool,
}

struct BuildCtx {
    next_id: u32,
    labels: u32,
    val_idx: usize,
    chans: Vec<ChanInfo>,
    retained: Vec<(u32, End)>,
}

fn skeleton(v: &Val, out: &mut String) {
    use std::fmt::Write;
    match v {
        Val::Unit => out.push('U'),
        Val::Bytes(b) => {
            let sum: u32 = b.iter().enumerate().map(|(i, x)| (i as u32 + 1).wrapping_mul(*x as u32)).fold(0, u32::wrapping_add);
            let _ = write!(out, "B{}:{sum}", b.len());
        }
        Val::List(l) => {
            out.push_str("L[");
            for x in l {
                skeleton(x, out);
                out.push(',');
            }
            out.push(']');
        }
        Val::Opt(o) => match o {
            Some(x) => {
                out.push_str("S(");
                skeleton(x, out);
                out.push(')');
            }
            None => out.push('N'),
        },
        Val::Pair(a, b) => {
            out.push_str("P(");
            skeleton(a, out);
            out.push(';');
            skeleton(b, out);
            out.push(')');
        }
        Val::Map(m) => {
            out.push_str("M{");
            for (k, x) in m {
                let _ = write!(out, "{k}=");
                skeleton(x, out);
                out.push(',');
            }
            out.push('}');
        }
        Val::MpscTx(id, _) => {
            let _ = write!(out, "mpsc-tx#{id}");
        }
        Val::MpscRx(id, _) => {
            let _ = write!(out, "mpsc-rx#{id}");
        }
        Val::OneTx(id, _) => {
            let _ = write!(out, "one-tx#{id}");
        }
        Val::OneRx(id, _) => {
            let _ = write!(out, "one-rx#{id}");
        }
        Val::WatchTx(id, _) => {
            let _ = write!(out, "watch-tx#{id}");
        }
        Val::WatchRx(id, _) => {
            let _ = write!(out, "watch-rx#{id}");
        }
        Val::BcastRx(id, _) => {
            let _ = write!(out, "bcast-rx#{id}");
        }
        Val::BinTx(id, _) => {
            let _ = write!(out, "bin-tx#{id}");
        }
        Val::BinRx(id, _) => {
            let _ = write!(out, "bin-rx#{id}");
        }
        Val::LrTx(id, _) => {
            let _ = write!(out, "lr-tx#{id}");
        }
        Val::LrRx(id, _) => {
            let _ = write!(out, "lr-rx#{id}");
        }
        Val::IoTx(id, _) => {
            let _ = write!(out, "io-tx#{id}");
        }
        Val::IoRx(id, _) => {
            let _ = write!(out, "io-rx#{id}");
        }
    }
}

/// Takes a received value apart.
fn take_ends(v: Val, out: &mut Vec<(u32, End)>) {
    match v {
        Val::Unit | Val::Bytes(_) => {}
        Val::List(l) => l.into_iter().for_each(|x| take_ends(x, out)),
        Val::Opt(o) => {
            if let Some(x) = o {
                take_ends(*x, out)
            }
        }
        Val::Pair(a, b) => {
            take_ends(*a, out);
            take_ends(*b, out);
        }
        Val::Map(m) => m.into_values().for_each(|x| take_ends(x, out)),
        Val::MpscTx(id, e) => out.push((id, End::MpscTx(e))),
        Val::MpscRx(id, e) => out.push((id, End::MpscRx(e))),
        Val::OneTx(id, e) => out.push((id, End::OneTx(e))),
        Val::OneRx(id, e) => out.push((id, End::OneRx(e))),
        Val::WatchTx(id, e) => out.push((id, End::WatchTx(e))),
        Val::WatchRx(id, e) => out.push((id, End::WatchRx(e))),
        Val::BcastRx(id, e) => out.push((id, End::BcastRx(e))),
        Val::BinTx(id, e) => out.push((id, End::BinTx(e))),
        Val::BinRx(id, e) => out.push((id, End::BinRx(e))),
        Val::LrTx(id, e) => out.push((id, End::LrTx(e))),
        Val::LrRx(id, e) => out.push((id, End::LrRx(e))),
        Val::IoTx(id, e) => out.push((id, End::IoTx(e))),
        Val::IoRx(id, e) => out.push((id, End::IoRx(e))),
    }
}

fn pad_bytes(len: usize) -> Vec<u8> {
    (0..len).map(|i| (i as u32).wrapping_mul(2654435761).to_le_bytes()[3]).collect()
}

impl BuildCtx {
    /// Creates a channel of family `fam`. The halves selected by `send_tx` / `send_rx` are returned
    /// as values (to be embedded), the others are retained at the origin.
    fn channel(&mut self, fam: Fam, send_tx: bool, send_rx: bool, queued: u8) -> (Option<Val>, Option<Val>) {
        let id = self.next_id;
        self.next_id += 1;
        let n = self.labels;
        let mut info = ChanInfo { id, fam, val_idx: self.val_idx, queued: 0, total: n, tx_sent: send_tx, rx_sent: send_rx, tx_used_up: false };
        let (tx, rx): (Option<End>, End) = match fam {
            Fam::Mpsc => {
                let q = queued as u32;
                let (t, r) = mpsc::channel::<Label, remoc::codec::Default>(q as usize + 1);
                for k in 0..q {
                    let _ = t.try_send(Label { id, n: k });
                }
                info.queued = q;
                info.total = q + n;
                (Some(End::MpscTx(t)), End::MpscRx(r))
            }
            Fam::Oneshot => {
                let (t, r) = oneshot::channel::<Label, remoc::codec::Default>();
                info.total = 1;
                if queued > 0 && !send_tx {
                    // The value is already in the channel when the receiver is handed over.
                    let _ = t.send(Label { id, n: 0 });
                    info.queued = 1;
                    info.tx_used_up = true;
                    (None, End::OneRx(r))
                } else {
                    (Some(End::OneTx(t)), End::OneRx(r))
                }
            }
            Fam::Watch => {
                let q = (queued as u32).min(1);
                let (t, r) = watch::channel::<Label, remoc::codec::Default>(Label { id, n: 0 });
                if q > 0 {
                    let _ = t.send(Label { id, n: 1 });
                }
                info.queued = q;
                info.total = q + n;
                (Some(End::WatchTx(t)), End::WatchRx(r))
            }
            Fam::Bcast => {
                let q = queued as u32;
                let t = BTx::new();
                let r: BRx = t.subscribe((q + n + 1) as usize);
                for k in 0..q {
                    let _ = t.send(Label { id, n: k });
                }
                info.queued = q;
                info.total = q + n;
                info.tx_sent = false;
                (Some(End::BcastTx(t)), End::BcastRx(r))
            }
            Fam::Bin => {
                let (t, r) = bin::channel();
                (Some(End::BinTx(t)), End::BinRx(r))
            }
            Fam::Lr => {
                let (t, r) = lr::channel::<Label, remoc::codec::Default>();
                (Some(End::LrTx(t)), End::LrRx(r))
            }
            Fam::Io => {
                let (t, r) = io::sized::<remoc::codec::Default>(8 * n as u64);
                (Some(End::IoTx(t)), End::IoRx(r))
            }
        };
        let to_val = |e: End| match e {
            End::MpscTx(t) => Val::MpscTx(id, t),
            End::MpscRx(r) => Val::MpscRx(id, r),
            End::OneTx(t) => Val::OneTx(id, t),
            End::OneRx(r) => Val::OneRx(id, r),
            End::WatchTx(t) => Val::WatchTx(id, t),
            End::WatchRx(r) => Val::WatchRx(id, r),
            End::BcastRx(r) => Val::BcastRx(id, r),
            End::BinTx(t) => Val::BinTx(id, t),
            End::BinRx(r) => Val::BinRx(id, r),
            End::LrTx(t) => Val::LrTx(id, t),
            End::LrRx(r) => Val::LrRx(id, r),
            End::IoTx(t) => Val::IoTx(id, t),
            End::IoRx(r) => Val::IoRx(id, r),
            End::BcastTx(_) => unreachable!("a broadcast sender cannot be sent"),
        };
        let mut out = (None, None);
        if let Some(end) = tx {
            if info.tx_sent {
                out.0 = Some(to_val(end));
            } else {
                self.retained.push((id, end));
            }
        }
        if info.rx_sent {
            out.1 = Some(to_val(rx));
        } else {
            self.retained.push((id, rx));
        }
        self.chans.push(info);
        out
    }

    fn build(&mut self, s: &Shape) -> Val {
        match s {
            Shape::Unit => Val::Unit,
            Shape::Bytes(n) => Val::Bytes(pad_bytes(*n as usize)),
            Shape::List(v) => Val::List(v.iter().map(|x| self.build(x)).collect()),
            Shape::Opt(o) => Val::Opt(o.as_ref().map(|x| Box::new(self.build(x)))),
            Shape::Pair(a, b) => {
                let a = self.build(a);
                let b = self.build(b);
                Val::Pair(Box::new(a), Box::new(b))
            }
            Shape::Map(m) => {
                let mut out = BTreeMap::new();
                for (k, x) in dedup_map(m) {
                    let v = self.build(x);
                    out.insert(k, v);
                }
                Val::Map(out)
            }
            Shape::Half { kind, queued } => {
                let (t, r) = self.channel(kind.fam(), kind.is_tx(), !kind.is_tx(), *queued);
                t.or(r).unwrap_or(Val::Unit)
            }
            Shape::Both { fam, rx_first, queued } => {
                let (t, r) = self.channel(*fam, true, true, *queued);
                let (t, r) = (t.unwrap_or(Val::Unit), r.unwrap_or(Val::Unit));
                if *rx_first {
                    Val::Pair(Box::new(r), Box::new(t))
                } else {
                    Val::Pair(Box::new(t), Box::new(r))
                }
            }
        }
    }
}

// ---------------------------------------------------------------------------------------------
// Ends: label traffic after delivery
// ---------------------------------------------------------------------------------------------

#[derive(Clone, Debug, Default)]
struct EndRep {
    id: u32,
    is_tx: bool,
    at_dest: bool,
    kind: &'static str,
    /// Labels received (receiving ends).
    got: Vec<Label>,
    /// Data that is not a label at all (bin).
    garbled: Option<String>,
    lagged: u32,
    /// Sends that were accepted (sending ends).
    sent: u32,
    /// Error or end-of-stream observed by this end.
    term: Option<String>,
    /// An operation of this end did not finish before the virtual deadline.
    hang: Option<String>,
    /// Sending end: the receiving end gave up, but no error became observable here.
    no_error_seen: bool,
    complete: bool,
}

/// 0 = receiving end still working, 1 = got everything, 2 = gave up, 3 = never existed.
struct ChanSync {
    state: tokio::sync::watch::Sender<u8>,
}

#[derive(Clone, Copy)]
struct Pace {
    t_end: Instant,
    t_probe: Instant,
    timers: bool,
}

async fn until<F: std::future::Future>(t: Instant, fut: F) -> Result<F::Output, ()> {
    let left = t.saturating_duration_since(Instant::now()).as_secs().max(1);
    sim::within(left, fut).await
}

#[derive(PartialEq)]
enum Peer {
    Complete,
    GaveUp,
    Hung,
}

async fn wait_peer(sync: &ChanSync, pace: Pace) -> Peer {
    let mut r = sync.state.subscribe();
    let res = until(pace.t_end, r.wait_for(|s| *s != 0)).await;
    match res {
        Ok(Ok(s)) => {
            if *s == 1 {
                Peer::Complete
            } else {
                Peer::GaveUp
            }
        }
        _ => Peer::Hung,
    }
}

fn bin_label(l: Label) -> Bytes {
    let mut v = Vec::with_capacity(8);
    v.extend_from_slice(&l.id.to_le_bytes());
    v.extend_from_slice(&l.n.to_le_bytes());
    Bytes::from(v)
}

async fn pause(tape: &Tape, pace: Pace) {
    tape_pause(tape, pace.timers).await;
}

/// Frames per connection (keep-alive pings not counted) beyond which a case counts as livelocked.
const FRAME_BUDGET: u64 = 60_000;

/// Reads on after the expected labels arrived: anything further is recorded (and judged by the
/// oracle); not reaching the end of the stream within the tail window is not judged.
const TAIL_S: u64 = 600;

async fn run_end(id: u32, end: End, info: ChanInfo, at_dest: bool, sync: Arc<ChanSync>, tape: Tape, pace: Pace) -> EndRep {
    let mut rep = EndRep { id, is_tx: end.is_tx(), at_dest, ..Default::default() };
    let start = info.queued;
    let total = info.total;
    let t_end = pace.t_end;
    let is_tx = end.is_tx();
    match end {
        End::MpscTx(tx) => {
            rep.kind = "mpsc-tx";
            let mut keep = Vec::new();
            for n in start..total {
                pause(&tape, pace).await;
                match until(t_end, tx.send(Label { id, n })).await {
                    Err(()) => {
                        rep.hang = Some(format!("mpsc send of label {n}"));
                        break;
                    }
                    Ok(Ok(s)) => {
                        rep.sent += 1;
                        keep.push(s);
                    }
                    Ok(Err(e)) => {
                        rep.term = Some(format!("send: {e}"));
                        break;
                    }
                }
            }
            if rep.term.is_none() && rep.hang.is_none() && wait_peer(&sync, pace).await == Peer::GaveUp {
                match until(pace.t_probe, tx.closed()).await {
                    Ok(()) => rep.term = Some(format!("closed: {:?}", tx.closed_reason())),
                    Err(()) => rep.no_error_seen = true,
                }
            }
        }
        End::MpscRx(mut rx) => {
            rep.kind = "mpsc-rx";
            while (rep.got.len() as u32) < total {
                match until(t_end, rx.recv()).await {
                    Err(()) => {
                        rep.hang = Some(format!("mpsc recv after {} labels", rep.got.len()));
                        break;
                    }
                    Ok(Ok(Some(l))) => rep.got.push(l),
                    Ok(Ok(None)) => {
                        rep.term = Some("end of stream".into());
                        break;
                    }
                    Ok(Err(e)) => {
                        rep.term = Some(format!("recv: {e}"));
                        break;
                    }
                }
            }
            rep.complete = rep.got.len() as u32 == total;
            sync.state.send_replace(if rep.complete { 1 } else { 2 });
            if rep.complete {
                let tail = Instant::now() + Duration::from_secs(TAIL_S);
                while let Ok(Ok(Some(l))) = until(tail, rx.recv()).await {
                    rep.got.push(l);
                }
            }
        }
        End::OneTx(tx) => {
            rep.kind = "oneshot-tx";
            pause(&tape, pace).await;
            match tx.send(Label { id, n: 0 }) {
                Ok(sending) => {
                    rep.sent = 1;
                    let _ = wait_peer(&sync, pace).await;
                    drop(sending);
                }
                Err(e) => rep.term = Some(format!("send: {e}")),
            }
        }
        End::OneRx(rx) => {
            rep.kind = "oneshot-rx";
            match until(t_end, rx).await {
                Err(()) => rep.hang = Some("oneshot receive".into()),
                Ok(Ok(l)) => {
                    rep.got.push(l);
                    rep.complete = true;
                }
                Ok(Err(e)) => rep.term = Some(format!("recv: {e}")),
            }
            sync.state.send_replace(if rep.complete { 1 } else { 2 });
        }
        End::WatchTx(tx) => {
            rep.kind = "watch-tx";
            for n in start + 1..=total {
                pause(&tape, pace).await;
                match tx.send(Label { id, n }) {
                    Ok(()) => rep.sent += 1,
                    Err(e) => {
                        rep.term = Some(format!("send: {e}"));
                        break;
                    }
                }
            }
            if rep.term.is_none() && wait_peer(&sync, pace).await == Peer::GaveUp {
                match until(pace.t_probe, tx.closed()).await {
                    Ok(()) => rep.term = Some("closed".into()),
                    Err(()) => rep.no_error_seen = true,
                }
            }
        }
        End::WatchRx(mut rx) => {
            rep.kind = "watch-rx";
            loop {
                let cur = match rx.borrow_and_update() {
                    Ok(r) => Ok(*r),
                    Err(e) => Err(e),
                };
                match cur {
                    Ok(l) => {
                        if rep.got.last() != Some(&l) {
                            rep.got.push(l);
                        }
                        if l.id == id && l.n == total {
                            rep.complete = true;
                            break;
                        }
                    }
                    Err(e) => {
                        rep.term = Some(format!("value: {e}"));
                        break;
                    }
                }
                match until(t_end, rx.changed()).await {
                    Err(()) => {
                        rep.hang = Some(format!("watch changed() after {:?}", rep.got.last()));
                        break;
                    }
                    Ok(Ok(())) => {}
                    Ok(Err(_)) => {
                        if let Ok(r) = rx.borrow() {
                            let l = *r;
                            if rep.got.last() != Some(&l) {
                                rep.got.push(l);
                            }
                            if l.id == id && l.n == total {
                                rep.complete = true;
                            }
                        }
                        if !rep.complete {
                            rep.term = Some("closed".into());
                        }
                        break;
                    }
                }
            }
            sync.state.send_replace(if rep.complete { 1 } else { 2 });
        }
        End::BcastTx(tx) => {
            rep.kind = "broadcast-tx";
            for n in start..total {
                pause(&tape, pace).await;
                match tx.send(Label { id, n }) {
                    Ok(_) => rep.sent += 1,
                    Err(e) => {
                        rep.term = Some(format!("send: {e}"));
                        break;
                    }
                }
            }
            if rep.term.is_none() && wait_peer(&sync, pace).await == Peer::GaveUp {
                // A broadcast sender learns about a lost subscriber when it sends.
                let probe = async {
                    loop {
                        if let Err(e) = tx.send(Label { id, n: u32::MAX }) {
                            break format!("send: {e}");
                        }
                        // A timer, also in the tick-paced part: a loop of yields alone would keep the
                        // paused clock from ever advancing to the probe deadline.
                        tokio::time::sleep(Duration::from_secs(5)).await;
                    }
                };
                match until(pace.t_probe, probe).await {
                    Ok(e) => rep.term = Some(e),
                    Err(()) => rep.no_error_seen = true,
                }
            }
        }
        End::BcastRx(mut rx) => {
            rep.kind = "broadcast-rx";
            loop {
                match until(t_end, rx.recv()).await {
                    Err(()) => {
                        rep.hang = Some(format!("broadcast recv after {} labels", rep.got.len()));
                        break;
                    }
                    Ok(Ok(l)) => {
                        rep.got.push(l);
                        if l.id == id && l.n + 1 == total {
                            rep.complete = true;
                            break;
                        }
                    }
                    Ok(Err(broadcast::RecvError::Lagged)) => rep.lagged += 1,
                    Ok(Err(e)) => {
                        rep.term = Some(format!("recv: {e}"));
                        break;
                    }
                }
            }
            sync.state.send_replace(if rep.complete { 1 } else { 2 });
        }
        End::BinTx(tx) => {
            rep.kind = "bin-tx";
            match until(t_end, tx.into_inner()).await {
                Err(()) => rep.hang = Some("bin sender connect".into()),
                Ok(Err(e)) => rep.term = Some(format!("connect: {e}")),
                Ok(Ok(mut raw)) => {
                    for n in start..total {
                        pause(&tape, pace).await;
                        match until(t_end, raw.send(bin_label(Label { id, n }))).await {
                            Err(()) => {
                                rep.hang = Some(format!("bin send of label {n}"));
                                break;
                            }
                            Ok(Ok(())) => rep.sent += 1,
                            Ok(Err(e)) => {
                                rep.term = Some(format!("send: {e}"));
                                break;
                            }
                        }
                    }
                    if rep.term.is_none() && rep.hang.is_none() && wait_peer(&sync, pace).await == Peer::GaveUp {
                        match until(pace.t_probe, raw.closed()).await {
                            Ok(()) => rep.term = Some("closed".into()),
                            Err(()) => rep.no_error_seen = true,
                        }
                    }
                }
            }
        }
        End::BinRx(rx) => {
            rep.kind = "bin-rx";
            match until(t_end, rx.into_inner()).await {
                Err(()) => rep.hang = Some("bin receiver connect".into()),
                Ok(Err(e)) => rep.term = Some(format!("connect: {e}")),
                Ok(Ok(mut raw)) => {
                    let mut decode = |rep: &mut EndRep, mut b: Bytes| {
                        if b.len() == 8 {
                            let lid = b.get_u32_le();
                            let n = b.get_u32_le();
                            rep.got.push(Label { id: lid, n });
                        } else if rep.garbled.is_none() {
                            rep.garbled = Some(format!("{} bytes: {:?}", b.len(), &b[..b.len().min(16)]));
                        }
                    };
                    while (rep.got.len() as u32) < total && rep.garbled.is_none() {
                        match until(t_end, raw.recv()).await {
                            Err(()) => {
                                rep.hang = Some(format!("bin recv after {} labels", rep.got.len()));
                                break;
                            }
                            Ok(Ok(Some(b))) => decode(&mut rep, b.into()),
                            Ok(Ok(None)) => {
                                rep.term = Some("end of stream".into());
                                break;
                            }
                            Ok(Err(e)) => {
                                rep.term = Some(format!("recv: {e}"));
                                break;
                            }
                        }
                    }
                    rep.complete = rep.got.len() as u32 == total && rep.garbled.is_none();
                    sync.state.send_replace(if rep.complete { 1 } else { 2 });
                    if rep.complete {
                        let tail = Instant::now() + Duration::from_secs(TAIL_S);
                        while let Ok(Ok(Some(b))) = until(tail, raw.recv()).await {
                            decode(&mut rep, b.into());
                        }
                    }
                }
            }
            if !rep.complete {
                sync.state.send_replace(2);
            }
        }
        End::LrTx(mut tx) => {
            rep.kind = "lr-tx";
            for n in start..total {
                pause(&tape, pace).await;
                match until(t_end, tx.send(Label { id, n })).await {
                    Err(()) => {
                        rep.hang = Some(format!("lr send of label {n}"));
                        break;
                    }
                    Ok(Ok(())) => rep.sent += 1,
                    Ok(Err(e)) => {
                        rep.term = Some(format!("send: {e}"));
                        break;
                    }
                }
            }
            if rep.term.is_none() && rep.hang.is_none() && wait_peer(&sync, pace).await == Peer::GaveUp {
                let probe = async {
                    match tx.closed().await {
                        Ok(c) => {
                            c.await;
                            "closed".to_string()
                        }
                        Err(e) => format!("connect: {e}"),
                    }
                };
                match until(pace.t_probe, probe).await {
                    Ok(e) => rep.term = Some(e),
                    Err(()) => rep.no_error_seen = true,
                }
            }
        }
        End::LrRx(mut rx) => {
            rep.kind = "lr-rx";
            while (rep.got.len() as u32) < total {
                match until(t_end, rx.recv()).await {
                    Err(()) => {
                        rep.hang = Some(format!("lr recv after {} labels", rep.got.len()));
                        break;
                    }
                    Ok(Ok(Some(l))) => rep.got.push(l),
                    Ok(Ok(None)) => {
                        rep.term = Some("end of stream".into());
                        break;
                    }
                    Ok(Err(e)) => {
                        rep.term = Some(format!("recv: {e}"));
                        break;
                    }
                }
            }
            rep.complete = rep.got.len() as u32 == total;
            sync.state.send_replace(if rep.complete { 1 } else { 2 });
            if rep.complete {
                let tail = Instant::now() + Duration::from_secs(TAIL_S);
                while let Ok(Ok(Some(l))) = until(tail, rx.recv()).await {
                    rep.got.push(l);
                }
            }
        }
        End::IoTx(mut tx) => {
            use tokio::io::AsyncWriteExt;
            rep.kind = "io-tx";
            for n in start..total {
                pause(&tape, pace).await;
                let data = bin_label(Label { id, n });
                let res = until(t_end, async {
                    tx.write_all(&data).await?;
                    tx.flush().await
                })
                .await;
                match res {
                    Err(()) => {
                        rep.hang = Some(format!("io write of label {n}"));
                        break;
                    }
                    Ok(Ok(())) => rep.sent += 1,
                    Ok(Err(e)) => {
                        rep.term = Some(format!("write: {e}"));
                        break;
                    }
                }
            }
            if rep.term.is_none() && rep.hang.is_none() {
                match until(t_end, tx.shutdown()).await {
                    Err(()) => rep.hang = Some("io shutdown".into()),
                    Ok(Ok(())) => {}
                    Ok(Err(e)) => rep.term = Some(format!("shutdown: {e}")),
                }
                let _ = wait_peer(&sync, pace).await;
            }
        }
        End::IoRx(mut rx) => {
            use tokio::io::AsyncReadExt;
            rep.kind = "io-rx";
            while (rep.got.len() as u32) < total {
                let mut buf = [0u8; 8];
                match until(t_end, rx.read_exact(&mut buf)).await {
                    Err(()) => {
                        rep.hang = Some(format!("io read after {} labels", rep.got.len()));
                        break;
                    }
                    Ok(Ok(_)) => {
                        let mut b = &buf[..];
                        let lid = b.get_u32_le();
                        let n = b.get_u32_le();
                        rep.got.push(Label { id: lid, n });
                    }
                    Ok(Err(e)) => {
                        rep.term = Some(format!("read: {e}"));
                        break;
                    }
                }
            }
            rep.complete = rep.got.len() as u32 == total;
            sync.state.send_replace(if rep.complete { 1 } else { 2 });
            if rep.complete {
                let tail = Instant::now() + Duration::from_secs(TAIL_S);
                let mut buf = [0u8; 8];
                if let Ok(Ok(k)) = until(tail, rx.read(&mut buf)).await {
                    if k > 0 {
                        rep.garbled = Some(format!("{k} bytes after the announced size: {:?}", &buf[..k]));
                    }
                }
            }
        }
    }
    let _ = is_tx;
    rep
}

// ---------------------------------------------------------------------------------------------
// Execution
// ---------------------------------------------------------------------------------------------

#[derive(Default)]
struct Shared {
    chans: Mutex<Vec<ChanInfo>>,
    syncs: Mutex<HashMap<u32, Arc<ChanSync>>>,
    handles: Mutex<Vec<JoinHandle<EndRep>>>,
    /// (id, is_tx) of the ends that were started.
    started: Mutex<HashSet<(u32, bool)>>,
    skels: Mutex<HashMap<u32, String>>,
    fails: Mutex<Vec<(String, String)>>,
    /// Error texts seen anywhere outside the ends (base channel sends and receives).
    notes: Mutex<Vec<String>>,
    /// Result of the origin's send per value: Ok, or the error text.
    sent: Mutex<HashMap<u32, Result<(), String>>>,
    /// Values that arrived at the destination.
    delivered: Mutex<HashSet<u32>>,
}

impl Shared {
    fn sync(&self, id: u32) -> Arc<ChanSync> {
        let mut s = self.syncs.lock().unwrap();
        s.entry(id).or_insert_with(|| Arc::new(ChanSync { state: tokio::sync::watch::channel(0u8).0 })).clone()
    }
    fn fail(&self, sig: &str, msg: String) {
        self.fails.lock().unwrap().push((sig.to_string(), msg));
    }
    fn note(&self, s: String) {
        self.notes.lock().unwrap().push(s);
    }
    fn start_end(self: &Arc<Self>, id: u32, end: End, info: ChanInfo, at_dest: bool, tape: &Tape, pace: Pace) {
        let sync = self.sync(id);
        self.started.lock().unwrap().insert((id, end.is_tx()));
        let h = spawn_actor(run_end(id, end, info, at_dest, sync, tape.clone(), pace));
        self.handles.lock().unwrap().push(h);
    }
}

pub struct Run {
    pub fails: Vec<(String, String)>,
    pub frames: u64,
    pub setup_ok: bool,
    pub halves_max: usize,
    pub exhausted: bool,
    pub connected: usize,
    pub failed_chans: usize,
    pub values_sent: usize,
    pub values_delivered: usize,
    pub classes: Vec<String>,
}

fn total_halves(case: &Case) -> usize {
    case.vals.iter().map(count_halves).sum()
}

fn has_lr(s: &Shape) -> (bool, bool) {
    // (any lr half, both halves of one lr channel)
    match s {
        Shape::Unit | Shape::Bytes(_) => (false, false),
        Shape::List(v) => v.iter().map(has_lr).fold((false, false), |a, b| (a.0 || b.0, a.1 || b.1)),
        Shape::Opt(o) => o.as_ref().map(|b| has_lr(b)).unwrap_or((false, false)),
        Shape::Pair(a, b) => {
            let (a, b) = (has_lr(a), has_lr(b));
            (a.0 || b.0, a.1 || b.1)
        }
        Shape::Map(m) => dedup_map(m).iter().map(|(_, s)| has_lr(s)).fold((false, false), |a, b| (a.0 || b.0, a.1 || b.1)),
        Shape::Half { kind, .. } => (kind.fam() == Fam::Lr, false),
        Shape::Both { fam, .. } => (*fam == Fam::Lr, *fam == Fam::Lr),
    }
}

/// The send of this value must fail by the documented restrictions of `lr` channels (exactly one
/// half can be sent, a received half cannot be forwarded).
fn lr_refused(case: &Case, s: &Shape) -> bool {
    let (any, both) = has_lr(s);
    both || (any && (1..case.cfgs.len()).any(|i| !is_relay(case, i)))
}

fn has_fam(s: &Shape, f: &dyn Fn(Fam) -> bool) -> bool {
    match s {
        Shape::Unit | Shape::Bytes(_) => false,
        Shape::List(v) => v.iter().any(|x| has_fam(x, f)),
        Shape::Opt(o) => o.as_ref().map(|b| has_fam(b, f)).unwrap_or(false),
        Shape::Pair(a, b) => has_fam(a, f) || has_fam(b, f),
        Shape::Map(m) => dedup_map(m).iter().any(|(_, s)| has_fam(s, f)),
        Shape::Half { kind, .. } => f(kind.fam()),
        Shape::Both { fam, .. } => f(*fam),
    }
}

/// Two chmux forwarders in a row on the path of some channel: both intermediate endpoints relay,
/// or a `bin`/`io` half (which is forwarded by a chmux forwarder at every intermediate endpoint,
/// relaying or re-sending) travels over three connections.
fn two_forwarders_in_a_row(case: &Case) -> bool {
    case.cfgs.len() == 3 && ((is_relay(case, 1) && is_relay(case, 2)) || case.vals.iter().any(|s| has_fam(s, &|f| matches!(f, Fam::Bin | Fam::Io))))
}

fn is_relay(case: &Case, endpoint: usize) -> bool {
    endpoint >= 1 && endpoint < case.cfgs.len() && case.relay.get(endpoint - 1).copied().unwrap_or(false)
}

/// A relaying endpoint accepts a batch of port requests only up to `max_received_ports` (a value
/// with more halves is refused by design), and it *waits* for free ports instead of failing.
fn relay_limits_ok(case: &Case) -> bool {
    let most = case.vals.iter().map(count_halves).max().unwrap_or(0);
    (1..case.cfgs.len()).filter(|i| is_relay(case, *i)).all(|i| case.cfgs[i - 1].1.max_received_ports >= most)
}

fn relay_tight(case: &Case) -> bool {
    let need = total_halves(case) as u32 + 3;
    (1..case.cfgs.len()).filter(|i| is_relay(case, *i)).any(|i| case.cfgs[i - 1].1.max_ports < need || case.cfgs[i].0.max_ports < need)
}

/// Every endpoint has room for all ports the case can need: the base channel, one port per half
/// per connection, and slack.
fn ports_roomy(case: &Case) -> bool {
    let need = total_halves(case) as u32 + 3;
    case.cfgs.iter().all(|(a, b)| a.max_ports >= need && b.max_ports >= need)
}

struct Conn {
    link: SimLink,
    _keep: (chmux::Client, chmux::Listener, chmux::Client, chmux::Listener, chmux::Receiver, chmux::Sender),
    runs: (JoinHandle<gen::MuxResult>, JoinHandle<gen::MuxResult>),
}

async fn execute(case: &Case) -> Run {
    let streaming = case.pad.is_some();
    let timers = !streaming;
    let mut run = Run {
        fails: vec![],
        frames: 0,
        setup_ok: false,
        halves_max: case.vals.iter().map(count_halves).max().unwrap_or(0),
        exhausted: false,
        connected: 0,
        failed_chans: 0,
        values_sent: 0,
        values_delivered: 0,
        classes: vec![],
    };
    let tape = case.sched.tape();
    let hops = case.cfgs.len();
    let cap = case.cfgs.iter().map(|(a, b)| gen::delay_cap_ms(a, b)).min().unwrap_or(10_000);
    let deadline_s = case.sched.deadline_s(6_000, cap);
    let t_end = Instant::now() + Duration::from_secs(deadline_s);
    let pace = Pace { t_end, t_probe: t_end + Duration::from_secs(3_000), timers };

    // Connections and base channels.
    let mut conns: Vec<Conn> = Vec::new();
    let mut txs: Vec<chmux::Sender> = Vec::new();
    let mut rxs: Vec<chmux::Receiver> = Vec::new();
    for (i, (lo, hi)) in case.cfgs.iter().enumerate() {
        let (link, a, b) = match until(t_end, connect_pair(lo, hi, &case.sched, vec![])).await {
            Ok(Ok(x)) => x,
            Ok(Err(e)) => {
                run.fails.push(("C05/setup".into(), format!("connection {i}: {e}")));
                return run;
            }
            Err(()) => {
                run.fails.push(("C05/setup".into(), format!("connection {i}: handshake hangs")));
                return run;
            }
        };
        let gen::Side { client: ca, listener: la, run: ra } = a;
        let gen::Side { client: cb, listener: mut lb, run: rb } = b;
        let (c, l) = tokio::join!(until(t_end, ca.connect()), until(t_end, lb.accept()));
        let ((raw_tx, raw_rx_lo), (raw_tx_hi, raw_rx)) = match (c, l) {
            (Ok(Ok(c)), Ok(Ok(Some(l)))) => (c, l),
            _ => {
                run.fails.push(("C05/setup".into(), format!("connection {i}: base port setup failed")));
                return run;
            }
        };
        // A connection that carries more frames than any case can need is a livelock; the link
        // then blocks, so that the case ends at the virtual deadline instead of spinning.
        link.set_budget(FRAME_BUDGET);
        txs.push(raw_tx);
        rxs.push(raw_rx);
        conns.push(Conn { link, _keep: (ca, la, cb, lb, raw_rx_lo, raw_tx_hi), runs: (ra, rb) });
    }
    run.setup_ok = true;
    if let Some(f) = &case.fault {
        let c = &conns[f.conn as usize % hops];
        let kind = [FaultKind::Eof, FaultKind::SinkError, FaultKind::StreamError][f.kind as usize % 3];
        let dir = f.dir % 2;
        c.link.arm(Fault { dir, after: c.link.sent(dir) + f.after as u32, kind });
    }

    let shared = Arc::new(Shared::default());

    // Origin.
    let origin = {
        let shared = shared.clone();
        let tape = tape.clone();
        let case = case.clone();
        let mut tx = base::Sender::<Envelope>::new(txs.remove(0));
        spawn_actor(async move {
            let mut next_id = 0u32;
            let mds = case.cfgs.iter().flat_map(|(a, b)| [a.max_data_size, b.max_data_size]).max().unwrap_or(0);
            for (vi, shape) in case.vals.iter().enumerate() {
                pause(&tape, pace).await;
                let mut ctx = BuildCtx { next_id, labels: case.labels as u32, val_idx: vi, chans: vec![], retained: vec![] };
                let mut val = ctx.build(shape);
                next_id = ctx.next_id;
                if let Some(pos) = case.pad {
                    let pad = Val::Bytes(pad_bytes(mds + 16));
                    val = match val {
                        Val::List(mut l) => {
                            let at = pos as usize % (l.len() + 1);
                            l.insert(at, pad);
                            Val::List(l)
                        }
                        other => {
                            if pos % 4 == 0 {
                                Val::List(vec![pad, other])
                            } else {
                                Val::List(vec![other, pad])
                            }
                        }
                    };
                }
                let mut sk = String::new();
                skeleton(&val, &mut sk);
                shared.skels.lock().unwrap().insert(vi as u32, sk);
                shared.chans.lock().unwrap().extend(ctx.chans.iter().cloned());
                let res = until(t_end, tx.send(Envelope { idx: vi as u32, val })).await;
                let res = match res {
                    Err(()) => {
                        shared.fail("C05/base-hang", format!("origin: base send of value {vi} did not finish within {deadline_s} virtual s"));
                        Err("hang".to_string())
                    }
                    Ok(Ok(())) => Ok(()),
                    Ok(Err(e)) => {
                        let text = format!("origin send of value {vi}: {}", e.kind);
                        shared.note(text.clone());
                        // The value (with all halves in it) comes back with the error and is dropped.
                        drop(e);
                        Err(text)
                    }
                };
                shared.sent.lock().unwrap().insert(vi as u32, res);
                let chans = ctx.chans.clone();
                for (id, end) in ctx.retained {
                    let info = chans.iter().find(|c| c.id == id).unwrap().clone();
                    shared.start_end(id, end, info, false, &tape, pace);
                }
            }
            pause(&tape, pace).await;
            drop(tx);
        })
    };

    // Intermediate endpoints.
    let mut mids = Vec::new();
    for i in 1..hops {
        let shared = shared.clone();
        let tape = tape.clone();
        let mut raw_rx = rxs.remove(0);
        let mut raw_tx = txs.remove(0);
        if is_relay(case, i) {
            mids.push(spawn_actor(async move {
                match until(t_end, raw_rx.forward(&mut raw_tx)).await {
                    Err(()) => shared.fail("C05/base-hang", format!("endpoint {i}: relaying the base channel did not finish within {deadline_s} virtual s")),
                    Ok(Ok(_)) => {}
                    Ok(Err(e)) => shared.note(format!("endpoint {i} relay: {e}")),
                }
                drop(raw_tx);
                drop(raw_rx);
            }));
            continue;
        }
        let mut rx = base::Receiver::<Envelope>::new(raw_rx);
        let mut tx = base::Sender::<Envelope>::new(raw_tx);
        mids.push(spawn_actor(async move {
            loop {
                match until(t_end, rx.recv()).await {
                    Err(()) => {
                        shared.fail("C05/base-hang", format!("endpoint {i}: base receive did not finish within {deadline_s} virtual s"));
                        break;
                    }
                    Ok(Ok(Some(env))) => {
                        pause(&tape, pace).await;
                        let idx = env.idx;
                        match until(t_end, tx.send(env)).await {
                            Err(()) => {
                                shared.fail("C05/base-hang", format!("endpoint {i}: forwarding value {idx} did not finish within {deadline_s} virtual s"));
                                break;
                            }
                            Ok(Ok(())) => {}
                            Ok(Err(e)) => {
                                shared.note(format!("endpoint {i} send of value {idx}: {}", e.kind));
                                let fin = e.is_final();
                                drop(e);
                                if fin {
                                    break;
                                }
                            }
                        }
                    }
                    Ok(Ok(None)) => break,
                    Ok(Err(e)) => {
                        shared.note(format!("endpoint {i} receive: {e}"));
                        if e.is_final() {
                            break;
                        }
                    }
                }
            }
            drop(tx);
            drop(rx);
        }));
    }

    // Destination.
    let dest = {
        let shared = shared.clone();
        let tape = tape.clone();
        let mut rx = base::Receiver::<Envelope>::new(rxs.remove(0));
        spawn_actor(async move {
            loop {
                match until(t_end, rx.recv()).await {
                    Err(()) => {
                        shared.fail("C05/base-hang", format!("destination: base receive did not finish within {deadline_s} virtual s"));
                        break;
                    }
                    Ok(Ok(Some(env))) => {
                        let mut sk = String::new();
                        skeleton(&env.val, &mut sk);
                        let want = shared.skels.lock().unwrap().get(&env.idx).cloned();
                        if want.as_deref() != Some(sk.as_str()) {
                            shared.fail("C05/value-mismatch", format!("value {} arrived as {sk}, was sent as {want:?}", env.idx));
                        }
                        if !shared.delivered.lock().unwrap().insert(env.idx) {
                            shared.fail("C05/value-mismatch", format!("value {} arrived twice", env.idx));
                        }
                        let mut ends = Vec::new();
                        take_ends(env.val, &mut ends);
                        for (id, end) in ends {
                            let info = shared.chans.lock().unwrap().iter().find(|c| c.id == id).cloned();
                            let Some(info) = info else {
                                shared.fail("C05/value-mismatch", format!("received a half with unknown channel id {id}"));
                                continue;
                            };
                            let dup = shared.started.lock().unwrap().contains(&(id, end.is_tx()));
                            if dup {
                                shared.fail("C05/value-mismatch", format!("the {} half of channel {id} exists twice", if end.is_tx() { "sending" } else { "receiving" }));
                                continue;
                            }
                            shared.start_end(id, end, info, true, &tape, pace);
                        }
                    }
                    Ok(Ok(None)) => break,
                    Ok(Err(e)) => {
                        shared.note(format!("destination receive: {e}"));
                        if e.is_final() {
                            break;
                        }
                    }
                }
            }
            drop(rx);
        })
    };

    let t_all = pace.t_probe + Duration::from_secs(2_000);
    if until(t_all, origin).await.is_err() {
        shared.fail("C05/base-hang", "origin actor did not finish".into());
    }
    for (i, m) in mids.into_iter().enumerate() {
        if until(t_all, m).await.is_err() {
            shared.fail("C05/base-hang", format!("endpoint {} actor did not finish", i + 1));
        }
    }
    if until(t_all, dest).await.is_err() {
        shared.fail("C05/base-hang", "destination actor did not finish".into());
    }
    // No further value can arrive: receiving ends that do not exist by now never will.
    let chans = shared.chans.lock().unwrap().clone();
    for c in &chans {
        let has_rx = shared.started.lock().unwrap().contains(&(c.id, false));
        if !has_rx {
            shared.sync(c.id).state.send_replace(3);
        }
    }
    let handles: Vec<JoinHandle<EndRep>> = std::mem::take(&mut *shared.handles.lock().unwrap());
    let mut reps: Vec<EndRep> = Vec::new();
    for h in handles {
        match until(t_all, h).await {
            Ok(Ok(r)) => reps.push(r),
            Ok(Err(e)) => shared.fail("C05/end-task", format!("end task failed: {e}")),
            Err(()) => shared.fail("C05/hang", "an end task did not finish (harness deadline)".into()),
        }
    }
    run.frames = conns.iter().map(|c| c.link.tap_len() as u64 / 2).sum();
    for (i, c) in conns.iter().enumerate() {
        if c.link.budget_exceeded() {
            shared.fail("C05/livelock", format!("connection {i} carried more than {FRAME_BUDGET} frames (frames flow forever without progress)"));
        }
    }

    // ------------------------------------------------------------------------------------------
    // Oracle
    // ------------------------------------------------------------------------------------------
    let notes = shared.notes.lock().unwrap().clone();
    let sent = shared.sent.lock().unwrap().clone();
    let delivered = shared.delivered.lock().unwrap().clone();
    run.values_sent = sent.values().filter(|r| r.is_ok()).count();
    run.values_delivered = delivered.len();
    run.fails.extend(shared.fails.lock().unwrap().iter().cloned());
    let clean = ports_roomy(case) && case.fault.is_none() && relay_limits_ok(case);
    let mut texts: Vec<&str> = notes.iter().map(|s| s.as_str()).collect();
    for r in &reps {
        if let Some(t) = &r.term {
            texts.push(t.as_str());
        }
    }
    run.exhausted = texts.iter().any(|t| t.contains("exhausted"));

    for (vi, shape) in case.vals.iter().enumerate() {
        let refused = lr_refused(case, shape);
        if clean && !refused {
            match sent.get(&(vi as u32)) {
                Some(Ok(())) => {}
                other => run.fails.push(("C05/value-not-delivered".into(), format!("value {vi}: origin send result {other:?} although ports are plentiful and no fault is injected"))),
            }
            if !delivered.contains(&(vi as u32)) {
                run.fails.push(("C05/value-not-delivered".into(), format!("value {vi} did not arrive at the destination; notes {notes:?}")));
            }
        }
    }

    let describe = |r: Option<&EndRep>| match r {
        None => "absent".to_string(),
        Some(r) => format!(
            "{}@{}: got {:?} sent {} term {:?} hang {:?} complete {}{}",
            r.kind,
            if r.at_dest { "destination" } else { "origin" },
            r.got.iter().map(|l| (l.id, l.n)).collect::<Vec<_>>(),
            r.sent,
            r.term,
            r.hang,
            r.complete,
            if r.no_error_seen { " NO-ERROR-SEEN" } else { "" }
        ),
    };
    for c in &chans {
        let tx = reps.iter().find(|r| r.id == c.id && r.is_tx);
        let rx = reps.iter().find(|r| r.id == c.id && !r.is_tx);
        let ctxt = format!("channel {} ({:?}, value {}, queued {}, total {}): sending end {}; receiving end {}", c.id, c.fam, c.val_idx, c.queued, c.total, describe(tx), describe(rx));
        if std::env::var("VERIF_DEBUG").is_ok() {
            eprintln!("[C05 debug] {ctxt}; notes {notes:?}");
        }
        // R1: only own labels, in order, no duplicates.
        if let Some(rx) = rx {
            if let Some(l) = rx.got.iter().find(|l| l.id != c.id) {
                run.fails.push(("C05/cross-wired".into(), format!("receiving end of channel {} obtained label {:?} of another channel; {ctxt}", c.id, (l.id, l.n))));
            } else if let Some(g) = &rx.garbled {
                run.fails.push(("C05/foreign-data".into(), format!("receiving end of channel {} obtained data that is no label: {g}; {ctxt}", c.id)));
            } else {
                let ns: Vec<u32> = rx.got.iter().map(|l| l.n).collect();
                let ok = match c.fam {
                    Fam::Mpsc | Fam::Lr | Fam::Bin | Fam::Oneshot | Fam::Io => ns.iter().enumerate().all(|(i, n)| *n == i as u32) && ns.len() as u32 <= c.total,
                    Fam::Watch | Fam::Bcast => ns.windows(2).all(|w| w[0] < w[1]) && ns.iter().all(|n| *n <= c.total),
                };
                if !ok {
                    run.fails.push(("C05/label-sequence".into(), format!("labels of channel {} arrived duplicated, reordered or with a gap: {ns:?}; {ctxt}", c.id)));
                }
            }
        }
        // In fault cases only channels that could not be connected are judged for liveness.
        let judged = (case.fault.is_none() || JUDGE_CONNECTED_CHANNELS_AFTER_FAULT || !delivered.contains(&(c.val_idx as u32))) && !relay_tight(case);
        // R2: never a hang.
        for r in [tx, rx].into_iter().flatten().filter(|_| judged) {
            if let Some(h) = &r.hang {
                run.fails.push(("C05/hang".into(), format!("{} of channel {} hangs ({h}) for {deadline_s} virtual s; {ctxt}; notes {notes:?}", r.kind, c.id)));
            }
        }
        let connected = rx.map(|r| r.complete).unwrap_or(false);
        if connected {
            run.connected += 1;
        } else {
            run.failed_chans += 1;
        }
        // R3: with plentiful ports and no fault every half must be connected to its counterpart.
        let refused = lr_refused(case, &case.vals[c.val_idx]);
        if clean && !refused && !connected {
            run.fails.push(("C05/not-connected".into(), format!("channel {} is not connected although ports are plentiful and no fault is injected; {ctxt}; notes {notes:?}", c.id)));
        }
        // R4: a channel that is not connected shows an error on both ends.
        if !connected && judged {
            if let Some(tx) = tx {
                if tx.no_error_seen {
                    run.fails.push(("C05/one-sided".into(), format!("the receiving end of channel {} failed or was lost, but its sending end observes no error; {ctxt}; notes {notes:?}", c.id)));
                }
            }
        }
    }

    // Classes.
    run.classes.push(format!("hops:{hops}"));
    run.classes.push(format!("halves:{}", match total_halves(case) { 0 => "0", 1 => "1", 2..=3 => "2-3", 4..=6 => "4-6", _ => "7-8" }));
    run.classes.push(if clean { "ports:roomy".into() } else if case.fault.is_some() { "fault".into() } else { "ports:tight".into() });
    if run.exhausted {
        run.classes.push("ports-exhausted-observed".into());
    }
    if case.vals.len() > 1 {
        run.classes.push("two-values".into());
    }
    if (1..hops).any(|i| is_relay(case, i)) {
        run.classes.push("relayed-by-chmux-forward".into());
    }
    if (1..hops).any(|i| !is_relay(case, i)) {
        run.classes.push("re-sent-by-intermediate".into());
    }
    if relay_tight(case) {
        run.classes.push("relay-with-tight-ports:liveness-unjudged".into());
    }
    let mut fams: HashSet<&'static str> = HashSet::new();
    for c in &chans {
        fams.insert(match c.fam {
            Fam::Mpsc => "kind:mpsc",
            Fam::Oneshot => "kind:oneshot",
            Fam::Watch => "kind:watch",
            Fam::Bcast => "kind:broadcast",
            Fam::Bin => "kind:bin",
            Fam::Lr => "kind:lr",
            Fam::Io => "kind:io",
        });
        if c.tx_sent && c.rx_sent {
            fams.insert("both-halves-sent");
        }
        if c.queued > 0 {
            fams.insert("handed-over-with-queued-items");
        }
    }
    run.classes.extend(fams.into_iter().map(String::from));
    if case.vals.iter().any(|s| lr_refused(case, s)) {
        run.classes.push("lr-refused".into());
    }
    if !chans.is_empty() {
        run.classes.push(if run.failed_chans == 0 { "outcome:all-connected".into() } else if run.connected == 0 { "outcome:none-connected".into() } else { "outcome:mixed".into() });
    }
    // Keep the connections alive until here.
    for c in conns {
        c.runs.0.abort();
        c.runs.1.abort();
    }
    run
}

fn credit_pressure(case: &Case) -> bool {
    let h = case.vals.iter().map(count_halves).max().unwrap_or(0) as u32;
    // The port batch of a value travels to the higher endpoint of every connection.
    case.cfgs.iter().any(|(_, hi)| hi.receive_buffer < 4 * h)
}

pub fn run_case(case: &Case) -> Outcome {
    let tape = case.sched.tape();
    let res = sim::run_sim(case.sched.tokio_seed, &tape, case.sched.defer, execute(case));
    let mut out = Outcome::default();
    out.frames = res.frames;
    // Most specific signature first.
    let order = ["C05/livelock", "C05/cross-wired", "C05/foreign-data", "C05/label-sequence", "C05/value-mismatch", "C05/hang", "C05/base-hang", "C05/one-sided", "C05/not-connected", "C05/value-not-delivered"];
    let mut fails = res.fails.clone();
    if std::env::var("VERIF_DEBUG").is_ok() {
        for (s, m) in &fails {
            eprintln!("[C05 debug] {s}: {m}");
        }
    }
    fails.sort_by_key(|(s, _)| order.iter().position(|o| o == s).unwrap_or(order.len()));
    // Not statements about channel halves: in fault cases the fail-stop behaviour of the base
    // channel itself belongs to C06.
    let (skipped, fails): (Vec<_>, Vec<_>) = fails.into_iter().partition(|(s, _)| case.fault.is_some() && (s == "C05/setup" || s == "C05/base-hang"));
    if let Some((s, m)) = fails.first() {
        // A padded value (serialised twice) that carries rch::io halves gets its own signature, so
        // that the known finding about destructive io serialisation never hides another failure.
        let io_twice = case.pad.is_some() && case.vals.iter().any(|v| has_fam(v, &|f| matches!(f, Fam::Io)));
        let sig = if io_twice && (s == "C05/not-connected" || s == "C05/value-not-delivered") {
            format!("{s}/io-half-serialised-twice")
        } else {
            s.clone()
        };
        out.fail(sig, m.clone());
    } else if !skipped.is_empty() {
        out.inconclusive = true;
    }
    for c in &res.classes {
        out.class(c.clone());
    }
    if case.pad.is_some() {
        out.class("serialised-twice");
    }
    let pressure = credit_pressure(case);
    if pressure {
        out.class("credit-pool<4*halves");
    }
    out.nontrivial = res.setup_ok && res.halves_max >= 2 && res.values_sent + res.values_delivered > 0 && (case.cfgs.len() >= 2 || res.exhausted || pressure);
    out
}

pub const RULE: &str = "cases = (1-3 chmux connections with generated Cfg per endpoint: chunk_size 4..1024, receive_buffer 4..4096, max_ports 1..64, max_received_ports; schedule tape/deferral/frame delays; 1-2 values of a recursive shape Unit|Bytes|List|Opt|Pair|Map|Half(kind, queued)|Both(family) with 0-8 halves of mpsc tx/rx, oneshot tx/rx, watch tx/rx, broadcast rx, bin tx/rx, lr tx/rx; labels per channel; optional transport fault; part stream: value padded beyond max_data_size so that it is serialised twice). Every intermediate endpoint receives the value and sends it on. oracle: every channel has a unique id, after delivery every sending end emits Label{id,n} and (R1) a receiving end only ever obtains labels of its own id, in order, without duplicate or gap, and the value arrives with its structure and ids intact; (R2) no operation on any end hangs beyond the virtual deadline; (R3) with max_ports >= halves+3 on every endpoint, no fault and no lr half that the documentation refuses to send, every value is delivered and every channel delivers all its labels; (R4) otherwise a channel whose receiving end failed or was lost shows an error/closure on its sending end too. non-trivial = a value with >= 2 halves was actually sent and (hops >= 2 or a ports-exhausted error was observed or receive_buffer of a receiving endpoint < 4*halves); distinct = distinct case hash";

pub fn main(tier: Tier, seed: u64) -> Report {
    let mut rep = Report::new("C05", tier, seed);
    rep.rule = RULE.into();
    rep.assumptions = vec![
        "single-threaded deterministic simulation (plus remoc's helper threads in part stream); task-level interleavings only".into(),
        "end-of-stream and closure count as the error observation of an unconnected channel (remoc reports a dropped counterpart that way)".into(),
        "one value is in flight per base channel at a time; nested channels-in-channels are not generated".into(),
    ];
    let regress: Vec<Case> = runner::load_regress::<Case>("C05", "wire").into_iter().map(|(_, c)| c).collect();
    if !regress.is_empty() {
        runner::run_cases(&mut rep, "regress-wire", regress, run_case);
    }
    let regress: Vec<Case> = runner::load_regress::<Case>("C05", "stream").into_iter().map(|(_, c)| c).collect();
    if !regress.is_empty() {
        runner::run_cases(&mut rep, "regress-stream", regress, run_case);
    }
    // Debugging aid: VERIF_C05_PART=wire|stream runs one part only.
    let only = std::env::var("VERIF_C05_PART").ok();
    if only.as_deref() != Some("stream") {
        runner::run_generated(&mut rep, "wire", tier.pick(10_000, 500_000), || strategy(false), run_case);
    }
    if only.as_deref() != Some("wire") {
        runner::run_generated(&mut rep, "stream", tier.pick(1_000, 50_000), || strategy(true), run_case);
    }
    rep
}

pub fn replay(_part: &str, case: serde_json::Value) -> (Option<runner::Failure>, u32, u32) {
    let n = runner::replay_times(3);
    let c: Case = serde_json::from_value(case).expect("replay case does not parse as C05 case");
    let (f, h) = runner::replay_case(&c, run_case, n);
    (f, h, n)
}
