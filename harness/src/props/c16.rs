//! C16 — Broadcast: ordered delivery with an explicit lag marker at every gap.
//!
//! A case is a history `Vec<Op>` interpreted by one driver task: it owns the broadcast
//! `Sender`, creates subscribers at generated times (send buffer 1–4, receive buffer 1–4),
//! ships some of them to the remote endpoint of one of two simulated chmux connections
//! (possibly after they consumed values locally, possibly while values are queued), lets
//! them consume through `try_recv`, bounded `recv` or a concurrently running actor with a
//! generated pace, drops them, and fails connection 1. Every send and every observation of
//! every subscriber is appended to one global log; the oracle is evaluated on that log after
//! the sender was dropped and every surviving subscriber drained to `Closed`.

use proptest::prelude::*;
use serde::{Deserialize, Serialize};
use std::{
    collections::BTreeSet,
    sync::{Arc, Mutex},
    time::Duration,
};
use tokio::task::JoinHandle;

use crate::engine::{
    gen::{self, connect_pair, sched, GCfg, Sched},
    link::{Fault, FaultKind, SimLink},
    runner::{self, Outcome, Report, Tier},
    sim::{self, spawn_actor},
};
use remoc::rch::{base, broadcast};

// ---------------------------------------------------------------------------------------------
// Case
// ---------------------------------------------------------------------------------------------

#[derive(Clone, Debug, Serialize, Deserialize, PartialEq, Eq, Hash)]
pub enum Op {
    /// Broadcast the next counter value.
    Send,
    /// Broadcast n values back to back (the driver does not yield in between).
    Burst(u8),
    /// New subscriber (local, held by the driver).
    Sub { send_buf: u8, recv_buf: u8 },
    /// Move a driver-held local subscriber to the remote endpoint of connection `link` (0/1).
    Ship { sub: u8, link: u8 },
    /// Hand a driver-held subscriber (local or remote) to an actor that drains it concurrently;
    /// `pace` = cyclic pause codes applied after every received item.
    Auto {
        sub: u8,
        pace: Vec<u8>,
        /// Consume through `ReceiverStream` instead of `recv`.
        #[serde(default)]
        stream: bool,
    },
    /// `try_recv` up to n items (stops at Empty).
    Recv { sub: u8, n: u8 },
    /// `recv().await` up to n items, each bounded by the virtual deadline.
    RecvWait { sub: u8, n: u8 },
    /// Every driver-held subscriber calls `try_recv` until Empty.
    DrainAll,
    /// The subscriber leaves (receiver dropped / actor aborted).
    DropSub { sub: u8 },
    /// n scheduler passes.
    Yield(u8),
    /// Quiescence barrier: 1 ms of virtual time (all runnable tasks run until they block).
    Settle,
    /// Virtual sleep (ms).
    Sleep(u16),
    /// Connection 1 fails (0: sink error, 1: stream error, 2: EOF, 3: stall).
    Cut { kind: u8 },
}

#[derive(Clone, Debug, Serialize, Deserialize, PartialEq, Eq, Hash)]
pub struct Case {
    pub cfg: GCfg,
    pub sched: Sched,
    /// Padding bytes per value (fills chmux port buffers of remote subscribers).
    pub pad: u8,
    pub ops: Vec<Op>,
    /// Final drain visits the subscribers in reverse order.
    pub drain_rev: bool,
}

fn cfg_strategy() -> BoxedStrategy<GCfg> {
    (
        prop_oneof![Just(8u32), Just(16u32), Just(64u32)],
        prop_oneof![Just(16u32), Just(64u32), Just(256u32)],
        1usize..=3,
        prop_oneof![3 => Just(None), 1 => Just(Some(60u32))],
    )
        .prop_map(|(chunk_size, receive_buffer, q, timeout_s)| GCfg {
            chunk_size,
            receive_buffer,
            max_data_size: 1 << 16,
            shared_q: q,
            tsend_q: q,
            trecv_q: q,
            connect_queue: 4,
            max_ports: 64,
            max_received_ports: 32,
            timeout_s,
        })
        .boxed()
}

fn pace_strategy() -> BoxedStrategy<Vec<u8>> {
    proptest::collection::vec(0u8..=7, 1..4).boxed()
}

fn op_strategy() -> BoxedStrategy<Op> {
    prop_oneof![
        7 => Just(Op::Send),
        3 => (2u8..=6).prop_map(Op::Burst),
        2 => (1u8..=4, 1u8..=4).prop_map(|(send_buf, recv_buf)| Op::Sub { send_buf, recv_buf }),
        2 => (any::<u8>(), prop_oneof![3 => Just(0u8), 1 => Just(1u8)]).prop_map(|(sub, link)| Op::Ship { sub, link }),
        1 => (any::<u8>(), pace_strategy(), any::<bool>()).prop_map(|(sub, pace, stream)| Op::Auto { sub, pace, stream }),
        5 => (any::<u8>(), 1u8..=5).prop_map(|(sub, n)| Op::Recv { sub, n }),
        2 => (any::<u8>(), 1u8..=5).prop_map(|(sub, n)| Op::RecvWait { sub, n }),
        3 => Just(Op::DrainAll),
        1 => any::<u8>().prop_map(|sub| Op::DropSub { sub }),
        2 => (1u8..=6).prop_map(Op::Yield),
        3 => Just(Op::Settle),
        1 => prop_oneof![Just(1u16), Just(50u16), Just(1500u16)].prop_map(Op::Sleep),
        1 => (0u8..4).prop_map(|kind| Op::Cut { kind }),
    ]
    .boxed()
}

/// Initial subscriber: (send_buf, recv_buf, ship to link?, actor pace?).
fn init_strategy() -> BoxedStrategy<Vec<Op>> {
    proptest::collection::vec(
        (
            1u8..=4,
            1u8..=4,
            prop_oneof![3 => Just(None), 2 => Just(Some(0u8)), 1 => Just(Some(1u8))],
            prop_oneof![3 => Just(None), 1 => (pace_strategy(), any::<bool>()).prop_map(Some)],
        ),
        1..=4,
    )
    .prop_map(|subs| {
        let mut ops = Vec::new();
        for (i, (send_buf, recv_buf, ship, auto)) in subs.into_iter().enumerate() {
            ops.push(Op::Sub { send_buf, recv_buf });
            if let Some(link) = ship {
                ops.push(Op::Ship { sub: i as u8, link });
            }
            if let Some((pace, stream)) = auto {
                ops.push(Op::Auto { sub: i as u8, pace, stream });
            }
        }
        ops
    })
    .boxed()
}

pub fn strategy(tier: Tier) -> BoxedStrategy<Case> {
    let max_ops = tier.pick(40usize, 70usize);
    (
        cfg_strategy(),
        sched(true),
        prop_oneof![2 => Just(0u8), 2 => 0u8..=40, 1 => Just(40u8)],
        init_strategy(),
        proptest::collection::vec(op_strategy(), 4..max_ops),
        any::<bool>(),
    )
        .prop_map(|(cfg, mut sched, pad, mut init, ops, drain_rev)| {
            // Per-frame delays are capped at 1 s so that the virtual deadline stays small.
            for d in sched.delays_ab.iter_mut().chain(sched.delays_ba.iter_mut()) {
                if *d >= 230 && (*d as usize - 230) % 5 == 4 {
                    *d -= 1;
                }
            }
            init.extend(ops);
            Case { cfg, sched, pad, ops: init, drain_rev }
        })
        .boxed()
}

// ---------------------------------------------------------------------------------------------
// Subscribers with a receive buffer chosen at run time
// ---------------------------------------------------------------------------------------------

#[derive(Clone, Debug, Serialize, Deserialize)]
pub struct Item {
    n: u32,
    pad: Vec<u8>,
}

fn item(n: u32, pad: u8) -> Item {
    Item { n, pad: gen::payload(n, pad as usize).to_vec() }
}

type Codec = remoc::codec::Default;
type Rx<const N: usize> = broadcast::Receiver<Item, Codec, N>;

#[derive(Serialize, Deserialize)]
enum AnyRx {
    B1(Rx<1>),
    B2(Rx<2>),
    B3(Rx<3>),
    B4(Rx<4>),
}

impl AnyRx {
    fn subscribe(tx: &broadcast::Sender<Item, Codec>, send_buf: usize, recv_buf: u8) -> Self {
        match recv_buf {
            1 => AnyRx::B1(tx.subscribe::<1>(send_buf)),
            2 => AnyRx::B2(tx.subscribe::<2>(send_buf)),
            3 => AnyRx::B3(tx.subscribe::<3>(send_buf)),
            _ => AnyRx::B4(tx.subscribe::<4>(send_buf)),
        }
    }

    async fn recv(&mut self) -> Result<Item, broadcast::RecvError> {
        match self {
            AnyRx::B1(r) => r.recv().await,
            AnyRx::B2(r) => r.recv().await,
            AnyRx::B3(r) => r.recv().await,
            AnyRx::B4(r) => r.recv().await,
        }
    }

    fn try_recv(&mut self) -> Result<Item, broadcast::TryRecvError> {
        match self {
            AnyRx::B1(r) => r.try_recv(),
            AnyRx::B2(r) => r.try_recv(),
            AnyRx::B3(r) => r.try_recv(),
            AnyRx::B4(r) => r.try_recv(),
        }
    }
}

enum AnyStream {
    B1(broadcast::ReceiverStream<Item, Codec, 1>),
    B2(broadcast::ReceiverStream<Item, Codec, 2>),
    B3(broadcast::ReceiverStream<Item, Codec, 3>),
    B4(broadcast::ReceiverStream<Item, Codec, 4>),
}

impl AnyStream {
    fn new(rx: AnyRx) -> Self {
        match rx {
            AnyRx::B1(r) => AnyStream::B1(r.into()),
            AnyRx::B2(r) => AnyStream::B2(r.into()),
            AnyRx::B3(r) => AnyStream::B3(r.into()),
            AnyRx::B4(r) => AnyStream::B4(r.into()),
        }
    }

    async fn next(&mut self) -> Option<Result<Item, broadcast::StreamError>> {
        use futures::StreamExt;
        match self {
            AnyStream::B1(s) => s.next().await,
            AnyStream::B2(s) => s.next().await,
            AnyStream::B3(s) => s.next().await,
            AnyStream::B4(s) => s.next().await,
        }
    }
}

enum Src {
    Rx(AnyRx),
    Stream(AnyStream),
}

// ---------------------------------------------------------------------------------------------
// Log
// ---------------------------------------------------------------------------------------------

#[derive(Clone, Debug, PartialEq)]
pub enum It {
    Val(u32),
    /// A value arrived whose padding does not match its counter.
    Corrupt(u32),
    Lagged,
    Closed,
    Empty,
    /// A bounded `recv` that began at log position `from` timed out.
    Timeout { from: usize },
    Err { what: String, fin: bool },
}

#[derive(Clone, Debug)]
pub enum Ev {
    Send { k: u32, err: Option<String>, sendings: usize },
    Join { s: usize, send_buf: usize },
    Shipped { s: usize, link: u8 },
    Got { s: usize, it: It },
    Left { s: usize },
    Barrier,
    Cut,
    SenderDropped,
}

#[derive(Clone, Default)]
struct Log(Arc<Mutex<Vec<Ev>>>);

impl Log {
    fn push(&self, ev: Ev) -> usize {
        let mut l = self.0.lock().unwrap();
        l.push(ev);
        l.len() - 1
    }
    fn len(&self) -> usize {
        let l = self.0.lock().unwrap();
        l.len()
    }
    fn snapshot(&self) -> Vec<Ev> {
        let l = self.0.lock().unwrap();
        l.clone()
    }
}

fn classify_item(it: Item, pad: u8) -> It {
    if it.pad.len() == pad as usize && it.pad[..] == gen::payload(it.n, pad as usize)[..] {
        It::Val(it.n)
    } else {
        It::Corrupt(it.n)
    }
}

fn classify_recv(r: Result<Item, broadcast::RecvError>, pad: u8) -> It {
    match r {
        Ok(it) => classify_item(it, pad),
        Err(broadcast::RecvError::Lagged) => It::Lagged,
        Err(broadcast::RecvError::Closed) => It::Closed,
        Err(e) => It::Err { fin: e.is_final(), what: format!("{e:?}") },
    }
}

fn classify_stream(r: Option<Result<Item, broadcast::StreamError>>, pad: u8) -> It {
    match r {
        Some(Ok(it)) => classify_item(it, pad),
        Some(Err(broadcast::StreamError::Lagged)) => It::Lagged,
        Some(Err(e)) => It::Err { fin: e.is_final(), what: format!("{e:?}") },
        None => It::Closed,
    }
}

fn classify_try(r: Result<Item, broadcast::TryRecvError>, pad: u8) -> It {
    match r {
        Ok(it) => classify_item(it, pad),
        Err(broadcast::TryRecvError::Lagged) => It::Lagged,
        Err(broadcast::TryRecvError::Closed) => It::Closed,
        Err(broadcast::TryRecvError::Empty) => It::Empty,
        Err(e) => It::Err { fin: e.is_final(), what: format!("{e:?}") },
    }
}

/// Does this observation end the subscriber's stream?
fn terminal(it: &It) -> bool {
    matches!(it, It::Closed | It::Err { fin: true, .. })
}

// ---------------------------------------------------------------------------------------------
// Interpreter
// ---------------------------------------------------------------------------------------------

struct SubH {
    rx: Option<AnyRx>,
    actor: Option<JoinHandle<()>>,
    /// None = local.
    link: Option<u8>,
    /// Last counter value observed (driver-held phase only; a cost heuristic, not an oracle input).
    last_val: Option<u32>,
    /// Stream ended (Closed / final error) or the subscriber left.
    done: bool,
    non_final_errs: u32,
}

struct LinkH {
    link: SimLink,
    btx: base::Sender<AnyRx, Codec>,
    brx: base::Receiver<AnyRx, Codec>,
    cut: bool,
    _keep: (gen::Side, gen::Side, remoc::chmux::Receiver, remoc::chmux::Sender),
}

pub struct Exec {
    pub log: Vec<Ev>,
    pub fails: Vec<(String, String)>,
    pub frames: u64,
    pub sends: u32,
    /// Subscribers that did not reach the end of their stream within the deadline: (sub, healthy).
    pub hung: Vec<(usize, bool)>,
}

async fn actor(rx: AnyRx, stream: bool, s: usize, pace: Vec<u8>, pad: u8, log: Log) {
    let mut i = 0usize;
    let mut non_final = 0u32;
    let mut src = if stream { Src::Stream(AnyStream::new(rx)) } else { Src::Rx(rx) };
    loop {
        let it = match &mut src {
            Src::Rx(rx) => classify_recv(rx.recv().await, pad),
            Src::Stream(st) => classify_stream(st.next().await, pad),
        };
        let stop = terminal(&it);
        if matches!(it, It::Err { .. }) {
            non_final += 1;
        }
        log.push(Ev::Got { s, it });
        if stop || non_final > 8 {
            break;
        }
        let code = pace[i % pace.len()];
        i += 1;
        match code {
            0 | 1 => {}
            2..=4 => sim::ticks(code as u32 - 1).await,
            5 => tokio::time::sleep(Duration::from_millis(1)).await,
            6 => tokio::time::sleep(Duration::from_millis(20)).await,
            _ => tokio::time::sleep(Duration::from_millis(300)).await,
        }
    }
}

async fn open_link(case: &Case, deadline: u64) -> Result<LinkH, String> {
    let (link, a, mut b) = match sim::within(deadline, connect_pair(&case.cfg, &case.cfg, &case.sched, vec![])).await {
        Ok(r) => r?,
        Err(()) => return Err("chmux handshake timed out".into()),
    };
    let (conn, acc) = tokio::join!(sim::within(deadline, a.client.connect()), sim::within(deadline, b.listener.accept()));
    let ((raw_tx, raw_rx_a), (raw_tx_b, raw_rx)) = match (conn, acc) {
        (Ok(Ok(c)), Ok(Ok(Some(l)))) => (c, l),
        _ => return Err("base port setup failed".into()),
    };
    Ok(LinkH {
        link,
        btx: base::Sender::new(raw_tx),
        brx: base::Receiver::new(raw_rx),
        cut: false,
        _keep: (a, b, raw_rx_a, raw_tx_b),
    })
}

/// Virtual deadline for one bounded wait on a healthy remote path.
fn deadline_s(case: &Case) -> u64 {
    case.sched.deadline_s(1500, 1000)
}

/// Bounded wait for a subscriber on the failed connection (it may legitimately never end).
const FAILED_WAIT_S: u64 = 150;
/// Bounded wait of a local subscriber: whatever was sent is already in its queue.
const LOCAL_WAIT_S: u64 = 5;

async fn execute(case: &Case) -> Exec {
    let log = Log::default();
    let mut out = Exec { log: vec![], fails: vec![], frames: 0, sends: 0, hung: vec![] };
    let deadline = deadline_s(case);
    let pad = case.pad;
    // Two handles of the same broadcast sender, used alternately.
    let first = broadcast::Sender::<Item, Codec>::new();
    let mut senders: Vec<broadcast::Sender<Item, Codec>> = vec![first.clone(), first];
    let mut subs: Vec<SubH> = Vec::new();
    let mut links: [Option<LinkH>; 2] = [None, None];
    let mut next: u32 = 0;

    macro_rules! send_one {
        () => {{
            let k = next;
            next += 1;
            // `send` is synchronous: it cannot suspend the driver.
            let res = senders[k as usize % 2].send(item(k, pad));
            match res {
                Ok(b) => {
                    let sendings = b.into_sendings().len();
                    log.push(Ev::Send { k, err: None, sendings });
                }
                Err(e) => {
                    log.push(Ev::Send { k, err: Some(format!("{:?}", e.without_item())), sendings: 0 });
                }
            }
        }};
    }

    for op in &case.ops {
        match op {
            Op::Send => send_one!(),
            Op::Burst(n) => {
                for _ in 0..*n {
                    send_one!();
                }
            }
            Op::Sub { send_buf, recv_buf } => {
                if subs.len() >= 8 {
                    continue;
                }
                let rx = AnyRx::subscribe(&senders[subs.len() % 2], *send_buf as usize, *recv_buf);
                log.push(Ev::Join { s: subs.len(), send_buf: *send_buf as usize });
                subs.push(SubH { rx: Some(rx), actor: None, link: None, last_val: None, done: false, non_final_errs: 0 });
            }
            Op::Ship { sub, link } => {
                if subs.is_empty() {
                    continue;
                }
                let s = *sub as usize % subs.len();
                let li = (*link % 2) as usize;
                if subs[s].rx.is_none() || subs[s].link.is_some() || subs[s].done {
                    continue;
                }
                if links[li].is_none() {
                    match open_link(case, deadline).await {
                        Ok(l) => links[li] = Some(l),
                        Err(e) => {
                            out.fails.push(("C16/setup".into(), e));
                            break;
                        }
                    }
                }
                let lh = links[li].as_mut().unwrap();
                if lh.cut {
                    continue;
                }
                let rx = subs[s].rx.take().unwrap();
                let (sr, rr) = tokio::join!(sim::within(deadline, lh.btx.send(rx)), sim::within(deadline, lh.brx.recv()));
                match (sr, rr) {
                    (Ok(Ok(())), Ok(Ok(Some(rx2)))) => {
                        subs[s].rx = Some(rx2);
                        subs[s].link = Some(li as u8);
                        log.push(Ev::Shipped { s, link: li as u8 });
                    }
                    (sr, rr) => {
                        out.fails.push((
                            "C16/setup".into(),
                            format!(
                                "moving subscriber {s} to the remote endpoint of healthy connection {li} failed: send {}, recv {}",
                                match &sr {
                                    Ok(Ok(())) => "ok".to_string(),
                                    Ok(Err(e)) => format!("error {:?}", e.kind),
                                    Err(()) => "timed out".to_string(),
                                },
                                match &rr {
                                    Ok(Ok(Some(_))) => "ok".to_string(),
                                    Ok(Ok(None)) => "end of stream".to_string(),
                                    Ok(Err(e)) => format!("error {e:?}"),
                                    Err(()) => "timed out".to_string(),
                                }
                            ),
                        ));
                        break;
                    }
                }
            }
            Op::Auto { sub, pace, stream } => {
                if subs.is_empty() {
                    continue;
                }
                let s = *sub as usize % subs.len();
                if subs[s].done || subs[s].rx.is_none() {
                    continue;
                }
                let rx = subs[s].rx.take().unwrap();
                let pace = if pace.is_empty() { vec![0] } else { pace.clone() };
                subs[s].actor = Some(spawn_actor(actor(rx, *stream, s, pace, pad, log.clone())));
            }
            Op::Recv { sub, n } => {
                if subs.is_empty() {
                    continue;
                }
                let s = *sub as usize % subs.len();
                try_drain(&mut subs[s], s, *n as usize, pad, &log);
            }
            Op::DrainAll => {
                for (s, sh) in subs.iter_mut().enumerate() {
                    try_drain(sh, s, 64, pad, &log);
                }
            }
            Op::RecvWait { sub, n } => {
                if subs.is_empty() {
                    continue;
                }
                let s = *sub as usize % subs.len();
                let failed = subs[s].link.map(|l| links[l as usize].as_ref().map(|l| l.cut).unwrap_or(false)).unwrap_or(false);
                if failed {
                    // Nothing is promised to a failed subscriber; do not spend time on it.
                    try_drain(&mut subs[s], s, *n as usize, pad, &log);
                    continue;
                }
                // Cost heuristic only: a subscriber that has already seen the newest value would
                // block for the whole deadline.
                if next == 0 || subs[s].last_val == Some(next - 1) {
                    try_drain(&mut subs[s], s, *n as usize, pad, &log);
                    continue;
                }
                let wait = if subs[s].link.is_some() { deadline } else { LOCAL_WAIT_S };
                for _ in 0..*n {
                    let sh = &mut subs[s];
                    if sh.done {
                        break;
                    }
                    let Some(rx) = sh.rx.as_mut() else { break };
                    let from = log.len();
                    let it = match sim::within(wait, rx.recv()).await {
                        Ok(r) => classify_recv(r, pad),
                        Err(()) => It::Timeout { from },
                    };
                    let stop = note(sh, &it);
                    let timeout = matches!(it, It::Timeout { .. });
                    log.push(Ev::Got { s, it });
                    if stop || timeout {
                        break;
                    }
                }
            }
            Op::DropSub { sub } => {
                if subs.is_empty() {
                    continue;
                }
                let s = *sub as usize % subs.len();
                if subs[s].done {
                    continue;
                }
                if let Some(h) = subs[s].actor.take() {
                    h.abort();
                }
                subs[s].rx = None;
                subs[s].done = true;
                log.push(Ev::Left { s });
            }
            Op::Yield(n) => sim::ticks(*n as u32).await,
            // The barrier is logged when the sleep *begins*: the oracle uses the state at that
            // moment, and the paused clock only advances once every task that is runnable from
            // that state on has run until it blocks (an observation made by an actor at the very
            // instant the sleep ends is not covered by the barrier).
            Op::Settle => {
                log.push(Ev::Barrier);
                tokio::time::sleep(Duration::from_millis(1)).await;
            }
            Op::Sleep(ms) => {
                log.push(Ev::Barrier);
                tokio::time::sleep(Duration::from_millis(*ms as u64)).await;
            }
            Op::Cut { kind } => {
                let Some(lh) = links[1].as_mut() else { continue };
                if lh.cut {
                    continue;
                }
                lh.cut = true;
                let (dir, kind) = match kind % 4 {
                    0 => (0u8, FaultKind::SinkError),
                    1 => (0u8, FaultKind::StreamError),
                    2 => (1u8, FaultKind::Eof),
                    _ => (0u8, FaultKind::Stall),
                };
                let after = lh.link.sent(dir);
                lh.link.arm(Fault { dir, after, kind });
                log.push(Ev::Cut);
            }
        }
    }

    // End of the broadcast: all senders go away, every remaining subscriber drains to the end.
    out.sends = next;
    senders.clear();
    log.push(Ev::SenderDropped);
    if out.fails.is_empty() {
        let mut order: Vec<usize> = (0..subs.len()).collect();
        if case.drain_rev {
            order.reverse();
        }
        for s in order {
            let failed = subs[s].link.map(|l| links[l as usize].as_ref().map(|l| l.cut).unwrap_or(false)).unwrap_or(false);
            let wait = if failed { FAILED_WAIT_S } else { deadline };
            if subs[s].done {
                continue;
            }
            if let Some(h) = subs[s].actor.take() {
                let abort = h.abort_handle();
                if sim::within(wait, h).await.is_err() {
                    abort.abort();
                    out.hung.push((s, !failed));
                }
                continue;
            }
            let sh = &mut subs[s];
            let Some(rx) = sh.rx.as_mut() else { continue };
            // One overall item budget: a broadcast of `next` values cannot yield more items.
            let mut budget = 2 * next as usize + 16;
            loop {
                let from = log.len();
                let it = match sim::within(wait, rx.recv()).await {
                    Ok(r) => classify_recv(r, pad),
                    Err(()) => It::Timeout { from },
                };
                let stop = terminal(&it);
                let timeout = matches!(it, It::Timeout { .. });
                if matches!(it, It::Err { .. }) {
                    sh.non_final_errs += 1;
                }
                log.push(Ev::Got { s, it });
                budget -= 1;
                if timeout {
                    out.hung.push((s, !failed));
                    break;
                }
                if stop || sh.non_final_errs > 8 || budget == 0 {
                    break;
                }
            }
        }
    }
    out.frames = links.iter().flatten().map(|l| l.link.tap_len() as u64 / 2).sum();
    out.log = log.snapshot();
    out
}

/// Book-keeping after an observation of a driver-held subscriber; returns whether its stream ended.
fn note(sh: &mut SubH, it: &It) -> bool {
    match it {
        It::Val(v) | It::Corrupt(v) => sh.last_val = Some(*v),
        It::Err { .. } => sh.non_final_errs += 1,
        _ => {}
    }
    if terminal(it) || sh.non_final_errs > 8 {
        sh.done = true;
        sh.rx = None;
        true
    } else {
        false
    }
}

fn try_drain(sh: &mut SubH, s: usize, n: usize, pad: u8, log: &Log) {
    for _ in 0..n {
        if sh.done {
            return;
        }
        let Some(rx) = sh.rx.as_mut() else { return };
        let it = classify_try(rx.try_recv(), pad);
        let empty = it == It::Empty;
        let stop = note(sh, &it);
        log.push(Ev::Got { s, it });
        if stop || empty {
            return;
        }
    }
}

// ---------------------------------------------------------------------------------------------
// Oracle
// ---------------------------------------------------------------------------------------------

#[derive(Default, Debug)]
pub struct Stats {
    pub subs: usize,
    pub remote: usize,
    pub failed: usize,
    pub left: usize,
    /// Lag markers observed by healthy subscribers.
    pub lags: usize,
    /// Values received by a healthy subscriber after one of its lag markers.
    pub readmissions: usize,
    /// Sends for which the keep-up rule demanded delivery to some subscriber.
    pub keepup_demands: usize,
    /// Healthy subscribers that drained to Closed.
    pub complete: usize,
    pub send_errs: usize,
}

/// Evaluates the recorded history. Returns failures (signature, message) and statistics.
///
/// Per subscriber s (joined after `join_k` sends, send buffer B):
///  * order: counter values strictly increasing, each one was sent after s joined and before it
///    was observed; padding intact;
///  * gap: between the previous value p (or join_k-1) and the next value v > p+1 at least one
///    `Lagged` was observed; same for values missing before `Closed`;
///  * lag-without-loss: at any moment the lag markers observed since p do not outnumber the
///    values sent since p (a marker stands for at least one skipped value);
///  * keep-up: replaying the log, s is *keeping up* after it joined, after every delivered value,
///    and after a quiescence barrier at which it had consumed its lag marker and its buffer was
///    not full. A value sent while s keeps up and (items queued for s - items consumed by s) < B
///    must be delivered (the count bounds the occupancy of the send buffer from above, for
///    remote subscribers too, because an item consumed remotely has left the local queue);
///  * closed: `Closed` only after all senders were dropped; a healthy subscriber reaches `Closed`
///    within the deadline and sees no error other than `Lagged`;
///  * delayed: a bounded wait of a healthy subscriber that times out although the next value it
///    receives had been sent before the wait began;
///  * send: `send` fails although a healthy subscriber is alive.
///
/// Subscribers on the failed connection are checked on what they observed (order, gap,
/// lag-without-loss) and exempt from everything else from the cut on.
pub fn evaluate(log: &[Ev], hung: &[(usize, bool)]) -> (Vec<(String, String)>, Stats) {
    let mut fails: Vec<(String, String)> = Vec::new();
    let mut st = Stats::default();
    let n_subs = log.iter().filter(|e| matches!(e, Ev::Join { .. })).count();
    st.subs = n_subs;
    let cut_pos = log.iter().position(|e| matches!(e, Ev::Cut));
    let dropped_pos = log.iter().position(|e| matches!(e, Ev::SenderDropped)).unwrap_or(log.len());
    // sends_before[pos] = number of Send events at positions < pos.
    let mut sends_before = Vec::with_capacity(log.len() + 1);
    let mut send_pos: Vec<usize> = Vec::new();
    let mut c = 0u32;
    for (pos, e) in log.iter().enumerate() {
        sends_before.push(c);
        if let Ev::Send { k, .. } = e {
            debug_assert_eq!(*k, c);
            send_pos.push(pos);
            c += 1;
        }
    }
    sends_before.push(c);
    let total = c;

    struct SubInfo {
        join_pos: usize,
        join_k: u32,
        b: i64,
        left_pos: Option<usize>,
        /// From this position on nothing is promised (connection cut / error observed).
        unhealthy_from: Option<usize>,
        remote: bool,
    }
    let mut infos: Vec<SubInfo> = Vec::new();
    for (pos, e) in log.iter().enumerate() {
        match e {
            Ev::Join { s, send_buf } => {
                debug_assert_eq!(*s, infos.len());
                infos.push(SubInfo { join_pos: pos, join_k: sends_before[pos], b: *send_buf as i64, left_pos: None, unhealthy_from: None, remote: false });
            }
            Ev::Left { s } => infos[*s].left_pos = Some(pos),
            Ev::Shipped { s, link } => {
                infos[*s].remote = true;
                if *link == 1 {
                    // Marked when the cut happens (a shipment after the cut is never attempted).
                    if let Some(cp) = cut_pos {
                        if cp > pos {
                            infos[*s].unhealthy_from = Some(cp);
                        }
                    }
                }
            }
            _ => {}
        }
    }

    for (s, info) in infos.iter().enumerate() {
        if info.remote {
            st.remote += 1;
        }
        if info.left_pos.is_some() {
            st.left += 1;
        }
        let cut_from = info.unhealthy_from;
        if cut_from.is_some() {
            st.failed += 1;
        }
        let healthy_at = |pos: usize| cut_from.map(|c| pos < c).unwrap_or(true);
        // Observed stream.
        let seq: Vec<(usize, &It)> = log
            .iter()
            .enumerate()
            .filter_map(|(pos, e)| match e {
                Ev::Got { s: s2, it } if *s2 == s && !matches!(it, It::Empty | It::Timeout { .. }) => Some((pos, it)),
                _ => None,
            })
            .collect();

        // ---- order / gap / lag-without-loss on the observed stream ----
        let mut prev: i64 = info.join_k as i64 - 1;
        let mut pending_lags: i64 = 0;
        let mut delivered: BTreeSet<u32> = BTreeSet::new();
        // Lag markers: value that precedes each marker in the observed stream.
        let mut markers: Vec<i64> = Vec::new();
        let mut closed_clean = false;
        let mut err_pos: Option<usize> = None;
        let mut lag_seen = false;
        for (pos, it) in &seq {
            let pos = *pos;
            match it {
                It::Val(v) | It::Corrupt(v) => {
                    let v = *v;
                    if matches!(it, It::Corrupt(_)) {
                        fails.push(("C16/corrupt-value".into(), format!("subscriber {s} received value {v} with damaged content")));
                    }
                    if v < info.join_k || v >= sends_before[pos] {
                        fails.push((
                            "C16/phantom-value".into(),
                            format!("subscriber {s} (joined after {} sends) received value {v}, but only values {}..{} had been sent to it at that time", info.join_k, info.join_k, sends_before[pos]),
                        ));
                        break;
                    }
                    if (v as i64) <= prev {
                        fails.push(("C16/order".into(), format!("subscriber {s} received value {v} after value {prev} (duplicate or reordered)")));
                        break;
                    }
                    let missing = v as i64 - prev - 1;
                    if missing > 0 && pending_lags == 0 {
                        let after = if prev < info.join_k as i64 { format!("is the first value received after joining at {}", info.join_k) } else { format!("follows {prev}") };
                        fails.push((
                            "C16/gap-without-lag".into(),
                            format!("subscriber {s}: value {v} {after} ({missing} value(s) skipped) without a Lagged error in between"),
                        ));
                    }
                    if lag_seen && healthy_at(pos) {
                        st.readmissions += 1;
                    }
                    delivered.insert(v);
                    prev = v as i64;
                    pending_lags = 0;
                }
                It::Lagged => {
                    pending_lags += 1;
                    markers.push(prev);
                    lag_seen = true;
                    if healthy_at(pos) {
                        st.lags += 1;
                    }
                    let sent_since = sends_before[pos] as i64 - 1 - prev;
                    if pending_lags > sent_since {
                        fails.push((
                            "C16/lag-without-loss".into(),
                            format!("subscriber {s}: {pending_lags} Lagged error(s) after value {prev} although only {sent_since} value(s) had been sent since"),
                        ));
                    }
                }
                It::Closed => {
                    if pos < dropped_pos && healthy_at(pos) {
                        fails.push(("C16/closed-early".into(), format!("subscriber {s} received Closed while a sender was still alive (after value {prev})")));
                    }
                    let missing = total as i64 - 1 - prev;
                    if pos >= dropped_pos && healthy_at(pos) {
                        if missing > 0 && pending_lags == 0 {
                            fails.push((
                                "C16/gap-without-lag".into(),
                                format!("subscriber {s}: Closed follows value {prev} although {missing} later value(s) were broadcast while it was subscribed, without a Lagged error in between"),
                            ));
                        }
                        closed_clean = true;
                    }
                    break;
                }
                It::Err { what, .. } => {
                    if healthy_at(pos) {
                        fails.push(("C16/recv-error".into(), format!("subscriber {s} on a healthy path received error {what} after value {prev}")));
                    }
                    err_pos = Some(pos);
                    break;
                }
                It::Empty | It::Timeout { .. } => unreachable!(),
            }
        }
        let healthy_all = cut_from.is_none() && err_pos.is_none();
        if closed_clean && healthy_all {
            st.complete += 1;
        }
        if let Some((_, h)) = hung.iter().find(|(hs, _)| *hs == s) {
            if *h && healthy_all {
                fails.push((
                    "C16/subscriber-hangs".into(),
                    format!("subscriber {s} ({}) did not reach Closed within the deadline after all senders were dropped; last value {prev}", if info.remote { "remote" } else { "local" }),
                ));
            }
        }

        // ---- delayed delivery ----
        for (pos, e) in log.iter().enumerate() {
            if let Ev::Got { s: s2, it: It::Timeout { from } } = e {
                if *s2 != s || !healthy_at(pos) || err_pos.map(|p| p < pos).unwrap_or(false) {
                    continue;
                }
                if let Some((_, It::Val(v))) = seq.iter().find(|(p, _)| *p > pos) {
                    if send_pos[*v as usize] < *from {
                        fails.push((
                            "C16/delivery-delayed".into(),
                            format!("subscriber {s} waited a whole deadline without receiving anything although value {v} had been sent before the wait began"),
                        ));
                    }
                }
            }
        }

        // ---- keep-up rule ----
        let horizon: i64 = delivered.iter().next_back().map(|v| *v as i64).unwrap_or(-1);
        let mut normal = true;
        let mut queued: i64 = 0;
        let mut consumed: i64 = 0;
        let mut markers_started: i64 = 0;
        let mut markers_consumed: i64 = 0;
        let mut last_delivered: i64 = info.join_k as i64 - 1;
        for (pos, e) in log.iter().enumerate().skip(info.join_pos) {
            if info.left_pos.map(|l| pos >= l).unwrap_or(false) || !healthy_at(pos) || err_pos.map(|p| pos >= p).unwrap_or(false) {
                break;
            }
            match e {
                Ev::Send { k, .. } => {
                    let k = *k;
                    if !(closed_clean || (k as i64) <= horizon) {
                        break;
                    }
                    let u = queued + markers_started - consumed;
                    if normal && u < info.b {
                        st.keepup_demands += 1;
                    }
                    if delivered.contains(&k) {
                        queued += 1;
                        normal = true;
                        last_delivered = k as i64;
                    } else {
                        if normal {
                            if u < info.b {
                                fails.push((
                                    "C16/skipped-while-keeping-up".into(),
                                    format!(
                                        "subscriber {s} ({}, send buffer {}) was keeping up when value {k} was sent (at most {u} item(s) queued for it were unconsumed), but the value was skipped for it",
                                        if info.remote { "remote" } else { "local" },
                                        info.b
                                    ),
                                ));
                                break;
                            }
                            normal = false;
                            markers_started += markers.iter().filter(|m| **m == last_delivered).count() as i64;
                        }
                    }
                }
                Ev::Got { s: s2, it } if *s2 == s => match it {
                    It::Val(_) | It::Corrupt(_) => consumed += 1,
                    It::Lagged => {
                        consumed += 1;
                        markers_consumed += 1;
                    }
                    _ => {}
                },
                Ev::Barrier => {
                    let u = queued + markers_started - consumed;
                    if !normal && markers_consumed == markers_started && u < info.b {
                        normal = true;
                    }
                }
                _ => {}
            }
        }
    }

    // ---- send must not fail while a healthy subscriber is alive ----
    for (pos, e) in log.iter().enumerate() {
        if let Ev::Send { k, err: Some(err), .. } = e {
            st.send_errs += 1;
            for (s, info) in infos.iter().enumerate() {
                let alive = info.join_pos < pos
                    && info.left_pos.map(|l| l > pos).unwrap_or(true)
                    && info.unhealthy_from.map(|c| c > pos).unwrap_or(true)
                    && !log[..pos].iter().any(|e| matches!(e, Ev::Got { s: s2, it } if *s2 == s && matches!(it, It::Closed | It::Err { .. })));
                if alive {
                    fails.push(("C16/send-error-with-live-subscriber".into(), format!("send of value {k} failed with {err} although healthy subscriber {s} was alive")));
                    break;
                }
            }
        }
    }
    (fails, st)
}

pub fn run(case: &Case) -> Outcome {
    let tape = case.sched.tape();
    let ex = sim::run_sim(case.sched.tokio_seed, &tape, case.sched.defer, execute(case));
    let mut out = Outcome::default();
    out.frames = ex.frames;
    if let Some((s, m)) = ex.fails.first() {
        out.fail(s.clone(), m.clone());
    }
    let (fails, st) = evaluate(&ex.log, &ex.hung);
    if let Some((s, m)) = fails.first() {
        out.fail(s.clone(), m.clone());
    }
    if std::env::var("VERIF_DEBUG").is_ok() {
        for (i, e) in ex.log.iter().enumerate() {
            eprintln!("{i:4} {e:?}");
        }
        eprintln!("{st:?} hung={:?}", ex.hung);
    }
    // Non-trivial: at least one overflow (lag marker observed by a healthy subscriber) and at
    // least one re-admission (a value received after a lag marker by the same subscriber).
    out.nontrivial = st.lags >= 1 && st.readmissions >= 1;
    out.class(format!("subs:{}", st.subs.min(8)));
    out.class(match (st.remote, st.subs - st.remote) {
        (0, _) => "place:local-only",
        (_, 0) => "place:remote-only",
        _ => "place:mixed",
    });
    out.class(match st.lags {
        0 => "lags:0",
        1..=2 => "lags:1-2",
        3..=9 => "lags:3-9",
        _ => "lags:10+",
    });
    out.class(match ex.sends {
        0 => "sends:0",
        1..=9 => "sends:1-9",
        10..=39 => "sends:10-39",
        _ => "sends:40+",
    });
    if st.readmissions > 0 {
        out.class("readmission");
    }
    if st.keepup_demands > 0 {
        out.class("keepup-demanded");
    }
    if st.failed > 0 {
        out.class("failed-subscriber");
    }
    if st.left > 0 {
        out.class("subscriber-left");
    }
    if st.send_errs > 0 {
        out.class("send-error(no subscriber)");
    }
    if st.complete > 0 {
        out.class("drained-to-closed");
    }
    if ex.log.iter().any(|e| matches!(e, Ev::Got { it: It::Timeout { .. }, .. })) {
        out.class("bounded-wait-timeout");
    }
    if case.ops.iter().any(|o| matches!(o, Op::Auto { .. })) {
        out.class("actor-subscriber");
    }
    if case.sched.perturbed() {
        out.class("perturbed-schedule");
    }
    out
}

pub const RULE: &str = "cases = (chmux Cfg, schedule, padding, Vec<Op>): Send / Burst(n) of counter values; Sub{send_buf 1-4, recv_buf 1-4}; Ship a subscriber to the remote endpoint of connection 0 or 1 (also after it consumed locally or while values are queued); Auto (actor drains concurrently through recv or ReceiverStream with a generated pace); Recv (try_recv up to n) / RecvWait (bounded recv) / DrainAll; DropSub; Yield / Settle (quiescence barrier) / Sleep; Cut (connection 1 fails: sink error, stream error, EOF, stall); finally all senders are dropped and every subscriber drains to Closed in generated order. Oracle on the global log of sends and per-subscriber observations: values strictly increasing, sent after the subscriber joined and intact; every gap (also before Closed) carries a Lagged; Lagged markers never outnumber the values sent since the previous value; keep-up: a value sent while the subscriber keeps up (joined / last value delivered / consumed its lag marker before a quiescence barrier) and fewer unconsumed items than its send buffer are queued must be delivered; Closed only after the senders are gone and always reached by healthy subscribers; no error other than Lagged on a healthy path; a bounded wait never times out while an already sent value is the next one delivered; send never fails while a healthy subscriber is alive; subscribers on the failed connection are exempt from everything but order/gap from the cut on. non-trivial = a healthy subscriber observed >= 1 Lagged (overflow) and received >= 1 value after a Lagged (re-admission); distinct = distinct case hash";

pub fn main(tier: Tier, seed: u64) -> Report {
    let mut rep = Report::new("C16", tier, seed);
    rep.rule = RULE.into();
    rep.assumptions = vec![
        "single-threaded deterministic simulation; task-level interleavings only (deferral hook + tape)".into(),
        "`send` is a synchronous function, so 'never blocks the sender' is checked as: it returns Ok while a healthy subscriber is alive, and other subscribers reach every value / Closed within the virtual deadline while slow, stalled or failed ones are left unconsumed".into(),
        "when values are skipped at the very end of the broadcast the Lagged error is required before Closed".into(),
        "forwarding of a receiver over more than one hop and `feeder` are not exercised".into(),
    ];
    let regress: Vec<Case> = runner::load_regress::<Case>("C16", "ops").into_iter().map(|(_, c)| c).collect();
    if !regress.is_empty() {
        runner::run_cases(&mut rep, "regress-ops", regress, run);
    }
    runner::run_generated(&mut rep, "ops", tier.pick(60_000, 1_000_000), || strategy(tier), run);
    rep
}

pub fn replay(_part: &str, case: serde_json::Value) -> (Option<runner::Failure>, u32, u32) {
    let n = runner::replay_times(3);
    let c: Case = serde_json::from_value(case).expect("replay case does not parse as C16 case");
    let (f, h) = runner::replay_case(&c, run, n);
    (f, h, n)
}
