//! C18 — I/O channels deliver exactly the written bytes; short streams are errors.
//!
//! One case = one `rch::io` channel (sized or unsized) whose halves are placed on the two
//! endpoints of a simulated chmux connection (kept local, sent to the peer, or sent to the peer
//! and back = forwarded), a writer script (write / write_all / flush / pause, cancellable writes,
//! end by shutdown / flush+drop / plain drop at whatever offset the script reached), a cyclic
//! reader script (buffer sizes incl. 0, cancellable reads, pauses) and optionally a connection
//! cut at a generated frame.
//!
//! Mid-stream hand-over: the writer script contains `Move` ops (flush, then send the `io::Sender`
//! over a base channel to the other endpoint and go on writing there; any number of times, i.e.
//! also back), and `rx_moves` makes the reader hand the `io::Receiver` over to the other endpoint
//! between two read calls. A half is moved only while no call is pending on it (the sender after
//! a successful flush, the receiver after a read call that returned). All oracle rules are stated
//! over the totals of all owners, so they hold across hand-overs unchanged.
//!
//! Oracle (round trip against the bytes *accepted* by the writer):
//!  * the bytes obtained are a prefix of the bytes accepted, byte for byte;
//!  * a clean end-of-file is acceptable only when the total equals the fixed size (sized) or the
//!    size announced by a successful shutdown (unsized);
//!  * sized: the accepted total never exceeds the size; a short shutdown fails;
//!  * on a healthy connection a stream that was completed by the AsyncWrite contract (all accepted
//!    bytes followed by a successful flush / shutdown; sized: total == size; unsized: shutdown)
//!    is obtained completely and ends with a clean EOF, writer calls do not fail spuriously,
//!    and an incomplete stream whose sender is gone ends with an error at the reader;
//!  * whatever happens (incl. a cut) both sides terminate (virtual deadline).

use bytes::Bytes;
use proptest::prelude::*;
use serde::{Deserialize, Serialize};
use std::sync::{
    atomic::{AtomicUsize, Ordering},
    Arc, Mutex,
};
use tokio::io::{AsyncReadExt, AsyncWriteExt};

use crate::engine::{
    gen::{self, gcfg_small, payload, sched, GCfg, Sched},
    link::{Delay, Fault, FaultKind, SimLink},
    runner::{self, Outcome, Report, Tier},
    sim::{self, spawn_actor, tape_pause, CancelAfter, Cancelled, Tape},
};
use remoc::rch::{base, io};

/// Generator switch: both halves of one channel leave the creating endpoint (in one message).
/// See REPORT.md; set to false to exclude that placement from generation.
pub const GEN_BOTH_HALVES_SENT: bool = true;

/// Generator switch: keep `max_data_size` of both endpoints large enough (>= MIN_MDS) that the
/// item carrying the halves over the base channel is serialised in one go. With a smaller limit
/// `base::Sender::send` first tries buffered serialisation, gives up at the limit and serialises
/// the item a second time in streaming mode; `io::Sender`/`io::Receiver::serialize` are
/// destructive (they `take()` their bin half), so the second pass transmits an empty shell (see
/// REPORT.md, side finding F1). Not part of the C18 statement; excluded so that the search goes on.
pub const AVOID_OVERSIZED_HALF_TRANSFER: bool = true;
pub const MIN_MDS: usize = 512;

/// Generator switch: the `io::Receiver` is handed over to another endpoint only before its first
/// read call (possibly after the writer has written and flushed part of the stream, so that data is
/// in flight / buffered in the chmux port). `io::Receiver::serialize` transports neither the number
/// of bytes already read nor the unread rest of the chunk the receiver holds (see REPORT2.md,
/// finding F3), so a receiver moved after a read call loses bytes and / or ends a complete stream
/// with "size mismatch". Set to false to generate hand-overs at any offset.
pub const AVOID_RECEIVER_MOVE_AFTER_READ: bool = true;

/// Signature of the two symptoms of F3 (bytes missing in the middle / complete stream ends with
/// "size mismatch") in a run in which the receiver was handed over after a read call had returned.
pub const SIG_F3: &str = "C18/receiver-moved-after-read";

/// At most this many hand-overs per half and case (ports are a bounded resource).
pub const MAX_TX_MOVES: usize = 4;
pub const MAX_RX_MOVES: usize = 3;

/// Where a half ends up.
#[derive(Clone, Copy, Debug, Serialize, Deserialize, PartialEq, Eq, Hash)]
pub enum Path {
    /// Stays on the creating endpoint A.
    Stay,
    /// Sent to B.
    Remote,
    /// Sent to B and from there back to A (B forwards).
    Round,
}

#[derive(Clone, Debug, Serialize, Deserialize, PartialEq, Eq, Hash)]
pub enum Len {
    Abs(u16),
    /// Near a configuration boundary: base selected by the first field, offset by the second.
    Near(u8, i8),
}

/// Length of the byte string.
#[derive(Clone, Debug, Serialize, Deserialize, PartialEq, Eq, Hash)]
pub enum DLen {
    Abs(u16),
    /// k * base(sel) + off, base in {chunk_a, chunk_b, receive_buffer_a, receive_buffer_b}.
    Mult { sel: u8, k: u8, off: i8 },
}

#[derive(Clone, Debug, Serialize, Deserialize, PartialEq, Eq, Hash)]
pub enum Mode {
    Unsized,
    /// sized(len of the byte string)
    Exact,
    /// sized(len + n): the byte string is too short by n >= 1.
    Short(u8),
    /// sized(len - n) (saturating): the byte string is too long.
    Long(u8),
}

#[derive(Clone, Debug, Serialize, Deserialize, PartialEq, Eq, Hash)]
pub enum WOp {
    /// One `write` call with the next `len` bytes; the call is dropped after `polls` pending polls.
    Write { len: Len, polls: Option<u8> },
    /// A write_all loop over the next `len` bytes.
    WriteAll(Len),
    Flush,
    Pause,
    /// flush(); if it succeeds the `io::Sender` is sent to the other endpoint over a base channel
    /// and the script goes on there.
    Move,
}

/// Hand-over of the `io::Receiver` to the other endpoint.
#[derive(Clone, Debug, Serialize, Deserialize, PartialEq, Eq, Hash)]
pub struct RMove {
    /// The move takes place before the first read call that is due when at least this many bytes
    /// have been obtained, the previous read call (if any) has returned (was not cancelled) and
    /// all earlier moves are done.
    pub at: Len,
    /// Tape-driven pause before the move (lets the writer get ahead).
    pub pause: bool,
}

#[derive(Clone, Copy, Debug, Serialize, Deserialize, PartialEq, Eq, Hash)]
pub enum End {
    /// shutdown(), then drop.
    Shutdown,
    /// shutdown(), the sender is kept alive until the reader is done.
    ShutdownHold,
    /// flush(), then drop.
    Flush,
    /// drop without flush.
    Drop,
}

#[derive(Clone, Debug, Serialize, Deserialize, PartialEq, Eq, Hash)]
pub struct RStep {
    pub size: Len,
    /// Drop the read call after this many pending polls.
    pub polls: Option<u8>,
    pub pause: bool,
}

#[derive(Clone, Debug, Serialize, Deserialize, PartialEq, Eq, Hash)]
pub struct Cut {
    pub dir: u8,
    /// Frames of direction `dir` that still pass (counted from the start of the connection if
    /// `from_start`, else from the moment both halves are in place).
    pub after: u16,
    pub kind: FaultKind,
    pub from_start: bool,
}

#[derive(Clone, Debug, Serialize, Deserialize, PartialEq, Eq, Hash)]
pub struct Case {
    pub cfg_a: GCfg,
    pub cfg_b: GCfg,
    pub sched: Sched,
    pub data: DLen,
    pub mode: Mode,
    pub tx_path: Path,
    pub rx_path: Path,
    pub wops: Vec<WOp>,
    /// After the script, write_all the rest of the byte string.
    pub finish_rest: bool,
    pub end: End,
    pub rsteps: Vec<RStep>,
    pub cut: Option<Cut>,
    /// Mid-stream hand-overs of the receiver (older replay files have none).
    #[serde(default)]
    pub rx_moves: Vec<RMove>,
}

const MAX_DATA: usize = 1100;

fn bases(a: &GCfg, b: &GCfg) -> [usize; 8] {
    [
        a.chunk_size as usize,
        b.chunk_size as usize,
        a.receive_buffer as usize,
        b.receive_buffer as usize,
        2 * a.chunk_size as usize,
        2 * b.chunk_size as usize,
        (a.receive_buffer as usize / 2).max(1),
        (a.chunk_size + b.chunk_size) as usize,
    ]
}

fn resolve(l: &Len, a: &GCfg, b: &GCfg) -> usize {
    match l {
        Len::Abs(n) => *n as usize,
        Len::Near(s, o) => {
            let bs = bases(a, b);
            (bs[*s as usize % bs.len()] as i64 + (*o as i64).clamp(-2, 2)).max(0) as usize
        }
    }
    .min(MAX_DATA)
}

fn resolve_data(d: &DLen, a: &GCfg, b: &GCfg) -> usize {
    match d {
        DLen::Abs(n) => *n as usize,
        DLen::Mult { sel, k, off } => {
            let bs = bases(a, b);
            let base = bs[*sel as usize % 4] as i64;
            (base * (*k as i64 % 9) + (*off as i64).clamp(-2, 2)).max(0) as usize
        }
    }
    .min(MAX_DATA)
}

/// Generator preconditions, applied to every case (idempotent):
///  * each endpoint's max_data_size >= both chunk sizes (one write = one receivable message,
///    also after re-chunking by a forwarding hop);
///  * at least one half leaves the creating endpoint (documented requirement of the channel).
pub fn normalise(case: &Case) -> Case {
    let mut c = case.clone();
    let m = c.cfg_a.chunk_size.max(c.cfg_b.chunk_size) as usize;
    c.cfg_a.max_data_size = c.cfg_a.max_data_size.max(m);
    c.cfg_b.max_data_size = c.cfg_b.max_data_size.max(m);
    if c.tx_path == Path::Stay && c.rx_path == Path::Stay {
        c.rx_path = Path::Remote;
    }
    if c.rsteps.is_empty() {
        c.rsteps.push(RStep { size: Len::Abs(16), polls: None, pause: false });
    }
    if c.rsteps.iter().all(|s| resolve(&s.size, &c.cfg_a, &c.cfg_b) == 0) {
        c.rsteps[0].size = Len::Abs(1);
    }
    let mut moves = 0;
    for op in c.wops.iter_mut() {
        if *op == WOp::Move {
            moves += 1;
            if moves > MAX_TX_MOVES {
                *op = WOp::Flush;
            }
        }
    }
    c.rx_moves.truncate(MAX_RX_MOVES);
    if let Some(cut) = &mut c.cut {
        cut.dir %= 2;
        if !matches!(cut.kind, FaultKind::Eof | FaultKind::StreamError | FaultKind::SinkError) {
            cut.kind = FaultKind::Eof;
        }
    }
    c
}

/// Exclusion of the triggers of known findings; applied by the generator only, so that the
/// replay files of the findings keep reproducing them.
fn exclude_known(case: Case) -> Case {
    let mut c = case;
    if AVOID_OVERSIZED_HALF_TRANSFER {
        c.cfg_a.max_data_size = c.cfg_a.max_data_size.max(MIN_MDS);
        c.cfg_b.max_data_size = c.cfg_b.max_data_size.max(MIN_MDS);
    }
    if AVOID_RECEIVER_MOVE_AFTER_READ && std::env::var("VERIF_C18_RX_MOVE_ANYWHERE").is_err() {
        for m in c.rx_moves.iter_mut() {
            m.at = Len::Abs(0);
        }
    }
    let both = GEN_BOTH_HALVES_SENT || std::env::var("VERIF_C18_BOTH_HALVES").is_ok();
    if !both && c.tx_path != Path::Stay && c.rx_path != Path::Stay {
        if c.rx_path == Path::Round {
            c.tx_path = Path::Stay;
        } else {
            c.rx_path = Path::Stay;
        }
    }
    c
}

fn len_strategy() -> BoxedStrategy<Len> {
    prop_oneof![
        3 => (0u16..=80).prop_map(Len::Abs),
        1 => Just(Len::Abs(0)),
        1 => Just(Len::Abs(1)),
        1 => (0u16..=700).prop_map(Len::Abs),
        3 => (any::<u8>(), -1i8..=1).prop_map(|(s, o)| Len::Near(s, o)),
    ]
    .boxed()
}

pub fn strategy(tier: Tier) -> BoxedStrategy<Case> {
    let nw = tier.pick(10, 16);
    let data = prop_oneof![
        2 => (0u16..=600).prop_map(DLen::Abs),
        1 => (0u16..=3).prop_map(DLen::Abs),
        4 => (any::<u8>(), 0u8..=8, -1i8..=1).prop_map(|(sel, k, off)| DLen::Mult { sel, k, off }),
    ];
    let mode = prop_oneof![
        4 => Just(Mode::Unsized),
        4 => Just(Mode::Exact),
        2 => (1u8..=70).prop_map(Mode::Short),
        1 => Just(Mode::Short(1)),
        2 => (1u8..=70).prop_map(Mode::Long),
        1 => Just(Mode::Long(1)),
    ];
    let paths = prop_oneof![
        4 => Just((Path::Stay, Path::Remote)),
        4 => Just((Path::Remote, Path::Stay)),
        2 => Just((Path::Stay, Path::Round)),
        2 => Just((Path::Round, Path::Stay)),
        2 => Just((Path::Remote, Path::Remote)),
        1 => Just((Path::Round, Path::Remote)),
        1 => Just((Path::Remote, Path::Round)),
        1 => Just((Path::Round, Path::Round)),
    ];
    let polls = || prop_oneof![5 => Just(None), 1 => (0u8..=3).prop_map(Some)];
    let wop = prop_oneof![
        4 => (len_strategy(), polls()).prop_map(|(len, polls)| WOp::Write { len, polls }),
        3 => len_strategy().prop_map(WOp::WriteAll),
        2 => Just(WOp::Flush),
        1 => Just(WOp::Pause),
        2 => Just(WOp::Move),
    ];
    let end = prop_oneof![
        4 => Just(End::Shutdown),
        2 => Just(End::ShutdownHold),
        3 => Just(End::Flush),
        2 => Just(End::Drop),
    ];
    let rstep = (
        prop_oneof![
            3 => (1u16..=40).prop_map(Len::Abs),
            1 => Just(Len::Abs(1)),
            1 => Just(Len::Abs(0)),
            1 => (1u16..=1000).prop_map(Len::Abs),
            2 => (any::<u8>(), -1i8..=1).prop_map(|(s, o)| Len::Near(s, o)),
        ],
        polls(),
        prop_oneof![3 => Just(false), 1 => Just(true)],
    )
        .prop_map(|(size, polls, pause)| RStep { size, polls, pause });
    let cut = prop_oneof![
        3 => Just(None),
        1 => (
            0u8..=1,
            prop_oneof![3 => 0u16..=10, 2 => 0u16..=40, 1 => 0u16..=400],
            prop_oneof![Just(FaultKind::Eof), Just(FaultKind::StreamError), Just(FaultKind::SinkError)],
            prop_oneof![5 => Just(false), 1 => Just(true)],
        )
            .prop_map(|(dir, after, kind, from_start)| Some(Cut { dir, after, kind, from_start })),
    ];
    let rmove = (
        prop_oneof![
            3 => Just(Len::Abs(0)),
            2 => (1u16..=40).prop_map(Len::Abs),
            1 => (1u16..=600).prop_map(Len::Abs),
            2 => (any::<u8>(), -1i8..=1).prop_map(|(s, o)| Len::Near(s, o)),
        ],
        prop_oneof![1 => Just(false), 1 => Just(true)],
    )
        .prop_map(|(at, pause)| RMove { at, pause });
    let rx_moves = prop_oneof![
        3 => Just(Vec::new()),
        2 => proptest::collection::vec(rmove, 1..=MAX_RX_MOVES),
    ];
    (
        (gcfg_small(), gcfg_small(), sched(true)),
        data,
        mode,
        paths,
        proptest::collection::vec(wop, 0..nw),
        prop_oneof![3 => Just(true), 1 => Just(false)],
        end,
        proptest::collection::vec(rstep, 1..5),
        cut,
        rx_moves,
    )
        .prop_map(|((cfg_a, cfg_b, sched), data, mode, (tx_path, rx_path), wops, finish_rest, end, rsteps, cut, rx_moves)| {
            exclude_known(normalise(&Case { cfg_a, cfg_b, sched, data, mode, tx_path, rx_path, wops, finish_rest, end, rsteps, cut, rx_moves }))
        })
        .boxed()
}

// ---------------------------------------------------------------------------------------------
// Interpreter.
// ---------------------------------------------------------------------------------------------

#[derive(Serialize, Deserialize)]
struct Halves {
    tx: Option<io::Sender>,
    rx: Option<io::Receiver>,
}

/// Number of reasons why frame delays must not use virtual time at the moment (see `connect`).
type Gate = Arc<AtomicUsize>;

/// The four ends of the two base channels (A -> B and B -> A) on one chmux port, owned by the
/// actor that hands one half over, plus the current location of that half.
struct Mover {
    ab_tx: base::Sender<Halves>,
    ab_rx: base::Receiver<Halves>,
    ba_tx: base::Sender<Halves>,
    ba_rx: base::Receiver<Halves>,
    /// The half is on endpoint B.
    at_b: bool,
    deadline: u64,
    /// `Some((gate, settle_ms))` if an item may have to be streamed (max_data_size below MIN_MDS):
    /// remoc then (de)serialises on a `spawn_blocking` thread, during whose lifetime tokio does not
    /// auto-advance the paused clock. While a move is under way frames are paced by ticks, and the
    /// move starts only after every frame that already waits for virtual time has been released.
    stream_guard: Option<(Gate, u64)>,
    done: u32,
}

impl Mover {
    fn new(port_a: (remoc::chmux::Sender, remoc::chmux::Receiver), port_b: (remoc::chmux::Sender, remoc::chmux::Receiver), deadline: u64, stream_guard: Option<(Gate, u64)>) -> Self {
        Mover {
            ab_tx: base::Sender::new(port_a.0),
            ab_rx: base::Receiver::new(port_b.1),
            ba_tx: base::Sender::new(port_b.0),
            ba_rx: base::Receiver::new(port_a.1),
            at_b: false,
            deadline,
            stream_guard,
            done: 0,
        }
    }

    /// Sends `h` from the endpoint where it is to the other one.
    async fn transfer(&mut self, h: Halves) -> Result<Halves, String> {
        if let Some((gate, settle_ms)) = &self.stream_guard {
            gate.fetch_add(1, Ordering::Relaxed);
            tokio::time::sleep(std::time::Duration::from_millis(*settle_ms)).await;
        }
        let d = self.deadline;
        let (s, r) = if self.at_b {
            tokio::join!(sim::within(d, self.ba_tx.send(h)), sim::within(d, self.ba_rx.recv()))
        } else {
            tokio::join!(sim::within(d, self.ab_tx.send(h)), sim::within(d, self.ab_rx.recv()))
        };
        if let Some((gate, _)) = &self.stream_guard {
            gate.fetch_sub(1, Ordering::Relaxed);
        }
        let dir = if self.at_b { "B->A" } else { "A->B" };
        match (s, r) {
            (Ok(Ok(())), Ok(Ok(Some(h)))) => {
                self.at_b = !self.at_b;
                self.done += 1;
                Ok(h)
            }
            (s, r) => Err(format!(
                "transfer {dir} failed: send {:?}, recv {:?}",
                s.map(|x| x.map_err(|e| e.to_string())).map_err(|_| "no result within the deadline"),
                r.map(|x| x.map(|h| h.is_some()).map_err(|e| e.to_string())).map_err(|_| "no result within the deadline")
            )),
        }
    }
}

#[derive(Clone, Debug, PartialEq)]
enum WRes {
    /// Bytes accepted by one write call.
    Ok(usize),
    Done,
    Cancelled,
    Err(String),
}

#[derive(Clone, Debug)]
struct WEv {
    op: &'static str,
    /// Accepted total before the call.
    off: usize,
    /// Bytes offered.
    req: usize,
    res: WRes,
}

#[derive(Default, Debug)]
struct WLog {
    evs: Vec<WEv>,
    /// Total bytes accepted (sum of Ok(n) of all write calls).
    accepted: usize,
    /// Accepted total that is covered by a later successful flush / shutdown.
    flushed: usize,
    /// Result of shutdown, if called.
    shutdown: Option<Result<(), String>>,
    /// Accepted total at the moment of the shutdown call.
    at_shutdown: usize,
    /// An accepted total above the fixed size was observed.
    overlong: Option<String>,
    /// Unexpected failure (reported only on a healthy connection).
    spurious: Option<String>,
    refused: u32,
    current: String,
    finished: bool,
    /// Accepted totals at which the sender was handed over.
    moves: Vec<usize>,
    /// A hand-over failed (reported only on a healthy connection).
    move_failed: Option<String>,
}

#[derive(Clone, Debug, PartialEq)]
enum REv {
    Data(usize),
    Zero,
    Cancelled,
    Eof,
    Err(String),
    /// The receiver was handed over (bytes obtained so far, bytes accepted by the writer so far).
    Moved(usize, usize),
}

#[derive(Default, Debug)]
struct RLog {
    evs: Vec<REv>,
    got: Vec<u8>,
    eof: bool,
    err: Option<String>,
    /// A zero-length read returned bytes / data arrived after EOF.
    bogus: Option<String>,
    current: String,
    finished: bool,
    /// (bytes obtained, bytes accepted by the writer) at each hand-over of the receiver.
    moves: Vec<(usize, usize)>,
    move_failed: Option<String>,
    /// Hand-overs that took place after at least one read call had returned (trigger of F3).
    moves_after_read: u32,
}

fn errs(e: &std::io::Error) -> String {
    format!("{:?}: {e}", e.kind())
}

struct WCtx {
    data: Bytes,
    size: Option<usize>,
    /// A connection cut is armed: any error may stem from it, so the sender is never used again
    /// after an error (polling `io::Sender` again after a failed send panics).
    faulty: bool,
    log: Arc<Mutex<WLog>>,
}

impl WCtx {
    fn accepted(&self) -> usize {
        self.log.lock().unwrap().accepted
    }

    /// One write call of `req` bytes from the current offset. Returns Ok(n accepted) or Err(stop).
    async fn write_once(&self, tx: &mut io::Sender, op: &'static str, req: usize, polls: Option<u8>) -> Result<usize, bool> {
        let off = self.accepted();
        let req = req.min(self.data.len() - off);
        let buf = self.data.slice(off..off + req);
        self.log.lock().unwrap().current = format!("{op}({req}) at {off}");
        let res = CancelAfter::new(tx.write(&buf), polls.map(|p| p as u32)).await;
        let mut log = self.log.lock().unwrap();
        match res {
            Cancelled::Dropped => {
                log.evs.push(WEv { op, off, req, res: WRes::Cancelled });
                Ok(0)
            }
            Cancelled::Done(Ok(n)) => {
                log.evs.push(WEv { op, off, req, res: WRes::Ok(n) });
                if n > req {
                    log.spurious.get_or_insert(format!("{op} of {req} bytes at offset {off} reported {n} bytes written"));
                    return Err(true);
                }
                log.accepted += n;
                if let Some(s) = self.size {
                    if log.accepted > s {
                        let acc = log.accepted;
                        log.overlong.get_or_insert(format!("sized({s}): {op} of {req} bytes at offset {off} accepted {n}, total {acc}"));
                    }
                }
                if n == 0 && req > 0 {
                    // A refusal expressed as "wrote nothing".
                    if self.size == Some(off) {
                        log.refused += 1;
                    } else {
                        log.spurious.get_or_insert(format!("{op} of {req} bytes at offset {off} accepted nothing"));
                    }
                    return Err(false);
                }
                Ok(n)
            }
            Cancelled::Done(Err(e)) => {
                log.evs.push(WEv { op, off, req, res: WRes::Err(errs(&e)) });
                if req > 0 && self.size == Some(off) {
                    // Over-long write refused: the sender stays usable, the script goes on.
                    log.refused += 1;
                    Err(self.faulty)
                } else {
                    log.spurious.get_or_insert(format!("{op} of {req} bytes at offset {off} failed: {}", errs(&e)));
                    Err(true)
                }
            }
        }
    }

    /// write_all as a loop of write calls. Err(true) = stop the script.
    async fn write_all(&self, tx: &mut io::Sender, req: usize) -> Result<(), bool> {
        let off = self.accepted();
        let mut left = req.min(self.data.len() - off);
        if left == 0 {
            return self.write_once(tx, "write_all", 0, None).await.map(|_| ());
        }
        while left > 0 {
            let n = self.write_once(tx, "write_all", left, None).await?;
            left -= n;
        }
        Ok(())
    }
}

async fn writer(tx: io::Sender, ctx: WCtx, wops: Vec<(WOp, usize)>, finish_rest: bool, end: End, tape: Tape, mut mover: Mover) -> (Option<io::Sender>, Mover) {
    let mut stop = false;
    // `None` only after a failed hand-over.
    let mut txo = Some(tx);
    for (op, len) in &wops {
        let Some(tx) = txo.as_mut() else { break };
        match op {
            WOp::Move => {
                // Only a flushed sender is handed over: what was accepted so far is then with chmux.
                let off = ctx.accepted();
                ctx.log.lock().unwrap().current = format!("flush before move at {off}");
                let r = tx.flush().await;
                {
                    let mut log = ctx.log.lock().unwrap();
                    match r {
                        Ok(()) => {
                            log.flushed = off;
                            log.evs.push(WEv { op: "flush", off, req: 0, res: WRes::Done });
                        }
                        Err(e) => {
                            log.evs.push(WEv { op: "flush", off, req: 0, res: WRes::Err(errs(&e)) });
                            log.spurious.get_or_insert(format!("flush at offset {off} failed: {}", errs(&e)));
                            stop = true;
                        }
                    }
                    log.current = format!("move at {off}");
                }
                if !stop {
                    let h = Halves { tx: txo.take(), rx: None };
                    match mover.transfer(h).await {
                        Ok(Halves { tx: Some(t), .. }) => {
                            txo = Some(t);
                            let mut log = ctx.log.lock().unwrap();
                            log.moves.push(off);
                            log.evs.push(WEv { op: "move", off, req: 0, res: WRes::Done });
                        }
                        Ok(_) => {
                            let mut log = ctx.log.lock().unwrap();
                            log.evs.push(WEv { op: "move", off, req: 0, res: WRes::Err("no sender arrived".into()) });
                            log.move_failed.get_or_insert(format!("hand-over of the sender at offset {off}: the item arrived without the sender"));
                            stop = true;
                        }
                        Err(e) => {
                            let mut log = ctx.log.lock().unwrap();
                            log.evs.push(WEv { op: "move", off, req: 0, res: WRes::Err(e.clone()) });
                            log.move_failed.get_or_insert(format!("hand-over of the sender at offset {off}: {e}"));
                            stop = true;
                        }
                    }
                }
            }
            WOp::Write { polls, .. } => {
                if let Err(s) = ctx.write_once(tx, "write", *len, *polls).await {
                    stop = s;
                }
            }
            WOp::WriteAll(_) => {
                if let Err(s) = ctx.write_all(tx, *len).await {
                    stop = s;
                }
            }
            WOp::Flush => {
                let off = ctx.accepted();
                ctx.log.lock().unwrap().current = format!("flush at {off}");
                let r = tx.flush().await;
                let mut log = ctx.log.lock().unwrap();
                match r {
                    Ok(()) => {
                        log.flushed = off;
                        log.evs.push(WEv { op: "flush", off, req: 0, res: WRes::Done });
                    }
                    Err(e) => {
                        log.evs.push(WEv { op: "flush", off, req: 0, res: WRes::Err(errs(&e)) });
                        log.spurious.get_or_insert(format!("flush at offset {off} failed: {}", errs(&e)));
                        stop = true;
                    }
                }
            }
            WOp::Pause => tape_pause(&tape, true).await,
        }
        if stop {
            break;
        }
    }
    let Some(mut tx) = txo else {
        let mut log = ctx.log.lock().unwrap();
        log.current = "done".into();
        log.finished = true;
        return (None, mover);
    };
    if !stop && finish_rest {
        let left = ctx.data.len() - ctx.accepted();
        if left > 0 {
            if let Err(s) = ctx.write_all(&mut tx, left).await {
                stop = s;
            }
        }
    }
    let mut keep = None;
    if !stop {
        let off = ctx.accepted();
        match end {
            End::Shutdown | End::ShutdownHold => {
                ctx.log.lock().unwrap().current = format!("shutdown at {off}");
                let r = tx.shutdown().await;
                let mut log = ctx.log.lock().unwrap();
                log.at_shutdown = off;
                match r {
                    Ok(()) => {
                        log.flushed = off;
                        log.shutdown = Some(Ok(()));
                        log.evs.push(WEv { op: "shutdown", off, req: 0, res: WRes::Done });
                    }
                    Err(e) => {
                        log.shutdown = Some(Err(errs(&e)));
                        log.evs.push(WEv { op: "shutdown", off, req: 0, res: WRes::Err(errs(&e)) });
                    }
                }
                if end == End::ShutdownHold {
                    keep = Some(tx);
                }
            }
            End::Flush => {
                ctx.log.lock().unwrap().current = format!("final flush at {off}");
                let r = tx.flush().await;
                let mut log = ctx.log.lock().unwrap();
                match r {
                    Ok(()) => {
                        log.flushed = off;
                        log.evs.push(WEv { op: "flush", off, req: 0, res: WRes::Done });
                    }
                    Err(e) => {
                        log.evs.push(WEv { op: "flush", off, req: 0, res: WRes::Err(errs(&e)) });
                        log.spurious.get_or_insert(format!("flush at offset {off} failed: {}", errs(&e)));
                    }
                }
            }
            End::Drop => {}
        }
    }
    // The sender is dropped here unless kept.
    let mut log = ctx.log.lock().unwrap();
    log.current = "done".into();
    log.finished = true;
    drop(log);
    (keep, mover)
}

async fn reader(
    rx: io::Receiver, steps: Vec<(usize, Option<u8>, bool)>, tape: Tape, log: Arc<Mutex<RLog>>, moves: Vec<(usize, bool)>, mut mover: Option<Mover>,
    wlog: Arc<Mutex<WLog>>,
) -> Option<io::Receiver> {
    let mut cancels = 0u32;
    let mut k = 0usize;
    let mut next_move = 0usize;
    // No read call is pending inside the receiver: none was issued yet or the last one returned.
    let mut idle = true;
    let mut returned_reads = 0u32;
    let mut rxo = Some(rx);
    'outer: loop {
        // Hand-overs that are due.
        while idle && next_move < moves.len() && log.lock().unwrap().got.len() >= moves[next_move].0 {
            let Some(mv) = mover.as_mut() else { break };
            let pause = moves[next_move].1;
            next_move += 1;
            if pause {
                tape_pause(&tape, true).await;
            }
            let so_far = log.lock().unwrap().got.len();
            let written = wlog.lock().unwrap().accepted;
            log.lock().unwrap().current = format!("move after {so_far} bytes");
            let h = Halves { tx: None, rx: rxo.take() };
            let res = mv.transfer(h).await;
            let mut l = log.lock().unwrap();
            match res {
                Ok(Halves { rx: Some(r), .. }) => {
                    rxo = Some(r);
                    l.moves.push((so_far, written));
                    l.evs.push(REv::Moved(so_far, written));
                    if returned_reads > 0 {
                        l.moves_after_read += 1;
                    }
                }
                Ok(_) => {
                    l.move_failed.get_or_insert(format!("hand-over of the receiver after {so_far} bytes: the item arrived without the receiver"));
                    break 'outer;
                }
                Err(e) => {
                    l.move_failed.get_or_insert(format!("hand-over of the receiver after {so_far} bytes: {e}"));
                    break 'outer;
                }
            }
        }
        let rx = rxo.as_mut().expect("receiver present");
        let (size, polls, pause) = steps[k % steps.len()];
        k += 1;
        if pause {
            tape_pause(&tape, true).await;
        }
        let polls = if cancels >= 48 { None } else { polls };
        let mut buf = vec![0u8; size];
        let so_far = log.lock().unwrap().got.len();
        log.lock().unwrap().current = format!("read({size}) after {so_far} bytes");
        let res = CancelAfter::new(rx.read(&mut buf), polls.map(|p| p as u32)).await;
        let mut l = log.lock().unwrap();
        idle = !matches!(res, Cancelled::Dropped);
        if idle {
            returned_reads += 1;
        }
        match res {
            Cancelled::Dropped => {
                cancels += 1;
                l.evs.push(REv::Cancelled);
            }
            Cancelled::Done(Ok(n)) => {
                if n > size {
                    l.bogus.get_or_insert(format!("read into {size} bytes reported {n}"));
                    break;
                }
                if size == 0 {
                    l.evs.push(REv::Zero);
                } else if n == 0 {
                    l.evs.push(REv::Eof);
                    l.eof = true;
                    break;
                } else {
                    l.evs.push(REv::Data(n));
                    l.got.extend_from_slice(&buf[..n]);
                }
            }
            Cancelled::Done(Err(e)) => {
                l.evs.push(REv::Err(errs(&e)));
                l.err = Some(errs(&e));
                break;
            }
        }
    }
    let eof = log.lock().unwrap().eof;
    if let (true, Some(rx)) = (eof, rxo.as_mut()) {
        // End-of-file is final: one more read must not produce data.
        log.lock().unwrap().current = "read after EOF".into();
        let mut buf = [0u8; 8];
        match rx.read(&mut buf).await {
            Ok(0) => {}
            Ok(n) => {
                let mut l = log.lock().unwrap();
                l.got.extend_from_slice(&buf[..n]);
                l.bogus.get_or_insert(format!("{n} bytes obtained after end-of-file had been reported"));
            }
            Err(_) => {}
        }
    }
    let mut l = log.lock().unwrap();
    l.current = "done".into();
    l.finished = true;
    drop(l);
    rxo
}

/// Like `gen::connect_pair`, but virtual-time frame delays are replaced by tick delays until
/// `timers_ok` is set. Reason: the halves are transferred over a base channel whose item does not
/// fit into one small chunk, so remoc (de)serialises it on a `spawn_blocking` thread, and tokio
/// does not auto-advance a paused clock while such a task is alive; a frame waiting for virtual
/// time would then wait forever. After the placement the clock is free again (until a mid-stream
/// hand-over that may have to stream its item, see `Mover::stream_guard`). `gate` counts the reasons
/// for tick pacing; virtual-time delays are used while it is zero.
async fn connect(case: &Case, faults: Vec<Fault>, gate: Gate) -> Result<(SimLink, gen::Side, gen::Side), String> {
    use remoc::chmux::ChMux;
    let cap = gen::delay_cap_ms(&case.cfg_a, &case.cfg_b);
    let mk = |codes: &Vec<u8>| -> Box<dyn FnMut(u32) -> Delay + Send> {
        let gate = gate.clone();
        let mut inner = gen::delay_fn(codes.clone(), cap);
        Box::new(move |idx| match inner(idx) {
            Delay::Ms(ms) if gate.load(Ordering::Relaxed) > 0 => Delay::Ticks(1 + (ms % 5) as u32),
            d => d,
        })
    };
    let (link, ea, eb) = SimLink::new(case.sched.link_cap as usize, mk(&case.sched.delays_ab), mk(&case.sched.delays_ba), faults);
    let (a, b) = tokio::join!(
        ChMux::new(case.cfg_a.to_cfg(), ea.sink, ea.stream),
        ChMux::new(case.cfg_b.to_cfg(), eb.sink, eb.stream)
    );
    let (mux_a, client_a, listener_a) = a.map_err(|e| format!("A handshake failed: {e}"))?;
    let (mux_b, client_b, listener_b) = b.map_err(|e| format!("B handshake failed: {e}"))?;
    let run_a = spawn_actor(mux_a.run());
    let run_b = spawn_actor(mux_b.run());
    Ok((
        link,
        gen::Side { client: client_a, listener: listener_a, run: run_a },
        gen::Side { client: client_b, listener: listener_b, run: run_b },
    ))
}

#[derive(Default)]
pub struct Run {
    pub fails: Vec<(String, String)>,
    pub setup_ok: bool,
    pub accepted: usize,
    pub got: usize,
    pub refused: u32,
    pub rx_eof: bool,
    pub rx_err: bool,
    pub complete: bool,
    pub unflushed_drop: bool,
    pub cancelled_calls: u32,
    pub frames: u64,
    pub multi_chunk: bool,
    pub cut_hit: bool,
    /// Hand-overs of the sender: all / after >= 1 accepted byte / followed by further accepted bytes.
    pub tx_moves: u32,
    pub tx_moves_mid: u32,
    pub tx_moves_then_more: u32,
    /// Hand-overs of the receiver: all / with bytes already accepted by the writer / after >= 1 byte read.
    pub rx_moves: u32,
    pub rx_moves_data_pending: u32,
    pub rx_moves_mid: u32,
    pub rx_moves_then_more: u32,
}

async fn execute(case: &Case) -> Run {
    let mut out = Run::default();
    let tape = case.sched.tape();
    let (ca, cb) = (&case.cfg_a, &case.cfg_b);
    let cap = gen::delay_cap_ms(ca, cb);
    // Virtual deadline: frames (each possibly delayed) plus the tape-driven pauses of the two
    // actors (at most 5 virtual s each: one per reader iteration, one per writer Pause op).
    let len = resolve_data(&case.data, ca, cb);
    let reader_iters = (len as u64 + 2) * case.rsteps.len() as u64 + 64;
    let n_moves = case.wops.iter().filter(|o| **o == WOp::Move).count() as u64 + case.rx_moves.len() as u64;
    let deadline = case.sched.deadline_s(3_000, cap) + 5 * (reader_iters + case.wops.len() as u64) + n_moves * (6 + cap / 1000);
    let faulty = case.cut.is_some();
    let start_faults = match &case.cut {
        Some(c) if c.from_start => vec![Fault { dir: c.dir, after: c.after as u32, kind: c.kind }],
        _ => vec![],
    };
    macro_rules! setup_fail {
        ($msg:expr) => {{
            if !faulty {
                out.fails.push(("C18/setup".into(), $msg));
            }
            return out;
        }};
    }
    // One reason for tick pacing until the halves are placed.
    let gate: Gate = Arc::new(AtomicUsize::new(1));
    let (link, a, b) = match sim::within(deadline, connect(case, start_faults, gate.clone())).await {
        Ok(Ok(x)) => x,
        Ok(Err(e)) => setup_fail!(e),
        Err(()) => setup_fail!("handshake hangs".to_string()),
    };
    let gen::Side { client: cl_a, listener: _la, run: _ra } = a;
    let gen::Side { client: _cl_b, listener: mut lb, run: _rb } = b;
    let (conn, acc) = tokio::join!(sim::within(deadline, cl_a.connect()), sim::within(deadline, lb.accept()));
    let ((raw_tx_a, raw_rx_a), (raw_tx_b, raw_rx_b)) = match (conn, acc) {
        (Ok(Ok(c)), Ok(Ok(Some(l)))) => (c, l),
        _ => setup_fail!("base port setup failed".to_string()),
    };
    // An item with a half may exceed max_data_size (only if the exclusion of F1 is off): streamed.
    let may_stream = ca.max_data_size.min(cb.max_data_size) < MIN_MDS;
    let guard = || if may_stream { Some((gate.clone(), cap + 1)) } else { None };
    // The port used for the placement is the writer's afterwards; the reader gets its own one if
    // it has to hand the receiver over.
    let mut wmover = Mover::new((raw_tx_a, raw_rx_a), (raw_tx_b, raw_rx_b), deadline, guard());
    let mut rmover = if case.rx_moves.is_empty() {
        None
    } else {
        let (conn, acc) = tokio::join!(sim::within(deadline, cl_a.connect()), sim::within(deadline, lb.accept()));
        match (conn, acc) {
            (Ok(Ok(c)), Ok(Ok(Some(l)))) => Some(Mover::new(c, l, deadline, guard())),
            _ => setup_fail!("second base port setup failed".to_string()),
        }
    };
    let Mover { ab_tx, ab_rx, ba_tx, ba_rx, .. } = &mut wmover;

    let data = payload(18, len);
    let size: Option<usize> = match case.mode {
        Mode::Unsized => None,
        Mode::Exact => Some(len),
        Mode::Short(n) => Some(len + n as usize),
        Mode::Long(n) => Some(len.saturating_sub(n as usize)),
    };
    let (tx, rx) = match size {
        Some(s) => io::sized::<remoc::codec::Default>(s as u64),
        None => io::channel::<remoc::codec::Default>(),
    };
    let (mut tx, mut rx) = (Some(tx), Some(rx));

    // Placement, step 1: A -> B.
    let go_tx = case.tx_path != Path::Stay;
    let go_rx = case.rx_path != Path::Stay;
    if go_tx || go_rx {
        let h = Halves { tx: if go_tx { tx.take() } else { None }, rx: if go_rx { rx.take() } else { None } };
        let (s, r) = tokio::join!(sim::within(deadline, ab_tx.send(h)), sim::within(deadline, ab_rx.recv()));
        match (s, r) {
            (Ok(Ok(())), Ok(Ok(Some(h)))) => {
                if go_tx {
                    tx = h.tx;
                }
                if go_rx {
                    rx = h.rx;
                }
            }
            (s, r) => setup_fail!(format!("transfer A->B failed: send {:?}, recv {:?}", s.map(|x| x.map_err(|e| e.to_string())), r.map(|x| x.map(|_| ()).map_err(|e| e.to_string())))),
        }
    }
    // Step 2: B -> A for the halves that make the round trip.
    let back_tx = case.tx_path == Path::Round;
    let back_rx = case.rx_path == Path::Round;
    if back_tx || back_rx {
        let h = Halves { tx: if back_tx { tx.take() } else { None }, rx: if back_rx { rx.take() } else { None } };
        let (s, r) = tokio::join!(sim::within(deadline, ba_tx.send(h)), sim::within(deadline, ba_rx.recv()));
        match (s, r) {
            (Ok(Ok(())), Ok(Ok(Some(h)))) => {
                if back_tx {
                    tx = h.tx;
                }
                if back_rx {
                    rx = h.rx;
                }
            }
            (s, r) => setup_fail!(format!("transfer B->A failed: send {:?}, recv {:?}", s.map(|x| x.map_err(|e| e.to_string())), r.map(|x| x.map(|_| ()).map_err(|e| e.to_string())))),
        }
    }
    let (Some(tx), Some(rx)) = (tx, rx) else { setup_fail!("a half got lost in transfer".to_string()) };
    out.setup_ok = true;
    gate.fetch_sub(1, Ordering::Relaxed);
    wmover.at_b = case.tx_path == Path::Remote;
    if let Some(m) = rmover.as_mut() {
        m.at_b = case.rx_path == Path::Remote;
    }
    if let Some(c) = &case.cut {
        if !c.from_start {
            link.arm(Fault { dir: c.dir, after: link.sent(c.dir) + c.after as u32, kind: c.kind });
        }
    }

    let wlog: Arc<Mutex<WLog>> = Arc::new(Mutex::new(WLog::default()));
    let rlog: Arc<Mutex<RLog>> = Arc::new(Mutex::new(RLog::default()));
    let wops: Vec<(WOp, usize)> = case
        .wops
        .iter()
        .map(|op| {
            let l = match op {
                WOp::Write { len, .. } | WOp::WriteAll(len) => resolve(len, ca, cb),
                _ => 0,
            };
            (op.clone(), l)
        })
        .collect();
    let steps: Vec<(usize, Option<u8>, bool)> = case.rsteps.iter().map(|s| (resolve(&s.size, ca, cb), s.polls, s.pause)).collect();
    let rmoves: Vec<(usize, bool)> = case.rx_moves.iter().map(|m| (resolve(&m.at, ca, cb), m.pause)).collect();
    let wh = spawn_actor(writer(tx, WCtx { data: data.clone(), size, faulty, log: wlog.clone() }, wops, case.finish_rest, case.end, tape.clone(), wmover));
    let rh = spawn_actor(reader(rx, steps, tape.clone(), rlog.clone(), rmoves, rmover, wlog.clone()));

    let wres = sim::within(deadline, wh).await;
    let _kept_tx = match wres {
        Ok(Ok(k)) => k,
        Ok(Err(e)) => {
            out.fails.push(("C18/writer-panicked".into(), format!("writer task failed: {e}")));
            return out;
        }
        Err(()) => {
            let w = wlog.lock().unwrap();
            let r = rlog.lock().unwrap();
            out.fails.push((
                if faulty { "C18/writer-hangs-after-cut" } else { "C18/writer-hangs" }.into(),
                format!(
                    "writer stuck in {} for {deadline} virtual s (accepted {}, reader in {} with {} bytes, eof {}, err {:?}); writer events {:?}",
                    w.current,
                    w.accepted,
                    r.current,
                    r.got.len(),
                    r.eof,
                    r.err,
                    tail(&w.evs)
                ),
            ));
            return out;
        }
    };
    let rres = sim::within(deadline, rh).await;
    let _kept_rx = match rres {
        Ok(Ok(k)) => k,
        Ok(Err(e)) => {
            out.fails.push(("C18/reader-panicked".into(), format!("reader task failed: {e}")));
            return out;
        }
        Err(()) => {
            let w = wlog.lock().unwrap();
            let r = rlog.lock().unwrap();
            out.fails.push((
                if faulty { "C18/reader-hangs-after-cut" } else { "C18/reader-hangs" }.into(),
                format!(
                    "reader stuck in {} for {deadline} virtual s after the writer had finished (accepted {}, flushed {}, shutdown {:?}, end {:?}); obtained {} bytes",
                    r.current,
                    w.accepted,
                    w.flushed,
                    w.shutdown,
                    case.end,
                    r.got.len()
                ),
            ));
            return out;
        }
    };
    out.frames = link.tap_len() as u64 / 2;
    out.cut_hit = link.fault_time_ms(0).is_some() || link.fault_time_ms(1).is_some();

    // ---------------------------------------------------------------------------------------
    // Oracle.
    // ---------------------------------------------------------------------------------------
    let w = wlog.lock().unwrap();
    let r = rlog.lock().unwrap();
    let accepted = w.accepted;
    out.accepted = accepted;
    out.got = r.got.len();
    out.refused = w.refused;
    out.rx_eof = r.eof;
    out.rx_err = r.err.is_some();
    out.cancelled_calls = w.evs.iter().filter(|e| e.res == WRes::Cancelled).count() as u32 + r.evs.iter().filter(|e| **e == REv::Cancelled).count() as u32;
    out.unflushed_drop = w.flushed < accepted;
    let min_chunk = ca.chunk_size.min(cb.chunk_size) as usize;
    out.multi_chunk = accepted > min_chunk;
    out.tx_moves = w.moves.len() as u32;
    out.tx_moves_mid = w.moves.iter().filter(|&&o| o > 0).count() as u32;
    out.tx_moves_then_more = w.moves.iter().filter(|&&o| o > 0 && accepted > o).count() as u32;
    out.rx_moves = r.moves.len() as u32;
    out.rx_moves_data_pending = r.moves.iter().filter(|m| m.1 > m.0).count() as u32;
    out.rx_moves_mid = r.moves.iter().filter(|m| m.0 > 0).count() as u32;
    out.rx_moves_then_more = r.moves.iter().filter(|m| m.0 > 0 && r.got.len() > m.0).count() as u32;
    let ctx = || {
        format!(
            "mode {:?} size {size:?}, data {len}, tx {:?}, rx {:?}, end {:?}, cut {:?}; sender handed over at {:?}, receiver at (read, written) {:?}; accepted {accepted}, flushed {}, shutdown {:?}; reader: {} bytes, eof {}, err {:?}; writer events {:?}; reader events {:?}",
            case.mode,
            case.tx_path,
            case.rx_path,
            case.end,
            case.cut,
            w.moves,
            r.moves,
            w.flushed,
            w.shutdown,
            r.got.len(),
            r.eof,
            r.err,
            tail(&w.evs),
            tail(&r.evs)
        )
    };

    // The two symptoms of finding F3 get a signature of their own when its trigger was present, so
    // that the finding can be tracked without masking other violations with the generic signatures.
    let f3 = r.moves_after_read > 0;
    // (1) Bytes obtained are a prefix of the bytes accepted.
    if let Some(b) = &r.bogus {
        out.fails.push(("C18/bogus-read".into(), format!("{b}; {}", ctx())));
    }
    if r.got.len() > accepted {
        out.fails.push(("C18/phantom-bytes".into(), format!("reader obtained {} bytes but only {accepted} were accepted by the writer; {}", r.got.len(), ctx())));
    } else if r.got[..] != data[..r.got.len()] {
        let at = r.got.iter().zip(data.iter()).position(|(x, y)| x != y).unwrap_or(0);
        out.fails.push((if f3 { SIG_F3 } else { "C18/corrupt" }.into(), format!("bytes obtained differ from the bytes written at offset {at}; {}", ctx())));
    }
    // (2) Over-long writes are refused.
    if let Some(o) = &w.overlong {
        out.fails.push(("C18/overlong-accepted".into(), format!("{o}; {}", ctx())));
    }
    // (3) Clean EOF only at the fixed / announced size.
    if r.eof {
        match size {
            Some(s) => {
                if r.got.len() != s {
                    out.fails.push(("C18/silent-truncation".into(), format!("sized({s}) receiver reported clean end-of-file after {} bytes; {}", r.got.len(), ctx())));
                }
            }
            None => match &w.shutdown {
                Some(Ok(())) => {
                    if r.got.len() != w.at_shutdown {
                        out.fails.push((
                            "C18/silent-truncation".into(),
                            format!("unsized receiver reported clean end-of-file after {} bytes, shutdown announced {}; {}", r.got.len(), w.at_shutdown, ctx()),
                        ));
                    }
                }
                _ => out.fails.push((
                    "C18/eof-without-shutdown".into(),
                    format!("unsized receiver reported clean end-of-file after {} bytes although no shutdown succeeded; {}", r.got.len(), ctx()),
                )),
            },
        }
    }
    // (4) Sized: shutdown verifies the total.
    if let (Some(s), Some(sd)) = (size, &w.shutdown) {
        if w.at_shutdown < s && sd.is_ok() {
            out.fails.push(("C18/short-shutdown-ok".into(), format!("sized({s}): shutdown after {} bytes succeeded; {}", w.at_shutdown, ctx())));
        }
    }
    // Completed by the AsyncWrite contract.
    // `flushed` is the accepted total at the last successful flush / shutdown (0 if none): all
    // accepted bytes are covered iff it equals the final accepted total.
    let covered = w.flushed == accepted;
    let complete = match size {
        Some(s) => accepted == s && covered,
        None => matches!(w.shutdown, Some(Ok(()))),
    };
    out.complete = complete;
    if !faulty {
        // (5) Healthy connection: no spurious writer failures.
        if let Some(sp) = &w.spurious {
            out.fails.push(("C18/spurious-write-error".into(), format!("{sp}; {}", ctx())));
        }
        if let Some(Err(e)) = &w.shutdown {
            let legit = matches!(size, Some(s) if w.at_shutdown != s);
            if !legit {
                out.fails.push(("C18/spurious-write-error".into(), format!("shutdown after {} bytes failed: {e}; {}", w.at_shutdown, ctx())));
            }
        }
        // (5b) A half that is idle (flushed sender / receiver between two read calls) can be handed
        // over to the other endpoint.
        if let Some(m) = w.move_failed.as_ref().or(r.move_failed.as_ref()) {
            out.fails.push(("C18/move-failed".into(), format!("{m}; {}", ctx())));
        }
        // (6) Complete streams arrive completely and end cleanly.
        if complete {
            if !r.eof || r.got.len() != accepted {
                out.fails.push((
                    if f3 { SIG_F3 } else { "C18/complete-stream-not-delivered" }.into(),
                    format!("the stream was completed ({accepted} bytes, flushed) but the reader obtained {} bytes and ended with {:?}; {}", r.got.len(), r.err, ctx()),
                ));
            }
        } else if !r.eof && r.err.is_none() {
            out.fails.push(("C18/no-verdict".into(), format!("reader ended without end-of-file or error; {}", ctx())));
        }
    }
    out
}

fn tail<T: std::fmt::Debug>(v: &[T]) -> String {
    if v.len() <= 14 {
        format!("{v:?}")
    } else {
        format!("[.. {} earlier ..] {:?}", v.len() - 14, &v[v.len() - 14..])
    }
}

pub fn run(case: &Case) -> Outcome {
    let case = normalise(case);
    let tape = case.sched.tape();
    let res = sim::run_sim(case.sched.tokio_seed, &tape, case.sched.defer, execute(&case));
    let mut out = Outcome::default();
    out.frames = res.frames;
    if let Some((s, m)) = res.fails.first() {
        out.fail(s.clone(), m.clone());
    }
    let mode = match case.mode {
        Mode::Unsized => "unsized",
        Mode::Exact => "sized-exact",
        Mode::Short(_) => "sized-data-too-short",
        Mode::Long(_) => "sized-data-too-long",
    };
    out.class(format!("mode:{mode}"));
    out.class(format!("place:tx-{:?}/rx-{:?}", case.tx_path, case.rx_path).to_lowercase());
    out.class(format!("end:{:?}", case.end).to_lowercase());
    match &case.cut {
        None => out.class("link:healthy"),
        Some(c) => out.class(format!("link:cut-{:?}{}", c.kind, if c.from_start { "-from-start" } else { "" }).to_lowercase()),
    }
    if !res.setup_ok {
        out.class("run:cut-during-setup");
    } else {
        if res.complete {
            out.class("run:stream-complete");
        } else {
            out.class("run:stream-incomplete");
        }
        if res.rx_eof {
            out.class("run:reader-clean-eof");
        }
        if res.rx_err {
            out.class("run:reader-error");
        }
        if res.refused > 0 {
            out.class("run:overlong-write-refused");
        }
        if res.unflushed_drop {
            out.class("run:dropped-with-unflushed-bytes");
        }
        if res.cancelled_calls > 0 {
            out.class("run:cancelled-read-or-write-calls");
        }
        if res.multi_chunk {
            out.class("run:more-than-one-chunk");
        }
        if res.accepted == 0 {
            out.class("run:nothing-accepted");
        }
        if res.cut_hit {
            out.class("run:cut-took-effect");
        }
        if res.tx_moves == 0 && res.rx_moves == 0 {
            out.class("move:none");
        }
        if res.tx_moves > 0 {
            out.class("move:sender");
        }
        if res.tx_moves_mid > 0 {
            out.class("move:sender-after-accepted-bytes");
        }
        if res.tx_moves_then_more > 0 {
            out.class("move:sender-mid-stream-bytes-accepted-before-and-after");
        }
        if res.tx_moves_mid > 1 {
            out.class("move:sender-mid-stream-more-than-once");
        }
        if res.rx_moves > 0 {
            out.class("move:receiver");
        }
        if res.rx_moves_data_pending > 0 {
            out.class("move:receiver-with-unread-bytes-written");
        }
        if res.rx_moves_mid > 0 {
            out.class("move:receiver-after-bytes-read");
        }
        if res.rx_moves_then_more > 0 {
            out.class("move:receiver-mid-stream-bytes-read-before-and-after");
        }
        if res.tx_moves_mid > 0 && res.rx_moves > 0 {
            out.class("move:both-halves");
        }
    }
    out.nontrivial = res.setup_ok && (res.accepted > 0 || res.refused > 0 || res.rx_err);
    out
}

pub const RULE: &str = "cases = (Cfg pair with max_data_size >= both chunk sizes, schedule, byte string of 0..~8 chunks with boundary-biased length, mode unsized / sized exact / sized with data too short / too long, placement of each half: stays on A / sent to B / sent to B and back (forwarded), writer script of write (cancellable) / write_all / flush / pause / move (flush, then hand the io::Sender over to the other endpoint through a base channel and go on writing there; up to 4 times, i.e. also back) with boundary-biased lengths incl. empty, optional write_all of the rest, end = shutdown / shutdown+hold / flush+drop / drop, cyclic reader script of buffer sizes incl. 0 with cancellable reads and pauses, up to 3 hand-overs of the io::Receiver to the other endpoint (generated only before its first read call while finding F3 is excluded, typically with written but unread bytes in flight), optional connection cut Eof/StreamError/SinkError after k frames of one direction); oracle = bytes obtained are a byte-exact prefix of the bytes accepted by write calls; clean EOF only at the fixed size (sized) or at the size announced by a successful shutdown (unsized); sized total never exceeds the size and a short shutdown fails; on a healthy connection a stream completed per the AsyncWrite contract is delivered completely with clean EOF, writer calls do not fail spuriously, an incomplete stream ends with a reader error; an idle half can be handed over on a healthy connection; all rules are stated over the totals of all owners of a half, so they apply across hand-overs; both sides always terminate within the virtual deadline. non-trivial = both halves were placed and (>= 1 byte was accepted or an over-long write was refused or the reader ended with an error); distinct = distinct case hash";

pub fn main(tier: Tier, seed: u64) -> Report {
    let mut rep = Report::new("C18", tier, seed);
    rep.rule = RULE.into();
    rep.assumptions = vec![
        "max_data_size >= chunk_size on both endpoints (generator precondition; every predefined Cfg satisfies it)".into(),
        "at least one half leaves the creating endpoint (documented requirement of rch::io / rch::bin)".into(),
        "after a failed write / flush call the sender is not used again (except after the refusal of an over-long write); after a failed read the receiver is not used again".into(),
        "a stream counts as completed only if all accepted bytes are followed by a successful flush or shutdown (AsyncWrite contract)".into(),
        "a half is handed over to another endpoint only while no call is pending on it: the sender after a successful flush, the receiver before its first read call (AVOID_RECEIVER_MOVE_AFTER_READ: a receiver moved after a read call loses its byte count and buffered bytes, finding F3)".into(),
        "connection cuts are Eof / StreamError / SinkError faults of the simulated transport; single-threaded deterministic simulation".into(),
    ];
    let regress: Vec<Case> = runner::load_regress::<Case>("C18", "io").into_iter().map(|(_, c)| c).collect();
    if !regress.is_empty() {
        runner::run_cases(&mut rep, "regress-io", regress, run);
    }
    runner::run_generated(&mut rep, "io", tier.pick(60_000, 3_000_000), || strategy(tier), run);
    rep
}

pub fn replay(_part: &str, case: serde_json::Value) -> (Option<runner::Failure>, u32, u32) {
    let n = runner::replay_times(3);
    let c: Case = serde_json::from_value(case).expect("replay case does not parse as C18 case");
    let (f, h) = runner::replay_case(&c, run, n);
    (f, h, n)
}
