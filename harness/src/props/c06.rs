//! C06 — Fail-stop: transport failure at any point errors every operation, hangs nothing.
//! Fault enumeration over the frames of a workload (direction x frame index x fault kind), plus
//! long idle periods on a healthy (optionally flush-buffered) transport.

use bytes::Bytes;
use proptest::prelude::*;
use serde::{Deserialize, Serialize};
use std::sync::{Arc, Mutex};

use crate::engine::{
    gen::{self, make_link, payload, sched, GCfg, Sched},
    link::{Fault, FaultKind, SimLink},
    runner::{self, Outcome, Report, Tier},
    sim::{self, spawn_actor},
};
use remoc::chmux::{self, ChMux, ChMuxError};

#[derive(Clone, Debug, Serialize, Deserialize, PartialEq, Eq, Hash)]
pub struct Workload {
    /// Timeouts of A and B in seconds (None = disabled).
    pub timeout_a: Option<u32>,
    pub timeout_b: Option<u32>,
    pub chunk: u32,
    pub buffer: u32,
    /// Size of the streamed message.
    pub big_len: u16,
    /// Include typed channels (mpsc half transferred over a base channel, oneshot).
    pub typed: bool,
}

#[derive(Clone, Debug, Serialize, Deserialize, PartialEq, Eq, Hash)]
pub struct Case {
    pub w: Workload,
    pub fault: Fault,
    pub sched: Sched,
}

fn workload_strategy() -> BoxedStrategy<Workload> {
    (
        prop_oneof![Just(Some(60u32)), Just(Some(5u32)), Just(None)],
        prop_oneof![Just(Some(60u32)), Just(Some(10u32)), Just(None)],
        prop_oneof![Just(4u32), Just(16u32)],
        prop_oneof![Just(8u32), Just(32u32), Just(6u32)],
        prop_oneof![0u16..=200, Just(100u16)],
        any::<bool>(),
    )
        .prop_map(|(timeout_a, timeout_b, chunk, buffer, big_len, typed)| Workload { timeout_a, timeout_b, chunk, buffer, big_len, typed })
        .boxed()
}

fn kind_strategy() -> BoxedStrategy<FaultKind> {
    prop_oneof![
        Just(FaultKind::SinkError),
        Just(FaultKind::StreamError),
        Just(FaultKind::Eof),
        Just(FaultKind::Stall),
        Just(FaultKind::StallOneWay),
    ]
    .boxed()
}

pub fn strategy(_tier: Tier) -> BoxedStrategy<Case> {
    (workload_strategy(), 0u8..2, 0u32..140, kind_strategy(), sched(true))
        .prop_map(|(w, dir, after, kind, mut sched)| {
            // Delays must stay well below the timeouts (healthy-but-slow is not a fault).
            sched.delays_ab.iter_mut().chain(sched.delays_ba.iter_mut()).for_each(|d| {
                if *d >= 233 {
                    *d = 232;
                }
            });
            Case { w, fault: Fault { dir, after, kind }, sched }
        })
        .boxed()
}

fn cfg_of(w: &Workload, timeout: Option<u32>) -> GCfg {
    GCfg {
        chunk_size: w.chunk,
        receive_buffer: w.buffer,
        max_data_size: 4096,
        shared_q: 2,
        tsend_q: 2,
        trecv_q: 2,
        connect_queue: 2,
        max_ports: 32,
        max_received_ports: 16,
        timeout_s: timeout,
    }
}

/// Record of one API operation.
#[derive(Clone, Debug)]
pub struct OpRec {
    pub name: &'static str,
    pub side: u8,
    pub start_ms: u64,
    /// Virtual ms at completion; None = still pending.
    pub done_ms: Option<u64>,
    /// "ok", "ok-none", or "err:<text>"
    pub result: String,
}

type Recs = Arc<Mutex<Vec<OpRec>>>;

fn start_at(recs: &Recs, name: &'static str, side: u8, now_ms: u64) -> usize {
    let mut r = recs.lock().unwrap();
    r.push(OpRec { name, side, start_ms: now_ms, done_ms: None, result: String::new() });
    r.len() - 1
}

fn finish(recs: &Recs, i: usize, link: &SimLink, result: String) {
    let mut r = recs.lock().unwrap();
    r[i].done_ms = Some(link.now_ms());
    r[i].result = result;
}

pub struct RunOut {
    pub fails: Vec<(String, String)>,
    pub pending_at_fault: usize,
    pub frames: [u32; 2],
    pub fault_hit: bool,
    pub during_handshake: bool,
}

fn err_kind<A, B>(e: &ChMuxError<A, B>) -> &'static str {
    match e {
        ChMuxError::SinkError(_) => "SinkError",
        ChMuxError::StreamError(_) => "StreamError",
        ChMuxError::StreamClosed => "StreamClosed",
        ChMuxError::Reset => "Reset",
        ChMuxError::Timeout => "Timeout",
        ChMuxError::Protocol(_) => "Protocol",
    }
}

pub async fn execute(case: &Case, faults: Vec<Fault>) -> RunOut {
    let w = &case.w;
    let mut out = RunOut { fails: vec![], pending_at_fault: 0, frames: [0, 0], fault_hit: false, during_handshake: false };
    let cfg_a = cfg_of(w, w.timeout_a);
    let cfg_b = cfg_of(w, w.timeout_b);
    let cap = gen::delay_cap_ms(&cfg_a, &cfg_b).min(1000);
    let (link, ea, eb) = make_link(&case.sched, cap, faults.clone());
    let recs: Recs = Arc::new(Mutex::new(Vec::new()));
    let received: Arc<Mutex<Vec<Bytes>>> = Arc::new(Mutex::new(Vec::new()));
    let sent: Arc<Mutex<Vec<Bytes>>> = Arc::new(Mutex::new(Vec::new()));

    // Handshake: with a fault inside it, ChMux::new must fail or time out in bounded time.
    let hs = sim::within(400, async { tokio::join!(ChMux::new(cfg_a.to_cfg(), ea.sink, ea.stream), ChMux::new(cfg_b.to_cfg(), eb.sink, eb.stream)) }).await;
    let (ra, rb) = match hs {
        Ok(x) => x,
        Err(()) => {
            let no_timeouts = w.timeout_a.is_none() || w.timeout_b.is_none();
            if !no_timeouts {
                out.fails.push(("C06/handshake-hangs".into(), format!("ChMux::new still pending 400 virtual s after fault {:?} although both endpoints have a timeout", case.fault)));
            }
            out.during_handshake = true;
            out.fault_hit = true;
            return out;
        }
    };
    let ((mux_a, client_a, listener_a), (mux_b, client_b, listener_b)) = match (ra, rb) {
        (Ok(a), Ok(b)) => (a, b),
        _ => {
            // Failed handshake on at least one side: fail-stop already.
            out.during_handshake = true;
            out.fault_hit = link.fault_time_ms(0).is_some() || link.fault_time_ms(1).is_some();
            return out;
        }
    };
    let run_done: Arc<Mutex<[Option<(u64, String)>; 2]>> = Arc::new(Mutex::new([None, None]));
    for (i, mux) in [(0usize, mux_a), (1usize, mux_b)] {
        let rd = run_done.clone();
        let link2 = link.clone();
        spawn_actor(async move {
            let r = mux.run().await;
            let s = match &r {
                Ok(()) => "Ok".to_string(),
                Err(e) => err_kind(e).to_string(),
            };
            rd.lock().unwrap()[i] = Some((link2.now_ms(), s));
        });
    }
    let mut listener_b = listener_b;
    let mut listener_a = listener_a;

    // --- Workload -------------------------------------------------------------------------
    // Port 1 (A->B): streamed data. Port 2 (A->B): send blocked on credits.
    let setup = sim::within(300, async {
        let (c1, l1) = tokio::join!(client_a.connect(), listener_b.accept());
        let (c2, l2) = tokio::join!(client_a.connect(), listener_b.accept());
        let (c3, l3) = tokio::join!(client_b.connect(), listener_a.accept());
        Some((c1.ok()?, l1.ok()??, c2.ok()?, l2.ok()??, c3.ok()?, l3.ok()??))
    })
    .await;
    let handles = match setup {
        Ok(Some(h)) => Some(h),
        _ => None,
    };
    let mut keep: Vec<Box<dyn std::any::Any + Send>> = Vec::new();
    if let Some(((tx1, rx1a), (tx1b, rx1), (tx2, rx2a), (tx2b, rx2), (tx3, rx3b), (tx3a, rx3))) = handles {
        // op: streamed sends A->B on port 1
        {
            let (recs, link2, sent) = (recs.clone(), link.clone(), sent.clone());
            let big = w.big_len as usize;
            let i = start_at(&recs, "port-send-stream", 0, link.now_ms());
            spawn_actor(async move {
                let mut tx1 = tx1;
                let mut k = 0u32;
                let r = loop {
                    let data = payload(k, if k % 2 == 0 { big } else { 3 });
                    match tx1.send(data.clone()).await {
                        Ok(()) => sent.lock().unwrap().push(data),
                        Err(e) => break format!("err:{e}"),
                    }
                    k += 1;
                    if k > 400 {
                        // Keep the sender alive but idle; it must still learn of a failure.
                        tx1.closed().await;
                        break "err:closed-resolved".to_string();
                    }
                };
                finish(&recs, i, &link2, r);
            });
        }
        // op: receive loop B port 1
        {
            let (recs, link2, received) = (recs.clone(), link.clone(), received.clone());
            let i = start_at(&recs, "port-recv-loop", 1, link.now_ms());
            spawn_actor(async move {
                let mut rx1 = rx1;
                let r = loop {
                    match rx1.recv().await {
                        Ok(Some(b)) => received.lock().unwrap().push(b.into()),
                        Ok(None) => break "ok-none".to_string(),
                        Err(e) => break format!("err:{e}"),
                    }
                };
                finish(&recs, i, &link2, r);
            });
        }
        // op: send blocked on credits (B never reads port 2)
        {
            let (recs, link2) = (recs.clone(), link.clone());
            let len = w.buffer as usize + 40;
            let i = start_at(&recs, "port-send-blocked-on-credits", 0, link.now_ms());
            let j = start_at(&recs, "sender-closed-future", 0, link.now_ms());
            let closed = tx2.closed();
            let (recs3, link3) = (recs.clone(), link.clone());
            spawn_actor(async move {
                closed.await;
                finish(&recs3, j, &link3, "ok".into());
            });
            spawn_actor(async move {
                let mut tx2 = tx2;
                let r = match tx2.send(payload(77, len)).await {
                    Ok(()) => "ok".to_string(),
                    Err(e) => format!("err:{e}"),
                };
                finish(&recs, i, &link2, r);
                futures::future::pending::<()>().await;
                drop(tx2);
            });
            keep.push(Box::new(rx2));
        }
        // op: recv pending on an idle port (A waits on port 3, B never sends)
        {
            let (recs, link2) = (recs.clone(), link.clone());
            let i = start_at(&recs, "port-recv-idle", 0, link.now_ms());
            spawn_actor(async move {
                let mut rx3 = rx3;
                let r = match rx3.recv_any().await {
                    Ok(Some(_)) => "ok".to_string(),
                    Ok(None) => "ok-none".to_string(),
                    Err(e) => format!("err:{e}"),
                };
                finish(&recs, i, &link2, r);
            });
            keep.push(Box::new(tx3));
        }
        // op: Sender::connect over port 3 (A -> B) whose requests are never answered
        {
            let (recs, link2) = (recs.clone(), link.clone());
            let i = start_at(&recs, "port-connect-batch-unanswered", 0, link.now_ms());
            let mut tx3a = tx3a;
            spawn_actor(async move {
                let alloc = tx3a.port_allocator();
                let ports = vec![chmux::PortReq::new(alloc.allocate().await)];
                let r = match tx3a.connect(ports, true).await {
                    Ok(mut c) => match c.pop().unwrap().await {
                        Ok(_) => "ok".to_string(),
                        Err(e) => format!("err:{e}"),
                    },
                    Err(e) => format!("err:{e}"),
                };
                finish(&recs, i, &link2, r);
                futures::future::pending::<()>().await;
                drop(tx3a);
            });
        }
        keep.push(Box::new((rx1a, tx1b, rx2a, tx2b, rx3b)));
        // Typed channels over a fresh port pair.
        if w.typed {
            use remoc::rch::{base, mpsc, oneshot};
            type V = (mpsc::Receiver<u32>, oneshot::Sender<u32>);
            let t = sim::within(300, async { tokio::join!(client_a.connect(), listener_b.accept()) }).await;
            if let Ok((Ok((raw_tx, raw_rx_a)), Ok(Some((raw_tx_b, raw_rx))))) = t {
                let mut btx = base::Sender::<V>::new(raw_tx);
                let mut brx = base::Receiver::<V>::new(raw_rx);
                let (mtx, mrx) = mpsc::channel::<u32, remoc::codec::Default>(2);
                let (otx, orx) = oneshot::channel::<u32, remoc::codec::Default>();
                let sr = sim::within(300, async { tokio::join!(btx.send((mrx, otx)), brx.recv()) }).await;
                if let Ok((Ok(()), Ok(Some((mut mrx_b, otx_b))))) = sr {
                    {
                        let (recs, link2) = (recs.clone(), link.clone());
                        let i = start_at(&recs, "mpsc-recv-remote", 1, link.now_ms());
                        spawn_actor(async move {
                            let r = loop {
                                match mrx_b.recv().await {
                                    Ok(Some(_)) => {}
                                    Ok(None) => break "ok-none".to_string(),
                                    Err(e) => {
                                        if e.is_final() {
                                            break format!("err:{e}");
                                        }
                                    }
                                }
                            };
                            finish(&recs, i, &link2, r);
                        });
                    }
                    {
                        let (recs, link2) = (recs.clone(), link.clone());
                        let i = start_at(&recs, "oneshot-recv", 0, link.now_ms());
                        spawn_actor(async move {
                            let r = match orx.await {
                                Ok(_) => "ok".to_string(),
                                Err(e) => format!("err:{e}"),
                            };
                            finish(&recs, i, &link2, r);
                        });
                    }
                    {
                        let (recs, link2) = (recs.clone(), link.clone());
                        let i = start_at(&recs, "mpsc-send-loop", 0, link.now_ms());
                        spawn_actor(async move {
                            let mut k = 0u32;
                            let r = loop {
                                match mtx.send(k).await {
                                    Ok(s) => {
                                        if let Err(e) = s.await {
                                            break format!("err:sending:{e}");
                                        }
                                    }
                                    Err(e) => break format!("err:{e}"),
                                }
                                k += 1;
                                if k > 50 {
                                    mtx.closed().await;
                                    break "err:closed-resolved".to_string();
                                }
                            };
                            finish(&recs, i, &link2, r);
                        });
                    }
                    keep.push(Box::new((btx, brx, otx_b, raw_rx_a, raw_tx_b)));
                }
            }
        }
    }
    // op: connect whose request is never accepted (B's listener is not polled any more)
    {
        let (recs, link2) = (recs.clone(), link.clone());
        let i = start_at(&recs, "client-connect-unanswered", 0, link.now_ms());
        let c = client_a.clone();
        spawn_actor(async move {
            let r = match c.connect().await {
                Ok(_) => "ok".to_string(),
                Err(e) => format!("err:{e}"),
            };
            finish(&recs, i, &link2, r);
        });
    }
    // op: accept waiting for a request that never comes (B never connects again)
    {
        let (recs, link2) = (recs.clone(), link.clone());
        let i = start_at(&recs, "listener-accept-idle", 0, link.now_ms());
        spawn_actor(async move {
            let mut l = listener_a;
            let r = match l.accept().await {
                Ok(Some(_)) => "ok".to_string(),
                Ok(None) => "ok-none".to_string(),
                Err(e) => format!("err:{e}"),
            };
            finish(&recs, i, &link2, r);
        });
    }
    keep.push(Box::new(listener_b));

    // --- Let it run until the fault has fired and the bounds have passed ---------------------
    let ta = w.timeout_a.map(|t| t as u64);
    let tb = w.timeout_b.map(|t| t as u64);
    let horizon_s = 30 + ta.unwrap_or(0).max(tb.unwrap_or(0)) * 3 + ta.unwrap_or(0) + tb.unwrap_or(0);
    tokio::time::sleep(std::time::Duration::from_secs(horizon_s)).await;
    out.frames = [link.sent(0), link.sent(1)];
    let fault_ms = [link.fault_time_ms(0), link.fault_time_ms(1)];
    let t_fault = match (fault_ms[0], fault_ms[1]) {
        (Some(a), Some(b)) => Some(a.min(b)),
        (a, b) => a.or(b),
    };
    let Some(t_fault) = t_fault else {
        // The fault index lies beyond the frames this run produced: nothing to check.
        return out;
    };
    out.fault_hit = true;
    let kind = case.fault.kind;
    let silent = matches!(kind, FaultKind::Stall | FaultKind::StallOneWay);
    // Which endpoints can observe the fault, and by when (ms)?
    let eps = 2_000u64; // scheduling slack incl. per-frame delays of the schedule
    let slack = eps + case.sched.max_delay_ms(cap) * 8;
    let mut bound: [Option<u64>; 2] = [None, None];
    if !silent {
        // Error / EOF is seen by one endpoint at once; the other sees end-of-stream as soon as the
        // first one drops its transport.
        bound = [Some(t_fault + slack), Some(t_fault + slack)];
        // A SinkError is only noticed when the endpoint next writes (latest: its next ping).
        if kind == FaultKind::SinkError {
            let writer = case.fault.dir as usize; // endpoint that writes direction d
            let peer_timeout = if writer == 0 { tb } else { ta }; // ping interval = peer timeout / 2
            let own_timeout = if writer == 0 { ta } else { tb };
            let notice = match (peer_timeout, own_timeout) {
                (Some(p), _) => Some(p * 1000 / 2),
                (None, _) => None,
            };
            bound = match notice {
                Some(n) => [Some(t_fault + n + slack), Some(t_fault + n + slack)],
                None => [None, None],
            };
        }
        // Stream error / EOF is observed by the reader of direction d immediately.
    } else {
        // Silence: each endpoint that stops receiving notices after its own timeout; the other one
        // then sees the dropped transport (one-way stall) or its own timeout (full stall).
        let receivers: Vec<usize> = if kind == FaultKind::Stall { vec![0, 1] } else { vec![1 - case.fault.dir as usize] };
        let t_of = |e: usize| if e == 0 { ta } else { tb };
        for e in 0..2usize {
            if receivers.contains(&e) {
                if let Some(t) = t_of(e) {
                    bound[e] = Some(t_fault + t * 1000 + slack);
                }
            }
        }
        if kind == FaultKind::StallOneWay {
            let r = receivers[0];
            if let Some(b) = bound[r] {
                // The other endpoint's outgoing direction is the silent one, so it cannot see the
                // peer dropping the transport through it... but its own incoming direction works
                // and ends when the peer drops its sink.
                bound[1 - r] = Some(b + slack);
            }
        }
    }
    // A fault that fired late (e.g. on a ping frame shortly before the horizon) is judged only
    // after its own bound has passed.
    if let Some(need) = bound.iter().flatten().max().copied() {
        let now = link.now_ms();
        if need >= now {
            tokio::time::sleep(std::time::Duration::from_millis(need - now + 100)).await;
        }
    }
    let rd = run_done.lock().unwrap().clone();
    let mut term_ms: [Option<u64>; 2] = [None, None];
    for e in 0..2usize {
        match (&rd[e], bound[e]) {
            (Some((t, res)), _) => {
                term_ms[e] = Some(*t);
                if res == "Ok" {
                    out.fails.push(("C06/ok-after-fault".into(), format!("dispatcher {e} returned Ok(()) although the transport failed ({:?}) while ports and clients were alive", case.fault)));
                }
                if let Some(b) = bound[e] {
                    if *t > b {
                        out.fails.push((
                            "C06/late-termination".into(),
                            format!("dispatcher {e} terminated with {res} at {t} ms, fault {:?} became active at {t_fault} ms, bound {b} ms (timeouts {:?}/{:?})", case.fault, ta, tb),
                        ));
                    }
                }
            }
            (None, Some(b)) => out.fails.push((
                "C06/dispatcher-does-not-terminate".into(),
                format!("dispatcher {e} still running at {} ms; fault {:?} became active at {t_fault} ms, it must have terminated by {b} ms (timeouts {:?}/{:?})", link.now_ms(), case.fault, ta, tb),
            )),
            (None, None) => {}
        }
    }
    // Every API future of a terminated endpoint completes with an error shortly after.
    let r = recs.lock().unwrap().clone();
    if std::env::var("VERIF_DEBUG").is_ok() {
        eprintln!("t_fault {t_fault} term {term_ms:?} run {rd:?}");
        for op in &r {
            eprintln!("  {op:?}");
        }
    }
    for op in &r {
        let e = op.side as usize;
        let started_before = true;
        let _ = started_before;
        if let Some(tm) = term_ms[e] {
            match op.done_ms {
                None => out.fails.push((
                    format!("C06/op-hangs/{}", op.name),
                    format!("{} on endpoint {e} still pending at {} ms although its dispatcher terminated at {tm} ms after fault {:?}", op.name, link.now_ms(), case.fault),
                )),
                Some(d) => {
                    if d > tm.max(op.start_ms) + 5_000 && d > t_fault {
                        out.fails.push((format!("C06/op-late/{}", op.name), format!("{} completed {} ms after its dispatcher terminated", op.name, d - tm)));
                    }
                    if d >= tm && op.result == "ok-none" && op.name != "listener-accept-idle" {
                        out.fails.push((
                            format!("C06/clean-eos-after-failure/{}", op.name),
                            format!("{} reported a clean end of stream after the connection failed ({:?})", op.name, case.fault),
                        ));
                    }
                }
            }
            if op.done_ms.map(|d| d > t_fault).unwrap_or(true) {
                out.pending_at_fault += 1;
            }
        }
    }
    // New operations on a terminated endpoint fail.
    if term_ms[0].is_some() {
        match sim::within(60, client_a.connect()).await {
            Ok(Err(_)) => {}
            Ok(Ok(_)) => out.fails.push(("C06/new-op-succeeds".into(), "connect on a terminated endpoint succeeded".into())),
            Err(()) => out.fails.push(("C06/op-hangs/new-connect".into(), "connect issued after termination hangs".into())),
        }
    }
    if term_ms[1].is_some() {
        match sim::within(60, client_b.connect()).await {
            Ok(Err(_)) => {}
            Ok(Ok(_)) => out.fails.push(("C06/new-op-succeeds".into(), "connect on a terminated endpoint succeeded".into())),
            Err(()) => out.fails.push(("C06/op-hangs/new-connect".into(), "connect issued after termination hangs".into())),
        }
    }
    // Prefix: what was received is a prefix of what was sent.
    let s = sent.lock().unwrap();
    let rcv = received.lock().unwrap();
    for (i, b) in rcv.iter().enumerate() {
        // The message being sent when the fault hit may have been delivered without its send returning.
        let expect = if i < s.len() { Some(s[i].clone()) } else if i == s.len() { Some(payload(i as u32, if i % 2 == 0 { w.big_len as usize } else { 3 })) } else { None };
        if expect.as_ref() != Some(b) {
            out.fails.push(("C06/not-a-prefix".into(), format!("received message {i} ({} bytes) is not the {i}-th sent message", b.len())));
            break;
        }
    }
    drop(keep);
    out
}

pub fn run_case(case: &Case) -> Outcome {
    let tape = case.sched.tape();
    let res = sim::run_sim(case.sched.tokio_seed, &tape, case.sched.defer, execute(case, vec![case.fault]));
    let mut out = Outcome::default();
    out.frames = (res.frames[0] + res.frames[1]) as u64;
    if let Some((s, m)) = res.fails.first() {
        out.fail(s.clone(), m.clone());
    }
    out.class(format!("{:?}", case.fault.kind));
    if res.during_handshake {
        out.class("fault-in-handshake");
    }
    if !res.fault_hit {
        out.class("fault-beyond-workload");
    }
    out.nontrivial = res.fault_hit && (res.pending_at_fault >= 1 || res.during_handshake);
    out
}

/// Exhaustive fault points for one workload: every frame index of both directions x every kind.
pub fn enumerate(w: &Workload) -> Vec<Case> {
    // Pilot run without fault to count frames.
    let pilot = Case { w: w.clone(), fault: Fault { dir: 0, after: u32::MAX, kind: FaultKind::Eof }, sched: Sched::plain() };
    let tape = pilot.sched.tape();
    let res = sim::run_sim(0, &tape, 0, execute(&pilot, vec![]));
    let mut cases = Vec::new();
    for dir in 0..2u8 {
        let n = res.frames[dir as usize].min(160) + 2;
        for after in 0..n {
            for kind in [FaultKind::SinkError, FaultKind::StreamError, FaultKind::Eof, FaultKind::Stall, FaultKind::StallOneWay] {
                cases.push(Case { w: w.clone(), fault: Fault { dir, after, kind }, sched: Sched::plain() });
            }
        }
    }
    cases
}

// ---------------------------------------------------------------------------------------------
// Idle but healthy connections are never torn down.
// ---------------------------------------------------------------------------------------------

#[derive(Clone, Debug, Serialize, Deserialize, PartialEq, Eq, Hash)]
pub struct IdleCase {
    pub timeout_a: u32,
    pub timeout_b: u32,
    /// Idle period in virtual seconds.
    pub idle_s: u32,
    /// Transport delivers frames only after a flush (buffering writer).
    pub flush_required: bool,
    pub sched: Sched,
}

pub fn idle_strategy() -> BoxedStrategy<IdleCase> {
    (
        prop_oneof![Just(5u32), Just(60u32), Just(1u32), Just(600u32)],
        prop_oneof![Just(5u32), Just(60u32), Just(2u32), Just(300u32)],
        prop_oneof![10u32..=36_000, Just(36_000u32)],
        any::<bool>(),
        sched(true),
    )
        .prop_map(|(timeout_a, timeout_b, idle_s, flush_required, sched)| IdleCase { timeout_a, timeout_b, idle_s, flush_required, sched })
        .boxed()
}

pub async fn execute_idle(case: &IdleCase) -> Vec<(String, String)> {
    let mut fails = Vec::new();
    let w = Workload { timeout_a: Some(case.timeout_a), timeout_b: Some(case.timeout_b), chunk: 16, buffer: 64, big_len: 10, typed: false };
    let cfg_a = cfg_of(&w, w.timeout_a);
    let cfg_b = cfg_of(&w, w.timeout_b);
    let cap = gen::delay_cap_ms(&cfg_a, &cfg_b);
    let (link, ea, eb) = make_link(&case.sched, cap, vec![]);
    link.set_flush_required(case.flush_required);
    let hs = sim::within(600, async { tokio::join!(ChMux::new(cfg_a.to_cfg(), ea.sink, ea.stream), ChMux::new(cfg_b.to_cfg(), eb.sink, eb.stream)) }).await;
    let ((mux_a, client_a, _la), (mux_b, _cb, mut lb)) = match hs {
        Ok((Ok(a), Ok(b))) => (a, b),
        other => {
            fails.push(("C06/idle-setup".into(), format!("handshake on a healthy link failed: {:?}", other.map(|(a, b)| (a.err().map(|e| e.to_string()), b.err().map(|e| e.to_string())))),));
            return fails;
        }
    };
    let ra = spawn_actor(mux_a.run());
    let rb = spawn_actor(mux_b.run());
    let echo = |tag: &'static str| (tag, ());
    let _ = echo;
    let open = sim::within(600, async { tokio::join!(client_a.connect(), lb.accept()) }).await;
    let ((mut tx, _rx_a), (_tx_b, mut rx)) = match open {
        Ok((Ok(c), Ok(Some(l)))) => (c, l),
        _ => {
            fails.push(("C06/idle-setup".into(), "opening a port on a healthy link failed".into()));
            return fails;
        }
    };
    for round in 0..2 {
        let r = sim::within(600, async { tokio::join!(tx.send(Bytes::from_static(b"hello")), rx.recv()) }).await;
        match r {
            Ok((Ok(()), Ok(Some(_)))) => {}
            other => {
                fails.push((
                    "C06/idle-torn-down".into(),
                    format!(
                        "echo in round {round} failed on an idle but healthy connection (timeouts {}/{} s, idle {} s, flush_required {}): {:?}; dispatcher A finished: {}, B finished: {}",
                        case.timeout_a,
                        case.timeout_b,
                        case.idle_s,
                        case.flush_required,
                        other.map(|(a, b)| (a.err().map(|e| e.to_string()), b.map(|o| o.map(|_| ())).err().map(|e| e.to_string()))),
                        ra.is_finished(),
                        rb.is_finished()
                    ),
                ));
                return fails;
            }
        }
        if round == 0 {
            tokio::time::sleep(std::time::Duration::from_secs(case.idle_s as u64)).await;
            if ra.is_finished() || rb.is_finished() {
                fails.push((
                    "C06/idle-torn-down".into(),
                    format!(
                        "a dispatcher terminated during {} s of idleness on a healthy connection (timeouts {}/{} s, flush_required {})",
                        case.idle_s, case.timeout_a, case.timeout_b, case.flush_required
                    ),
                ));
                return fails;
            }
        }
    }
    fails
}

pub fn run_idle(case: &IdleCase) -> Outcome {
    let tape = case.sched.tape();
    let fails = sim::run_sim(case.sched.tokio_seed, &tape, case.sched.defer, execute_idle(case));
    let mut out = Outcome::default();
    if let Some((s, m)) = fails.first() {
        out.fail(s.clone(), m.clone());
    }
    out.class(if case.flush_required { "idle:flush-buffered-transport" } else { "idle:immediate-transport" });
    out.nontrivial = case.idle_s as u64 > 2 * case.timeout_a.max(case.timeout_b) as u64;
    out
}

pub const RULE: &str = "part faults: cases = (workload {timeouts of A and B incl. none, chunk/buffer sizes, streamed message size, typed channels on/off}, fault = direction x frame index x kind {sink error, stream error, end of stream, full silence, one-way silence}, schedule); quick = generated, thorough additionally enumerates EVERY (direction, frame index, kind) of several small workloads. The workload keeps pending: a streaming send, a receive loop, a send blocked on credits, Sender::closed, a receive on an idle port, a port batch whose requests are unanswered, an unanswered client connect, an idle listener accept, and (typed) an mpsc receive/send loop and a oneshot receive. Oracles = each dispatcher returns an error no later than the bound derived from the fault kind and the configured timeouts (never Ok), every recorded pending future of a terminated endpoint completes with an error within 5 virtual s (no clean end-of-stream), new operations fail, received data is a prefix of sent data. part idle: generated timeouts (1..600 s), idle periods up to 10 virtual hours, immediate or flush-buffered transport: both dispatchers keep running and an echo works afterwards. non-trivial = the fault became active while at least one API future was pending (or inside the handshake) / the idle period exceeded twice the larger timeout; distinct = distinct case hash";

pub fn main(tier: Tier, seed: u64) -> Report {
    let mut rep = Report::new("C06", tier, seed);
    rep.level = "fault_enumeration".into();
    rep.rule = RULE.into();
    rep.assumptions = vec![
        "with connection_timeout = None and a silent stall nothing is asserted about termination (documented behaviour)".into(),
        "when an endpoint terminates and drops its transport halves the simulated link reports end-of-stream / a broken pipe to the peer, as a socket would, except in the two stall modes".into(),
        "single-threaded deterministic simulation; bounds include a scheduling slack of 2 virtual s plus 8x the largest per-frame delay".into(),
    ];
    let regress: Vec<Case> = runner::load_regress::<Case>("C06", "faults").into_iter().map(|(_, c)| c).collect();
    if !regress.is_empty() {
        runner::run_cases(&mut rep, "regress-faults", regress, run_case);
    }
    let regress: Vec<IdleCase> = runner::load_regress::<IdleCase>("C06", "idle").into_iter().map(|(_, c)| c).collect();
    if !regress.is_empty() {
        runner::run_cases(&mut rep, "regress-idle", regress, run_idle);
    }
    // Exhaustive slice.
    let workloads: Vec<Workload> = match tier {
        Tier::Quick => vec![Workload { timeout_a: Some(5), timeout_b: Some(10), chunk: 16, buffer: 32, big_len: 40, typed: false }],
        Tier::Thorough => vec![
            Workload { timeout_a: Some(5), timeout_b: Some(10), chunk: 16, buffer: 32, big_len: 40, typed: false },
            Workload { timeout_a: Some(60), timeout_b: Some(5), chunk: 4, buffer: 8, big_len: 30, typed: true },
            Workload { timeout_a: None, timeout_b: Some(10), chunk: 16, buffer: 6, big_len: 100, typed: true },
            Workload { timeout_a: Some(5), timeout_b: None, chunk: 4, buffer: 32, big_len: 0, typed: false },
        ],
    };
    let mut enumerated = 0usize;
    for w in &workloads {
        let cases = enumerate(w);
        enumerated += cases.len();
        runner::run_cases(&mut rep, "faults-enumerated", cases, run_case);
    }
    rep.extra.insert("enumerated_fault_points".into(), serde_json::json!(enumerated));
    rep.extra.insert("enumerated_workloads".into(), serde_json::json!(workloads.len()));
    rep.exhaustive = false;
    rep.extra.insert("exhaustive_slice".into(), serde_json::json!("every (direction, frame index <= pilot frame count + 2 (cap 160), fault kind) of the listed workloads under the FIFO schedule"));
    runner::run_generated(&mut rep, "faults", tier.pick(1500, 60_000), || strategy(tier), run_case);
    runner::run_generated(&mut rep, "idle", tier.pick(300, 5_000), idle_strategy, run_idle);
    rep
}

pub fn replay(part: &str, case: serde_json::Value) -> (Option<runner::Failure>, u32, u32) {
    let n = runner::replay_times(3);
    if part.contains("idle") {
        let c: IdleCase = serde_json::from_value(case).expect("replay case does not parse as C06 idle case");
        let (f, h) = runner::replay_case(&c, run_idle, n);
        (f, h, n)
    } else {
        let c: Case = serde_json::from_value(case).expect("replay case does not parse as C06 case");
        let (f, h) = runner::replay_case(&c, run_case, n);
        (f, h, n)
    }
}
