//! C14 — Mirrors and subscriptions never diverge silently.
//!
//! One observable collection (vec, vec_deque, hash_map, hash_set or append-only list) is mutated
//! by a scripted mutator in bursts; 1-3 subscribers join at generated points, locally or through
//! a simulated chmux connection, as mirrors (observed with `borrow`/`borrow_and_update`, guards
//! held for generated times, finally `detach`) or as event-wise subscriptions (`recv` at a
//! generated pace, folded by hand). Buffers are tiny, `max_size` is near the collection size, the
//! observable is dropped with or without `done`, the transport may be cut.
//!
//! The history of the observable (its contents after every emitted event) is recorded; all
//! observations are judged against it after the run.

use proptest::prelude::*;
use serde::{de::DeserializeOwned, Deserialize, Serialize};
use std::{
    collections::{BTreeMap, BTreeSet, HashMap, HashSet, VecDeque},
    future::Future,
    pin::Pin,
    sync::{
        atomic::{AtomicUsize, Ordering},
        Arc, Mutex,
    },
    time::Duration,
};
use tokio::task::JoinHandle;

use crate::engine::{
    gen::{self, sched, GCfg, Sched},
    link::{Fault, FaultKind, SimLink},
    runner::{self, Outcome, Report, Tier},
    sim::{self, spawn_actor},
};
use remoc::{
    chmux::ChMux,
    rch::base,
    robs::{
        hash_map::{HashMapEvent, HashMapSubscription, MirroredHashMap, ObservableHashMap},
        hash_set::{HashSetEvent, HashSetSubscription, MirroredHashSet, ObservableHashSet},
        list::{ListEvent, ListSubscription, MirroredList, ObservableList},
        vec::{MirroredVec, ObservableVec, VecEvent, VecSubscription},
        vec_deque::{MirroredVecDeque, ObservableVecDeque, VecDequeEvent, VecDequeSubscription},
        RecvError,
    },
};

// ---------------------------------------------------------------------------------------------
// Generator exclusions for genuine findings (see REPORT.md). With a constant set to `true` the
// interpreter avoids the trigger so that the search continues past the known finding.
// ---------------------------------------------------------------------------------------------

/// Finding C14/max-size-bypassed (D7): `Insert` and `Resize` events grow a vec / vec_deque mirror
/// past `max_size` without `MaxSizeExceeded`. When `true`, an insert / growing resize that would
/// take the collection past the smallest `max_size` of the mirrors subscribed so far is executed
/// as a push (which the mirrors do check).
pub const EXCLUDE_GROWTH_BY_INSERT_RESIZE_PAST_MAX_SIZE: bool = false;

/// Observation: a non-incremental subscription whose initial snapshot is already larger than
/// `max_size` yields a mirror that reports `Ok` with more than `max_size` elements (the limit is
/// only tested when events are applied). When `true`, `max_size` of a snapshot mirror is raised
/// to the length of the collection at the subscription point.
pub const EXCLUDE_OVERSIZED_INITIAL_SNAPSHOT: bool = true;

/// Finding C14/silent-divergence (list, unserialisable element): a remote list subscriber silently
/// skips an element whose serialisation fails, receives the following elements in its place and is
/// told `InitialComplete` (the mpsc forwarder keeps sending after an item-specific send error).
/// When `true`, no marked (unserialisable) elements are generated for append-only lists.
pub const EXCLUDE_UNSERIALISABLE_LIST_ELEMENTS: bool = true;

// ---------------------------------------------------------------------------------------------
// Element type
// ---------------------------------------------------------------------------------------------

/// Element of every observed collection: a `u32` whose `Serialize` fails for marked values
/// (`value % 100_000 >= BAD_BASE`). Unmarked values serialise exactly like a `u32`, so nothing
/// changes for cases without marked elements. Marked elements only ever occur in the initial
/// contents (`Case::bad_init`); they can be observed locally but cannot be transferred.
#[derive(Clone, Copy, Debug, PartialEq, Eq, Hash, PartialOrd, Ord, Default)]
pub struct El(pub u32);

pub const BAD_BASE: u32 = 50_000;

fn is_bad(v: u32) -> bool {
    v % 100_000 >= BAD_BASE
}

impl Serialize for El {
    fn serialize<S: serde::Serializer>(&self, ser: S) -> Result<S::Ok, S::Error> {
        if is_bad(self.0) {
            Err(<S::Error as serde::ser::Error>::custom(format!("element {} is marked unserialisable", self.0)))
        } else {
            ser.serialize_u32(self.0)
        }
    }
}

impl<'de> Deserialize<'de> for El {
    fn deserialize<D: serde::Deserializer<'de>>(de: D) -> Result<Self, D::Error> {
        u32::deserialize(de).map(El)
    }
}

// ---------------------------------------------------------------------------------------------
// Case
// ---------------------------------------------------------------------------------------------

#[derive(Clone, Copy, Debug, Serialize, Deserialize, PartialEq, Eq, Hash)]
pub enum KindSel {
    Vec,
    Deque,
    Map,
    Set,
    List,
}

/// One mutation of the observable. Selectors are mapped monotonically (`sel % len`).
#[derive(Clone, Debug, Serialize, Deserialize, PartialEq, Eq, Hash)]
pub enum Op {
    Push(u8),
    Pop(u8),
    Insert(u8),
    /// Write through `get_mut` (map: existing key; set: `replace`).
    Set(u8),
    /// `get_mut` without writing: no event.
    Touch(u8),
    Remove(u8),
    SwapRemove(u8),
    Fill,
    Resize(u8),
    Truncate(u8),
    Retain(u8),
    Clear,
    Shrink,
    /// Several pushes / inserts in one go.
    Extend(u8),
    /// `iter_mut`, writing the elements selected by the mask.
    IterMut(u8),
    /// Map entry API (`or_insert`); other kinds: push.
    Entry(u8),
}

#[derive(Clone, Debug, Serialize, Deserialize, PartialEq, Eq, Hash)]
pub struct Step {
    pub op: Op,
    /// Pause code after the op (see `pause`): 0 = none (burst continues).
    pub pause: u8,
}

#[derive(Clone, Debug, Serialize, Deserialize, PartialEq, Eq, Hash)]
pub enum MaxSel {
    Ample,
    /// `max_size` = length at the subscription point + d.
    Near(i8),
}

#[derive(Clone, Debug, Serialize, Deserialize, PartialEq, Eq, Hash)]
pub enum Mode {
    /// `mirror(max_size)`, observed through borrow / borrow_and_update / detach.
    Mirror { max: MaxSel, upd: bool },
    /// Event-wise through `recv`.
    Events,
}

#[derive(Clone, Debug, Serialize, Deserialize, PartialEq, Eq, Hash)]
pub struct SubSpec {
    /// Joins before step `join_at % (steps + 1)`.
    pub join_at: u8,
    pub remote: bool,
    pub incremental: bool,
    pub buffer: u8,
    pub mode: Mode,
    /// Number of paced observations (mirror) / paced receives (events).
    pub n_obs: u8,
    /// Cyclic pause codes before each observation.
    pub pace: Vec<u8>,
    /// Cyclic pause codes for which a borrow guard is held (mirror only); 0 = released at once.
    pub hold: Vec<u8>,
}

#[derive(Clone, Copy, Debug, Serialize, Deserialize, PartialEq, Eq, Hash)]
pub enum End {
    /// `done()`, observable kept alive.
    Done,
    /// `done()`, then dropped.
    DoneDrop,
    /// Dropped without `done()`.
    Drop,
    /// Neither: stays alive, not done.
    Keep,
}

#[derive(Clone, Debug, Serialize, Deserialize, PartialEq, Eq, Hash)]
pub struct FaultSpec {
    pub dir: u8,
    /// Frames of that direction after the subscription channel was set up.
    pub after: u16,
    pub kind: FaultKind,
}

#[derive(Clone, Debug, Serialize, Deserialize, PartialEq, Eq, Hash)]
pub struct Case {
    pub kind: KindSel,
    /// Initial number of elements.
    pub init: u8,
    pub steps: Vec<Step>,
    pub subs: Vec<SubSpec>,
    pub end: End,
    pub fault: Option<FaultSpec>,
    /// Connection timeout 60 s (keep-alive pings) or none.
    pub timeout: bool,
    /// Connection configuration preset.
    pub cfg: u8,
    pub sched: Sched,
    /// Do not avoid the trigger of finding C14/max-size-bypassed (insert / resize growth past
    /// `max_size`). Generated as `!EXCLUDE_GROWTH_BY_INSERT_RESIZE_PAST_MAX_SIZE`; replay files of
    /// the finding carry `true`.
    #[serde(default)]
    pub allow_growth_bypass: bool,
    /// Do not avoid snapshots larger than `max_size` (generated as `!EXCLUDE_OVERSIZED_INITIAL_SNAPSHOT`).
    #[serde(default)]
    pub allow_oversized_snapshot: bool,
    /// Bit i set: initial element i is marked unserialisable (its `Serialize` fails), so the
    /// initial value cannot be transferred to a remote subscriber while that element is present.
    #[serde(default)]
    pub bad_init: u8,
}

fn pause_code() -> BoxedStrategy<u8> {
    prop_oneof![6 => Just(0u8), 2 => 1u8..=8, 1 => 9u8..=11].boxed()
}

fn op_strategy() -> BoxedStrategy<Op> {
    prop_oneof![
        6 => any::<u8>().prop_map(Op::Push),
        2 => any::<u8>().prop_map(Op::Pop),
        2 => any::<u8>().prop_map(Op::Insert),
        2 => any::<u8>().prop_map(Op::Set),
        1 => any::<u8>().prop_map(Op::Touch),
        1 => any::<u8>().prop_map(Op::Remove),
        1 => any::<u8>().prop_map(Op::SwapRemove),
        1 => Just(Op::Fill),
        1 => any::<u8>().prop_map(Op::Resize),
        1 => any::<u8>().prop_map(Op::Truncate),
        1 => any::<u8>().prop_map(Op::Retain),
        1 => Just(Op::Clear),
        1 => Just(Op::Shrink),
        2 => any::<u8>().prop_map(Op::Extend),
        1 => any::<u8>().prop_map(Op::IterMut),
        1 => any::<u8>().prop_map(Op::Entry),
    ]
    .boxed()
}

fn sub_strategy() -> BoxedStrategy<SubSpec> {
    (
        prop_oneof![2 => Just(0u8), 3 => any::<u8>()],
        any::<bool>(),
        any::<bool>(),
        prop_oneof![5 => 1u8..=4, 1 => Just(8u8), 1 => Just(64u8)],
        prop_oneof![
            2 => any::<bool>().prop_map(|upd| Mode::Mirror { max: MaxSel::Ample, upd }),
            3 => (-1i8..=4, any::<bool>()).prop_map(|(d, upd)| Mode::Mirror { max: MaxSel::Near(d), upd }),
            3 => Just(Mode::Events),
        ],
        0u8..=12,
        proptest::collection::vec(prop_oneof![2 => Just(0u8), 2 => 1u8..=8, 2 => 9u8..=12], 1..6),
        proptest::collection::vec(prop_oneof![3 => Just(0u8), 1 => 1u8..=8, 2 => 9u8..=12], 1..4),
    )
        .prop_map(|(join_at, remote, incremental, buffer, mode, n_obs, pace, hold)| SubSpec {
            join_at,
            remote,
            incremental,
            buffer,
            mode,
            n_obs,
            pace,
            hold,
        })
        .boxed()
}

pub fn strategy(tier: Tier) -> BoxedStrategy<Case> {
    let max_steps = tier.pick(28usize, 40usize);
    (
        prop_oneof![
            3 => Just(KindSel::Vec),
            2 => Just(KindSel::Deque),
            2 => Just(KindSel::Map),
            1 => Just(KindSel::Set),
            2 => Just(KindSel::List),
        ],
        0u8..=6,
        proptest::collection::vec((op_strategy(), pause_code()).prop_map(|(op, pause)| Step { op, pause }), 0..=max_steps),
        proptest::collection::vec(sub_strategy(), 1..=3),
        prop_oneof![2 => Just(End::Done), 2 => Just(End::DoneDrop), 3 => Just(End::Drop), 1 => Just(End::Keep)],
        prop_oneof![
            3 => Just(None),
            2 => (0u8..=1, 0u16..=60, prop_oneof![
                Just(FaultKind::SinkError), Just(FaultKind::StreamError), Just(FaultKind::Eof), Just(FaultKind::Stall)
            ]).prop_map(|(dir, after, kind)| Some(FaultSpec { dir, after, kind })),
        ],
        any::<bool>(),
        0u8..=2,
        sched(true),
        prop_oneof![5 => Just(0u8), 1 => (0u8..6).prop_map(|i| 1u8 << i), 1 => any::<u8>()],
    )
        .prop_map(|(kind, init, steps, subs, end, fault, timeout, cfg, sched, bad_init)| {
            // Development knob: C14_INCLUDE_KNOWN=1 searches with the known triggers included.
            let include_known = std::env::var("C14_INCLUDE_KNOWN").is_ok();
            // Development knob: C14_ONLY_KIND=Vec|Deque|Map|Set|List restricts the collection kind.
            let kind = match std::env::var("C14_ONLY_KIND").ok().as_deref() {
                Some("Vec") => KindSel::Vec,
                Some("Deque") => KindSel::Deque,
                Some("Map") => KindSel::Map,
                Some("Set") => KindSel::Set,
                Some("List") => KindSel::List,
                _ => kind,
            };
            let mut bad_init = bad_init & ((1u16 << init) - 1) as u8;
            if kind == KindSel::List && EXCLUDE_UNSERIALISABLE_LIST_ELEMENTS && !include_known {
                bad_init = 0;
            }
            Case {
                kind,
                init,
                bad_init,
                steps,
                subs,
                end,
                fault,
                timeout,
                cfg,
                sched,
                allow_growth_bypass: !EXCLUDE_GROWTH_BY_INSERT_RESIZE_PAST_MAX_SIZE || include_known,
                allow_oversized_snapshot: !EXCLUDE_OVERSIZED_INITIAL_SNAPSHOT || include_known,
            }
        })
        .boxed()
}

// ---------------------------------------------------------------------------------------------
// Collection kinds
// ---------------------------------------------------------------------------------------------

/// Canonical contents: sequences as they are, sets sorted, maps as sorted `key * 100_000 + value`.
pub type Snap = Vec<u32>;

type BF<'a, T> = Pin<Box<dyn Future<Output = T> + Send + 'a>>;

trait Held: Send {}
impl<T: Send> Held for T {}

#[derive(Clone, Debug)]
struct View {
    snap: Snap,
    complete: bool,
    done: bool,
}

type Borrowed<'a> = Result<(View, Box<dyn Held + 'a>), RecvError>;

enum Folded {
    Applied,
    Complete,
    Done,
    Invalid(String),
}

/// State of the interpreter of the mutation script.
struct Ctx {
    /// Next fresh element value (every new value is unique, so states are distinctive).
    fresh: u32,
    /// Smallest `max_size` of the mirrors subscribed so far.
    grow_cap: Option<usize>,
    /// Growth past `grow_cap` by insert / resize is executed as a push.
    avoid_growth_bypass: bool,
    /// Contents after every (potential) event; index 0 = initial contents.
    hist: Vec<Snap>,
}

impl Ctx {
    fn next(&mut self) -> u32 {
        self.fresh += 1;
        self.fresh
    }
    /// Whether growth by one element through insert / resize must be avoided.
    fn capped(&self, new_len: usize) -> bool {
        self.avoid_growth_bypass && self.grow_cap.is_some_and(|c| new_len > c)
    }
}

trait Kind: Sized + Send + Sync + 'static {
    const NAME: &'static str;
    const IS_LIST: bool = false;
    type Obs: Send + 'static;
    type Sub: Serialize + DeserializeOwned + Send + 'static;
    type Mir: Send + Sync + 'static;
    type Ev: std::fmt::Debug + Send + 'static;

    fn new(init: Vec<u32>) -> Self::Obs;
    fn snap(o: &Self::Obs) -> Snap;
    /// Applies the op; pushes the contents after every event the op may emit onto `ctx.hist`.
    fn apply(o: &mut Self::Obs, op: &Op, ctx: &mut Ctx);
    fn subscribe(o: &Self::Obs, buffer: usize, incremental: bool) -> Self::Sub;
    fn done(o: &mut Self::Obs);
    fn take_initial(s: &mut Self::Sub) -> Option<Snap>;
    fn recv(s: &mut Self::Sub) -> BF<'_, Result<Option<Self::Ev>, RecvError>>;
    fn mirror(s: Self::Sub, max_size: usize) -> Self::Mir;
    fn borrow(m: &Self::Mir) -> BF<'_, Borrowed<'_>>;
    fn borrow_upd(m: &mut Self::Mir) -> BF<'_, Borrowed<'_>>;
    fn detach(m: Self::Mir) -> BF<'static, Snap>;
    /// Reference interpreter of the documented event semantics.
    fn fold(state: &mut Snap, ev: &Self::Ev) -> Folded;
}

#[allow(clippy::ptr_arg)]
fn snap_vec(v: &Vec<El>) -> Snap {
    v.iter().map(|e| e.0).collect()
}
fn snap_deque(v: &VecDeque<El>) -> Snap {
    v.iter().map(|e| e.0).collect()
}
fn snap_map(m: &HashMap<u32, El>) -> Snap {
    let mut v: Vec<u32> = m.iter().map(|(k, v)| k * 100_000 + v.0).collect();
    v.sort_unstable();
    v
}
fn snap_set(s: &HashSet<El>) -> Snap {
    let mut v: Vec<u32> = s.iter().map(|e| e.0).collect();
    v.sort_unstable();
    v
}
fn els(v: Vec<u32>) -> Vec<El> {
    v.into_iter().map(El).collect()
}

macro_rules! common_kind_fns {
    ($snapfn:ident) => {
        fn subscribe(o: &Self::Obs, buffer: usize, incremental: bool) -> Self::Sub {
            if incremental {
                o.subscribe_incremental(buffer)
            } else {
                o.subscribe(buffer)
            }
        }
        fn done(o: &mut Self::Obs) {
            o.done()
        }
        fn take_initial(s: &mut Self::Sub) -> Option<Snap> {
            s.take_initial().map(|v| $snapfn(&v))
        }
        fn recv(s: &mut Self::Sub) -> BF<'_, Result<Option<Self::Ev>, RecvError>> {
            Box::pin(s.recv())
        }
        fn mirror(s: Self::Sub, max_size: usize) -> Self::Mir {
            s.mirror(max_size)
        }
        fn borrow(m: &Self::Mir) -> BF<'_, Borrowed<'_>> {
            Box::pin(async move {
                let r = m.borrow().await?;
                let v = View { snap: $snapfn(&r), complete: r.is_complete(), done: r.is_done() };
                Ok((v, Box::new(r) as Box<dyn Held + '_>))
            })
        }
        fn borrow_upd(m: &mut Self::Mir) -> BF<'_, Borrowed<'_>> {
            Box::pin(async move {
                let r = m.borrow_and_update().await?;
                let v = View { snap: $snapfn(&r), complete: r.is_complete(), done: r.is_done() };
                Ok((v, Box::new(r) as Box<dyn Held + '_>))
            })
        }
        fn detach(m: Self::Mir) -> BF<'static, Snap> {
            Box::pin(async move { $snapfn(&m.detach().await) })
        }
    };
}

// ---- vec ------------------------------------------------------------------------------------

struct VecK;

impl Kind for VecK {
    const NAME: &'static str = "vec";
    type Obs = ObservableVec<El>;
    type Sub = VecSubscription<El>;
    type Mir = MirroredVec<El>;
    type Ev = VecEvent<El>;

    fn new(init: Vec<u32>) -> Self::Obs {
        ObservableVec::from(els(init))
    }
    fn snap(o: &Self::Obs) -> Snap {
        snap_vec(o)
    }
    fn apply(o: &mut Self::Obs, op: &Op, ctx: &mut Ctx) {
        let len = o.len();
        match op {
            Op::Push(_) | Op::Entry(_) => o.push(El(ctx.next())),
            Op::Pop(_) => {
                o.pop();
            }
            Op::Insert(s) => {
                let v = El(ctx.next());
                if ctx.capped(len + 1) {
                    o.push(v)
                } else {
                    o.insert(*s as usize % (len + 1), v)
                }
            }
            Op::Set(s) => {
                if len > 0 {
                    let v = El(ctx.next());
                    *o.get_mut(*s as usize % len).unwrap() = v;
                }
            }
            Op::Touch(s) => {
                if len > 0 {
                    let r = o.get_mut(*s as usize % len).unwrap();
                    let _x: El = *r;
                }
            }
            Op::Remove(s) => {
                if len > 0 {
                    o.remove(*s as usize % len);
                }
            }
            Op::SwapRemove(s) => {
                if len > 0 {
                    o.swap_remove(*s as usize % len);
                }
            }
            Op::Fill => o.fill(El(ctx.next())),
            Op::Resize(n) => {
                let new_len = *n as usize % 10;
                let v = El(ctx.next());
                if new_len > len && ctx.capped(new_len) {
                    o.push(v)
                } else {
                    o.resize(new_len, v)
                }
            }
            Op::Truncate(n) => o.truncate(*n as usize % (len + 2)),
            Op::Retain(m) => {
                let m = *m as u32;
                o.retain(|x| (x.0 + m) % 3 != 0)
            }
            Op::Clear => o.clear(),
            Op::Shrink => o.shrink_to_fit(),
            Op::Extend(n) => {
                for _ in 0..(*n % 4 + 1) {
                    o.push(El(ctx.next()));
                    ctx.hist.push(snap_vec(o));
                }
            }
            Op::IterMut(mask) => {
                let mut model: Vec<u32> = snap_vec(o);
                for (i, mut r) in o.iter_mut().enumerate() {
                    if (mask >> (i % 8)) & 1 == 1 {
                        let v = ctx.next();
                        *r = El(v);
                        model[i] = v;
                        ctx.hist.push(model.clone());
                    }
                }
            }
        }
        ctx.hist.push(snap_vec(o));
    }
    common_kind_fns!(snap_vec);

    fn fold(st: &mut Snap, ev: &Self::Ev) -> Folded {
        match ev {
            VecEvent::Push(v) => st.push(v.0),
            VecEvent::Pop => {
                st.pop();
            }
            VecEvent::Insert(i, v) => {
                if *i > st.len() {
                    return Folded::Invalid(format!("Insert({i}) into {} elements", st.len()));
                }
                st.insert(*i, v.0)
            }
            VecEvent::Set(i, v) => {
                if *i >= st.len() {
                    return Folded::Invalid(format!("Set({i}) with {} elements", st.len()));
                }
                st[*i] = v.0
            }
            VecEvent::Remove(i) => {
                if *i >= st.len() {
                    return Folded::Invalid(format!("Remove({i}) with {} elements", st.len()));
                }
                st.remove(*i);
            }
            VecEvent::SwapRemove(i) => {
                if *i >= st.len() {
                    return Folded::Invalid(format!("SwapRemove({i}) with {} elements", st.len()));
                }
                st.swap_remove(*i);
            }
            VecEvent::Fill(v) => st.iter_mut().for_each(|x| *x = v.0),
            VecEvent::Resize(l, v) => st.resize(*l, v.0),
            VecEvent::Truncate(l) => st.truncate(*l),
            VecEvent::Retain(keep) => {
                let mut pos = 0;
                st.retain(|_| {
                    let k = keep.contains(&pos);
                    pos += 1;
                    k
                })
            }
            VecEvent::RetainNot(rm) => {
                let mut pos = 0;
                st.retain(|_| {
                    let k = !rm.contains(&pos);
                    pos += 1;
                    k
                })
            }
            VecEvent::Clear => st.clear(),
            VecEvent::ShrinkToFit => {}
            VecEvent::Done => return Folded::Done,
            VecEvent::InitialComplete => return Folded::Complete,
        }
        Folded::Applied
    }
}

// ---- vec_deque ------------------------------------------------------------------------------

struct DequeK;

impl Kind for DequeK {
    const NAME: &'static str = "vec_deque";
    type Obs = ObservableVecDeque<El>;
    type Sub = VecDequeSubscription<El>;
    type Mir = MirroredVecDeque<El>;
    type Ev = VecDequeEvent<El>;

    fn new(init: Vec<u32>) -> Self::Obs {
        ObservableVecDeque::from(VecDeque::from(els(init)))
    }
    fn snap(o: &Self::Obs) -> Snap {
        snap_deque(o)
    }
    fn apply(o: &mut Self::Obs, op: &Op, ctx: &mut Ctx) {
        let len = o.len();
        match op {
            Op::Push(s) | Op::Entry(s) => {
                if s & 1 == 0 {
                    o.push_back(El(ctx.next()))
                } else {
                    o.push_front(El(ctx.next()))
                }
            }
            Op::Pop(s) => {
                if s & 1 == 0 {
                    o.pop_back();
                } else {
                    o.pop_front();
                }
            }
            Op::Insert(s) => {
                let v = El(ctx.next());
                if ctx.capped(len + 1) {
                    o.push_back(v)
                } else {
                    o.insert(*s as usize % (len + 1), v)
                }
            }
            Op::Set(s) => {
                if len > 0 {
                    let v = El(ctx.next());
                    *o.get_mut(*s as usize % len).unwrap() = v;
                }
            }
            Op::Touch(s) => {
                if len > 0 {
                    let r = o.get_mut(*s as usize % len).unwrap();
                    let _x: El = *r;
                }
            }
            Op::Remove(s) => {
                // Also exercises the out-of-range variant (returns None, no event).
                o.remove(*s as usize % (len + 1));
            }
            Op::SwapRemove(s) => {
                let i = (*s >> 1) as usize % (len + 1);
                if s & 1 == 0 {
                    o.swap_remove_back(i);
                } else {
                    o.swap_remove_front(i);
                }
            }
            Op::Fill => {
                // No fill on a deque: rewrite the first element.
                if len > 0 {
                    let v = El(ctx.next());
                    *o.get_mut(0).unwrap() = v;
                }
            }
            Op::Resize(n) => {
                let new_len = *n as usize % 10;
                let v = El(ctx.next());
                if new_len > len && ctx.capped(new_len) {
                    o.push_back(v)
                } else {
                    o.resize(new_len, v)
                }
            }
            Op::Truncate(n) => o.truncate(*n as usize % (len + 2)),
            Op::Retain(m) => {
                let m = *m as u32;
                o.retain(|x| (x.0 + m) % 3 != 0)
            }
            Op::Clear => o.clear(),
            Op::Shrink => o.shrink_to_fit(),
            Op::Extend(n) => {
                for _ in 0..(*n % 4 + 1) {
                    o.push_back(El(ctx.next()));
                    ctx.hist.push(snap_deque(o));
                }
            }
            Op::IterMut(mask) => {
                let mut model: Vec<u32> = snap_deque(o);
                for (i, mut r) in o.iter_mut().enumerate() {
                    if (mask >> (i % 8)) & 1 == 1 {
                        let v = ctx.next();
                        *r = El(v);
                        model[i] = v;
                        ctx.hist.push(model.clone());
                    }
                }
            }
        }
        ctx.hist.push(snap_deque(o));
    }
    common_kind_fns!(snap_deque);

    fn fold(st: &mut Snap, ev: &Self::Ev) -> Folded {
        match ev {
            VecDequeEvent::PushBack(v) => st.push(v.0),
            VecDequeEvent::PushFront(v) => st.insert(0, v.0),
            VecDequeEvent::PopBack => {
                st.pop();
            }
            VecDequeEvent::PopFront => {
                if !st.is_empty() {
                    st.remove(0);
                }
            }
            VecDequeEvent::Insert(i, v) => {
                if *i > st.len() {
                    return Folded::Invalid(format!("Insert({i}) into {} elements", st.len()));
                }
                st.insert(*i, v.0)
            }
            VecDequeEvent::Set(i, v) => {
                if *i >= st.len() {
                    return Folded::Invalid(format!("Set({i}) with {} elements", st.len()));
                }
                st[*i] = v.0
            }
            VecDequeEvent::Remove(i) => {
                if *i >= st.len() {
                    return Folded::Invalid(format!("Remove({i}) with {} elements", st.len()));
                }
                st.remove(*i);
            }
            VecDequeEvent::SwapRemoveBack(i) => {
                if *i >= st.len() {
                    return Folded::Invalid(format!("SwapRemoveBack({i}) with {} elements", st.len()));
                }
                st.swap_remove(*i);
            }
            VecDequeEvent::SwapRemoveFront(i) => {
                if *i >= st.len() {
                    return Folded::Invalid(format!("SwapRemoveFront({i}) with {} elements", st.len()));
                }
                st.swap(0, *i);
                st.remove(0);
            }
            VecDequeEvent::Resize(l, v) => st.resize(*l, v.0),
            VecDequeEvent::Truncate(l) => st.truncate(*l),
            VecDequeEvent::Retain(keep) => {
                let mut pos = 0;
                st.retain(|_| {
                    let k = keep.contains(&pos);
                    pos += 1;
                    k
                })
            }
            VecDequeEvent::RetainNot(rm) => {
                let mut pos = 0;
                st.retain(|_| {
                    let k = !rm.contains(&pos);
                    pos += 1;
                    k
                })
            }
            VecDequeEvent::Clear => st.clear(),
            VecDequeEvent::ShrinkToFit => {}
            VecDequeEvent::Done => return Folded::Done,
            VecDequeEvent::InitialComplete => return Folded::Complete,
        }
        Folded::Applied
    }
}

// ---- hash_map -------------------------------------------------------------------------------

struct MapK;

const MAP_KEYS: u32 = 8;

fn map_from_snap(st: &Snap) -> BTreeMap<u32, u32> {
    st.iter().map(|x| (x / 100_000, x % 100_000)).collect()
}
fn snap_from_btree(m: &BTreeMap<u32, u32>) -> Snap {
    m.iter().map(|(k, v)| k * 100_000 + v).collect()
}

impl Kind for MapK {
    const NAME: &'static str = "hash_map";
    type Obs = ObservableHashMap<u32, El>;
    type Sub = HashMapSubscription<u32, El>;
    type Mir = MirroredHashMap<u32, El>;
    type Ev = HashMapEvent<u32, El>;

    fn new(init: Vec<u32>) -> Self::Obs {
        let hm: HashMap<u32, El> = init.into_iter().enumerate().map(|(i, v)| (i as u32, El(v))).collect();
        ObservableHashMap::from(hm)
    }
    fn snap(o: &Self::Obs) -> Snap {
        snap_map(o)
    }
    fn apply(o: &mut Self::Obs, op: &Op, ctx: &mut Ctx) {
        match op {
            Op::Push(s) | Op::Insert(s) => {
                o.insert(*s as u32 % MAP_KEYS, El(ctx.next()));
            }
            Op::Pop(s) | Op::Remove(s) | Op::SwapRemove(s) | Op::Truncate(s) | Op::Resize(s) => {
                o.remove(&(*s as u32 % MAP_KEYS));
            }
            Op::Set(s) => {
                let v = El(ctx.next());
                if let Some(mut r) = o.get_mut(&(*s as u32 % MAP_KEYS)) {
                    *r = v;
                }
            }
            Op::Touch(s) => {
                if let Some(r) = o.get_mut(&(*s as u32 % MAP_KEYS)) {
                    let _x: El = *r;
                }
            }
            Op::Entry(s) => {
                let v = El(ctx.next());
                let _r = o.entry(*s as u32 % MAP_KEYS).or_insert(v);
            }
            Op::Retain(m) => {
                // One Remove event per removed entry, in iteration order: record every
                // intermediate state from inside the predicate.
                let m = *m as u32;
                let mut model: BTreeMap<u32, u32> = o.iter().map(|(k, v)| (*k, v.0)).collect();
                let hist = &mut ctx.hist;
                o.retain(|k, v| {
                    let keep = (v.0 + m) % 3 != 0;
                    if !keep {
                        model.remove(k);
                        hist.push(snap_from_btree(&model));
                    }
                    keep
                });
            }
            Op::Clear => o.clear(),
            Op::Shrink | Op::Fill => o.shrink_to_fit(),
            Op::Extend(n) => {
                for j in 0..(*n % 4 + 1) {
                    o.insert((*n as u32 / 4 + j as u32) % MAP_KEYS, El(ctx.next()));
                    ctx.hist.push(snap_map(o));
                }
            }
            Op::IterMut(mask) => {
                // Values are unique, so the written entry is identified by its old value.
                let mut model: BTreeMap<u32, u32> = o.iter().map(|(k, v)| (*k, v.0)).collect();
                for mut r in o.iter_mut() {
                    let old: u32 = r.0;
                    let key = model.iter().find(|(_, v)| **v == old).map(|(k, _)| *k);
                    if let Some(k) = key {
                        if (mask >> (k % 8)) & 1 == 1 {
                            let v = ctx.next();
                            *r = El(v);
                            model.insert(k, v);
                            ctx.hist.push(snap_from_btree(&model));
                        }
                    }
                }
            }
        }
        ctx.hist.push(snap_map(o));
    }
    common_kind_fns!(snap_map);

    fn fold(st: &mut Snap, ev: &Self::Ev) -> Folded {
        let mut m = map_from_snap(st);
        match ev {
            HashMapEvent::Set(k, v) => {
                m.insert(*k, v.0);
            }
            HashMapEvent::Remove(k) => {
                m.remove(k);
            }
            HashMapEvent::Clear => m.clear(),
            HashMapEvent::ShrinkToFit => {}
            HashMapEvent::Done => return Folded::Done,
            HashMapEvent::InitialComplete => return Folded::Complete,
        }
        *st = snap_from_btree(&m);
        Folded::Applied
    }
}

// ---- hash_set -------------------------------------------------------------------------------

struct SetK;

const SET_ELEMS: u32 = 12;

impl Kind for SetK {
    const NAME: &'static str = "hash_set";
    type Obs = ObservableHashSet<El>;
    type Sub = HashSetSubscription<El>;
    type Mir = MirroredHashSet<El>;
    type Ev = HashSetEvent<El>;

    fn new(init: Vec<u32>) -> Self::Obs {
        // Elements of the small domain so that later inserts / removes hit them (marked elements
        // keep their mark).
        let hs: HashSet<El> =
            init.iter().enumerate().map(|(i, v)| El(if is_bad(*v) { BAD_BASE + i as u32 } else { i as u32 })).collect();
        ObservableHashSet::from(hs)
    }
    fn snap(o: &Self::Obs) -> Snap {
        snap_set(o)
    }
    fn apply(o: &mut Self::Obs, op: &Op, ctx: &mut Ctx) {
        match op {
            Op::Push(s) | Op::Insert(s) | Op::Entry(s) => {
                o.insert(El(*s as u32 % SET_ELEMS));
            }
            Op::Set(s) => {
                o.replace(El(*s as u32 % SET_ELEMS));
            }
            Op::Pop(s) | Op::Remove(s) | Op::Truncate(s) | Op::Resize(s) => {
                o.remove(&El(*s as u32 % SET_ELEMS));
            }
            Op::SwapRemove(s) => {
                o.take(&El(*s as u32 % SET_ELEMS));
            }
            Op::Touch(_) => {}
            Op::Retain(m) => {
                let m = *m as u32;
                let mut model: BTreeSet<u32> = o.iter().map(|e| e.0).collect();
                let hist = &mut ctx.hist;
                o.retain(|v| {
                    let keep = (v.0 + m) % 3 != 0;
                    if !keep {
                        model.remove(&v.0);
                        hist.push(model.iter().copied().collect());
                    }
                    keep
                });
            }
            Op::Clear => o.clear(),
            Op::Shrink | Op::Fill | Op::IterMut(_) => o.shrink_to_fit(),
            Op::Extend(n) => {
                for j in 0..(*n % 4 + 1) {
                    o.insert(El((*n as u32 / 4 + j as u32) % SET_ELEMS));
                    ctx.hist.push(snap_set(o));
                }
            }
        }
        ctx.hist.push(snap_set(o));
    }
    common_kind_fns!(snap_set);

    fn fold(st: &mut Snap, ev: &Self::Ev) -> Folded {
        let mut s: BTreeSet<u32> = st.iter().copied().collect();
        match ev {
            HashSetEvent::Set(v) => {
                s.insert(v.0);
            }
            HashSetEvent::Remove(v) => {
                s.remove(&v.0);
            }
            HashSetEvent::Clear => s.clear(),
            HashSetEvent::ShrinkToFit => {}
            HashSetEvent::Done => return Folded::Done,
            HashSetEvent::InitialComplete => return Folded::Complete,
        }
        *st = s.into_iter().collect();
        Folded::Applied
    }
}

// ---- list -----------------------------------------------------------------------------------

struct ListK;

thread_local! {
    /// Objects that outlive the observable of the current case (cleared when the next case starts).
    static KEEP_ALIVE: std::cell::RefCell<Vec<Box<dyn std::any::Any>>> = const { std::cell::RefCell::new(Vec::new()) };
}

impl Kind for ListK {
    const NAME: &'static str = "list";
    const IS_LIST: bool = true;
    /// The observable list and the model of its contents.
    type Obs = (ObservableList<El>, Vec<u32>);
    type Sub = ListSubscription<El>;
    type Mir = MirroredList<El>;
    type Ev = ListEvent<El>;

    fn new(init: Vec<u32>) -> Self::Obs {
        let o = ObservableList::from(els(init.clone()));
        // In half of the cases a distributor handle outlives the list (it is kept until the next
        // case starts): the list's task then stays alive after the list is dropped, and must
        // still release subscribers that have received everything.
        if init.len() % 2 == 0 {
            KEEP_ALIVE.with(|k| k.borrow_mut().push(Box::new(o.distributor())));
        }
        (o, init)
    }
    fn snap(o: &Self::Obs) -> Snap {
        o.1.clone()
    }
    fn apply(o: &mut Self::Obs, op: &Op, ctx: &mut Ctx) {
        match op {
            Op::Push(_) | Op::Insert(_) | Op::Set(_) | Op::Entry(_) | Op::Fill | Op::Resize(_) => {
                let v = ctx.next();
                o.0.push(El(v));
                o.1.push(v);
                ctx.hist.push(o.1.clone());
            }
            Op::Extend(n) => {
                for _ in 0..(*n % 4 + 1) {
                    let v = ctx.next();
                    o.0.push(El(v));
                    o.1.push(v);
                    ctx.hist.push(o.1.clone());
                }
            }
            // Append-only: everything else is a no-op.
            _ => {}
        }
    }
    fn subscribe(o: &Self::Obs, _buffer: usize, _incremental: bool) -> Self::Sub {
        o.0.subscribe()
    }
    fn done(o: &mut Self::Obs) {
        o.0.done()
    }
    fn take_initial(_s: &mut Self::Sub) -> Option<Snap> {
        None
    }
    fn recv(s: &mut Self::Sub) -> BF<'_, Result<Option<Self::Ev>, RecvError>> {
        Box::pin(s.recv())
    }
    fn mirror(s: Self::Sub, max_size: usize) -> Self::Mir {
        s.mirror(max_size)
    }
    fn borrow(m: &Self::Mir) -> BF<'_, Borrowed<'_>> {
        Box::pin(async move {
            let r = m.borrow().await?;
            let v = View { snap: snap_vec(&r), complete: r.is_complete(), done: r.is_done() };
            Ok((v, Box::new(r) as Box<dyn Held + '_>))
        })
    }
    fn borrow_upd(m: &mut Self::Mir) -> BF<'_, Borrowed<'_>> {
        Box::pin(async move {
            let r = m.borrow_and_update().await?;
            let v = View { snap: snap_vec(&r), complete: r.is_complete(), done: r.is_done() };
            Ok((v, Box::new(r) as Box<dyn Held + '_>))
        })
    }
    fn detach(m: Self::Mir) -> BF<'static, Snap> {
        Box::pin(async move { snap_vec(&m.detach().await) })
    }
    fn fold(st: &mut Snap, ev: &Self::Ev) -> Folded {
        match ev {
            ListEvent::Push(v) => {
                st.push(v.0);
                Folded::Applied
            }
            ListEvent::Done => Folded::Done,
            ListEvent::InitialComplete => Folded::Complete,
        }
    }
}

// ---------------------------------------------------------------------------------------------
// Recorded observations
// ---------------------------------------------------------------------------------------------

/// Normalised error of a mirror or subscription.
#[derive(Clone, Debug, PartialEq, Eq)]
enum EK {
    Closed,
    Lagged,
    MaxSize(usize),
    InvalidIndex(usize),
    Remote(String),
}

fn ek(e: &RecvError) -> EK {
    match e {
        RecvError::Closed => EK::Closed,
        RecvError::Lagged => EK::Lagged,
        RecvError::MaxSizeExceeded(n) => EK::MaxSize(*n),
        RecvError::InvalidIndex(i) => EK::InvalidIndex(*i),
        RecvError::RemoteReceive(e) => EK::Remote(format!("RemoteReceive({e})")),
        RecvError::RemoteConnect(e) => EK::Remote(format!("RemoteConnect({e})")),
        RecvError::RemoteListen(e) => EK::Remote(format!("RemoteListen({e})")),
    }
}

#[derive(Clone, Debug)]
enum Ob {
    Ok { view: View, fin: bool },
    Err { e: EK, fin: bool },
}

#[derive(Clone, Debug)]
enum Rv {
    /// An event was received; `state` = hand-folded contents after it.
    Ev { kind: &'static str, state: Snap, dbg: String },
    Invalid { msg: String, dbg: String },
    End,
    Err(EK),
}

#[derive(Clone, Debug, Default)]
struct SubLog {
    /// Subscription was created (the join point was reached).
    subscribed: bool,
    /// The subscriber actor started (a remote subscription arrived).
    started: bool,
    transfer_failed: bool,
    /// Index into the history of the contents at the subscription point.
    sub_point: usize,
    max_size: usize,
    obs: Vec<Ob>,
    detached: Option<Snap>,
    initial: Option<Snap>,
    recvs: Vec<Rv>,
    /// Event subscriber: `recv` was still pending at quiescence.
    pending: bool,
    /// A bounded library call did not return.
    hang: Option<String>,
    /// A timer-paced observation / receive took place.
    paced: bool,
}

struct Shared {
    logs: Vec<Arc<Mutex<SubLog>>>,
    handles: Mutex<Vec<JoinHandle<()>>>,
    /// Actors currently inside a paced phase (they are about to act on their own).
    active: AtomicUsize,
    fin: tokio::sync::watch::Receiver<bool>,
    specs: Vec<SubSpec>,
}

/// Virtual bound for a single library call that must not block (borrow, detach).
const CALL_S: u64 = 500;
/// Virtual bound for waiting for the final phase.
const FINAL_WAIT_S: u64 = 60_000;
/// Event subscribers: how long a `recv` may stay pending at quiescence before it counts as pending.
const DRAIN_S: u64 = 100;

async fn pause(code: u8) {
    match code {
        0 => {}
        1..=8 => sim::ticks(code as u32).await,
        9 => tokio::time::sleep(Duration::from_millis(1)).await,
        10 => tokio::time::sleep(Duration::from_millis(20)).await,
        11 => tokio::time::sleep(Duration::from_millis(300)).await,
        _ => tokio::time::sleep(Duration::from_millis(1000)).await,
    }
}

fn cyc(v: &[u8], i: usize) -> u8 {
    if v.is_empty() {
        0
    } else {
        v[i % v.len()]
    }
}

async fn wait_final(sh: &Shared) {
    let mut rx = sh.fin.clone();
    let _ = sim::within(FINAL_WAIT_S, rx.wait_for(|v| *v)).await;
}

async fn mirror_actor<K: Kind>(idx: usize, sub: K::Sub, sh: Arc<Shared>) {
    let spec = sh.specs[idx].clone();
    let log = sh.logs[idx].clone();
    let max_size = {
        let mut l = log.lock().unwrap();
        l.started = true;
        l.max_size
    };
    let upd = matches!(spec.mode, Mode::Mirror { upd: true, .. });
    let mut mir = K::mirror(sub, max_size);
    for j in 0..spec.n_obs as usize {
        let p = cyc(&spec.pace, j);
        pause(p).await;
        if p >= 9 {
            log.lock().unwrap().paced = true;
        }
        let r = if upd && j % 2 == 1 {
            sim::within(CALL_S, K::borrow_upd(&mut mir)).await
        } else {
            sim::within(CALL_S, K::borrow(&mir)).await
        };
        match r {
            Err(()) => {
                log.lock().unwrap().hang = Some("borrow() did not return".into());
                sh.active.fetch_sub(1, Ordering::SeqCst);
                return;
            }
            Ok(Ok((view, guard))) => {
                log.lock().unwrap().obs.push(Ob::Ok { view, fin: false });
                // Updates are paused while the guard is held.
                pause(cyc(&spec.hold, j)).await;
                drop(guard);
            }
            Ok(Err(e)) => log.lock().unwrap().obs.push(Ob::Err { e: ek(&e), fin: false }),
        }
    }
    sh.active.fetch_sub(1, Ordering::SeqCst);
    wait_final(&sh).await;
    for _ in 0..2 {
        match sim::within(CALL_S, K::borrow(&mir)).await {
            Err(()) => {
                log.lock().unwrap().hang = Some("borrow() did not return at quiescence".into());
                return;
            }
            Ok(Ok((view, _guard))) => log.lock().unwrap().obs.push(Ob::Ok { view, fin: true }),
            Ok(Err(e)) => log.lock().unwrap().obs.push(Ob::Err { e: ek(&e), fin: true }),
        }
    }
    match sim::within(CALL_S, K::detach(mir)).await {
        Ok(s) => log.lock().unwrap().detached = Some(s),
        Err(()) => log.lock().unwrap().hang = Some("detach() did not return".into()),
    }
}

async fn events_actor<K: Kind>(idx: usize, mut sub: K::Sub, sh: Arc<Shared>) {
    let spec = sh.specs[idx].clone();
    let log = sh.logs[idx].clone();
    log.lock().unwrap().started = true;
    // This actor counts as active only while it pauses.
    sh.active.fetch_sub(1, Ordering::SeqCst);
    let mut state: Snap = Vec::new();
    if let Some(init) = K::take_initial(&mut sub) {
        state = init.clone();
        log.lock().unwrap().initial = Some(init);
    }
    let mut fin = sh.fin.clone();
    let mut after_final = false;
    for n in 0..4000usize {
        if !after_final && !*fin.borrow() && n < spec.n_obs as usize {
            let p = cyc(&spec.pace, n);
            sh.active.fetch_add(1, Ordering::SeqCst);
            pause(p).await;
            sh.active.fetch_sub(1, Ordering::SeqCst);
            if p >= 9 {
                log.lock().unwrap().paced = true;
            }
        }
        let r = {
            let mut fut = K::recv(&mut sub);
            let first = if after_final {
                None
            } else {
                tokio::select! {
                    biased;
                    r = &mut fut => Some(r),
                    _ = fin.wait_for(|v| *v) => None,
                }
            };
            match first {
                Some(r) => r,
                None => {
                    // Quiescence: whatever is buffered arrives at once; otherwise nothing will.
                    after_final = true;
                    match sim::within(DRAIN_S, &mut fut).await {
                        Ok(r) => r,
                        Err(()) => {
                            log.lock().unwrap().pending = true;
                            return;
                        }
                    }
                }
            }
        };
        match r {
            Ok(Some(ev)) => {
                let dbg = format!("{ev:?}");
                let rv = match K::fold(&mut state, &ev) {
                    Folded::Applied => Rv::Ev { kind: "event", state: state.clone(), dbg },
                    Folded::Complete => Rv::Ev { kind: "complete", state: state.clone(), dbg },
                    Folded::Done => Rv::Ev { kind: "done", state: state.clone(), dbg },
                    Folded::Invalid(msg) => Rv::Invalid { msg, dbg },
                };
                log.lock().unwrap().recvs.push(rv);
            }
            Ok(None) => {
                log.lock().unwrap().recvs.push(Rv::End);
                return;
            }
            Err(e) => {
                let k = ek(&e);
                let lagged = k == EK::Lagged;
                log.lock().unwrap().recvs.push(Rv::Err(k));
                if !lagged {
                    return;
                }
            }
        }
    }
    log.lock().unwrap().hang = Some("event subscriber did not terminate within 4000 receives".into());
}

fn spawn_sub<K: Kind>(idx: usize, sub: K::Sub, sh: &Arc<Shared>) {
    sh.active.fetch_add(1, Ordering::SeqCst);
    let h = match sh.specs[idx].mode {
        Mode::Mirror { .. } => spawn_actor(mirror_actor::<K>(idx, sub, sh.clone())),
        Mode::Events => spawn_actor(events_actor::<K>(idx, sub, sh.clone())),
    };
    sh.handles.lock().unwrap().push(h);
}

// ---------------------------------------------------------------------------------------------
// Driver
// ---------------------------------------------------------------------------------------------

#[derive(Default)]
pub struct RunOut {
    pub fails: Vec<(String, String)>,
    pub classes: Vec<String>,
    pub nontrivial: bool,
    pub inconclusive: bool,
    pub frames: u64,
}

fn gcfg(case: &Case) -> GCfg {
    let (chunk_size, receive_buffer) = [(64u32, 256u32), (1024, 4096), (16, 64)][case.cfg as usize % 3];
    GCfg {
        chunk_size,
        receive_buffer,
        max_data_size: 1 << 16,
        shared_q: 2,
        tsend_q: 2,
        trecv_q: 2,
        connect_queue: 8,
        max_ports: 128,
        max_received_ports: 32,
        timeout_s: if case.timeout { Some(60) } else { None },
    }
}

/// Largest delay of a frame on the simulated link.
const DELAY_CAP_MS: u64 = 500;

struct Conn {
    link: SimLink,
    _a: gen::Side,
    _b: gen::Side,
}

struct MutOut<K: Kind> {
    obs: Option<K::Obs>,
    hist: Vec<Snap>,
    done_called: bool,
}

async fn execute<K: Kind>(case: &Case) -> RunOut {
    let mut out = RunOut::default();
    let n_steps = case.steps.len();
    let any_remote = case.subs.iter().any(|s| s.remote);
    let (fin_tx, fin_rx) = tokio::sync::watch::channel(false);
    let sh = Arc::new(Shared {
        logs: case.subs.iter().map(|_| Arc::new(Mutex::new(SubLog::default()))).collect(),
        handles: Mutex::new(Vec::new()),
        active: AtomicUsize::new(0),
        fin: fin_rx,
        specs: case.subs.clone(),
    });

    // Connection and the channel that carries subscriptions from A (observable) to B.
    let mut conn: Option<Conn> = None;
    let (ttx, mut trx) = tokio::sync::mpsc::unbounded_channel::<(u8, K::Sub)>();
    let mut transfer_h = None;
    let mut acceptor_h = None;
    if any_remote {
        let cfg = gcfg(case);
        let (link, ea, eb) = gen::make_link(&case.sched, DELAY_CAP_MS, vec![]);
        let (a, b) = tokio::join!(
            sim::within(3000, ChMux::new(cfg.to_cfg(), ea.sink, ea.stream)),
            sim::within(3000, ChMux::new(cfg.to_cfg(), eb.sink, eb.stream))
        );
        let ((mux_a, client_a, listener_a), (mux_b, client_b, listener_b)) = match (a, b) {
            (Ok(Ok(a)), Ok(Ok(b))) => (a, b),
            _ => {
                out.fails.push(("C14/setup".into(), "chmux handshake failed".into()));
                return out;
            }
        };
        let run_a = spawn_actor(mux_a.run());
        let run_b = spawn_actor(mux_b.run());
        let a = gen::Side { client: client_a, listener: listener_a, run: run_a };
        let mut b = gen::Side { client: client_b, listener: listener_b, run: run_b };
        let (c, l) = tokio::join!(sim::within(3000, a.client.connect()), sim::within(3000, b.listener.accept()));
        let ((raw_tx, raw_rx_a), (raw_tx_b, raw_rx)) = match (c, l) {
            (Ok(Ok(c)), Ok(Ok(Some(l)))) => (c, l),
            _ => {
                out.fails.push(("C14/setup".into(), "base port setup failed".into()));
                return out;
            }
        };
        let mut btx = base::Sender::<(u8, K::Sub)>::new(raw_tx);
        let mut brx = base::Receiver::<(u8, K::Sub)>::new(raw_rx);
        if let Some(f) = &case.fault {
            let kind = match f.kind {
                // A silent link is only detectable with a connection timeout.
                FaultKind::Stall | FaultKind::StallOneWay if !case.timeout => FaultKind::Eof,
                k => k,
            };
            let dir = f.dir % 2;
            link.arm(Fault { dir, after: link.sent(dir) + f.after as u32, kind });
        }
        let sh_t = sh.clone();
        transfer_h = Some(spawn_actor(async move {
            let _keep = raw_rx_a;
            while let Some((idx, sub)) = trx.recv().await {
                match sim::within(400, btx.send((idx, sub))).await {
                    Ok(Ok(())) => {}
                    _ => sh_t.logs[idx as usize].lock().unwrap().transfer_failed = true,
                }
            }
            // Keep the channel open until the end of the case.
            wait_final(&sh_t).await;
        }));
        let sh_a = sh.clone();
        acceptor_h = Some(spawn_actor(async move {
            let _keep = raw_tx_b;
            loop {
                match sim::within(FINAL_WAIT_S, brx.recv()).await {
                    Ok(Ok(Some((idx, sub)))) => spawn_sub::<K>(idx as usize, sub, &sh_a),
                    _ => break,
                }
            }
        }));
        conn = Some(Conn { link, _a: a, _b: b });
    }

    // Mutator.
    let mutator = {
        let case = case.clone();
        let sh = sh.clone();
        spawn_actor(async move {
            let init: Vec<u32> =
                (0..case.init as u32).map(|i| if i < 8 && (case.bad_init >> i) & 1 == 1 { BAD_BASE + 10 + i } else { 10 + i }).collect();
            let mut ctx = Ctx { fresh: 100, grow_cap: None, avoid_growth_bypass: !case.allow_growth_bypass, hist: Vec::new() };
            let mut obs = K::new(init);
            ctx.hist.push(K::snap(&obs));
            for i in 0..=n_steps {
                for (si, spec) in case.subs.iter().enumerate() {
                    if spec.join_at as usize % (n_steps + 1) != i {
                        continue;
                    }
                    let len = ctx.hist.last().unwrap().len();
                    let incremental = spec.incremental || K::IS_LIST;
                    let max_size = match &spec.mode {
                        Mode::Mirror { max: MaxSel::Ample, .. } => 1000,
                        Mode::Mirror { max: MaxSel::Near(d), .. } => {
                            let m = (len as i64 + *d as i64).max(0) as usize;
                            if !case.allow_oversized_snapshot && !incremental {
                                m.max(len)
                            } else {
                                m
                            }
                        }
                        Mode::Events => usize::MAX,
                    };
                    if matches!(spec.mode, Mode::Mirror { .. }) {
                        ctx.grow_cap = Some(ctx.grow_cap.map_or(max_size, |c| c.min(max_size)));
                    }
                    let sub = K::subscribe(&obs, spec.buffer.max(1) as usize, spec.incremental);
                    {
                        let mut l = sh.logs[si].lock().unwrap();
                        l.subscribed = true;
                        l.sub_point = ctx.hist.len() - 1;
                        l.max_size = max_size;
                    }
                    if spec.remote {
                        let _ = ttx.send((si as u8, sub));
                    } else {
                        spawn_sub::<K>(si, sub, &sh);
                    }
                }
                if i < n_steps {
                    K::apply(&mut obs, &case.steps[i].op, &mut ctx);
                    pause(case.steps[i].pause).await;
                }
            }
            drop(ttx);
            let mut done_called = false;
            let obs = match case.end {
                End::Done => {
                    K::done(&mut obs);
                    done_called = true;
                    Some(obs)
                }
                End::DoneDrop => {
                    K::done(&mut obs);
                    done_called = true;
                    drop(obs);
                    None
                }
                End::Drop => {
                    drop(obs);
                    None
                }
                End::Keep => Some(obs),
            };
            MutOut::<K> { obs, hist: ctx.hist, done_called }
        })
    };
    let mo = match sim::within(20_000, mutator).await {
        Ok(Ok(m)) => m,
        Ok(Err(e)) => {
            out.fails.push(("C14/mutator-panicked".into(), format!("{e}")));
            return out;
        }
        Err(()) => {
            out.fails.push(("C14/mutator-hangs".into(), "the mutation script did not finish (mutations never block)".into()));
            return out;
        }
    };

    // Quiescence: nothing in flight on the link, no actor inside a paced phase, twice in a row.
    let link = conn.as_ref().map(|c| c.link.clone());
    let faulted = |l: &Option<SimLink>| l.as_ref().is_some_and(|l| l.fault_time_ms(0).is_some() || l.fault_time_ms(1).is_some());
    let mut quiet_rounds = 0;
    let mut fault_rounds = 0;
    let mut quiet = false;
    for _round in 0..80 {
        tokio::time::sleep(Duration::from_secs(100)).await;
        sim::ticks(50).await;
        let f = faulted(&link);
        if f {
            fault_rounds += 1;
        }
        let inflight = match &link {
            Some(l) if !f => l.sent(0) != l.delivered(0) || l.sent(1) != l.delivered(1),
            _ => false,
        };
        let idle = sh.active.load(Ordering::SeqCst) == 0 && !inflight && (!f || fault_rounds >= 5);
        if idle {
            quiet_rounds += 1;
        } else {
            quiet_rounds = 0;
        }
        if quiet_rounds >= 2 {
            quiet = true;
            break;
        }
    }
    // A fault that was active for at least 400 virtual seconds before the final observations.
    let old_fault = faulted(&link) && fault_rounds >= 5;
    if !quiet {
        out.inconclusive = true;
        out.classes.push("inconclusive:no-quiescence".into());
        return out;
    }
    let _ = fin_tx.send(true);
    let handles: Vec<JoinHandle<()>> = std::mem::take(&mut *sh.handles.lock().unwrap());
    for h in handles {
        if sim::within(CALL_S * 8, h).await.is_err() {
            out.fails.push(("C14/observer-hangs".into(), "a subscriber actor did not finish its final observations".into()));
            return out;
        }
    }
    let any_fault = faulted(&link);
    if let Some(l) = &link {
        out.frames = l.tap_len() as u64 / 2;
    }
    drop(mo.obs);
    if let Some(h) = transfer_h {
        h.abort();
    }
    if let Some(h) = acceptor_h {
        h.abort();
    }

    judge::<K>(case, &mo.hist, mo.done_called, &sh, old_fault, any_fault, &mut out);
    out
}

// ---------------------------------------------------------------------------------------------
// Oracle
// ---------------------------------------------------------------------------------------------

fn find_from(hist: &[Snap], from: usize, snap: &Snap) -> Option<usize> {
    (from..hist.len()).find(|&j| &hist[j] == snap)
}

fn judge<K: Kind>(case: &Case, hist: &[Snap], done_called: bool, sh: &Shared, old_fault: bool, any_fault: bool, out: &mut RunOut) {
    let fin_state = hist.last().unwrap().clone();
    let mut fail = |sig: &str, msg: String| out.fails.push((sig.to_string(), msg));
    let mut classes: Vec<String> = Vec::new();
    let mut nontrivial = false;

    for (si, spec) in case.subs.iter().enumerate() {
        let log = sh.logs[si].lock().unwrap().clone();
        let who = format!("{} subscriber {si} ({}, {}, buffer {})", K::NAME, if spec.remote { "remote" } else { "local" }, match &spec.mode {
            Mode::Mirror { .. } => format!("mirror max_size {}", log.max_size),
            Mode::Events => "events".into(),
        }, spec.buffer);
        if !log.subscribed {
            continue;
        }
        // Marked (unserialisable) elements in the contents at the subscription point.
        let bad_at_sub = hist[log.sub_point].iter().any(|x| is_bad(*x));
        if !log.started && spec.remote && bad_at_sub && !(spec.incremental || K::IS_LIST) {
            // The snapshot is part of the subscription, which therefore cannot be transferred at
            // all: the sender of the subscription is told so, nothing reaches the subscriber.
            classes.push("sub:unserialisable-snapshot".into());
            continue;
        }
        if !log.started {
            classes.push(if log.transfer_failed { "sub:transfer-failed".into() } else { "sub:never-arrived".into() });
            if !spec.remote || !any_fault {
                fail("C14/subscription-lost", format!("{who}: the subscription never reached its subscriber although the connection is healthy"));
            }
            continue;
        }
        if let Some(h) = &log.hang {
            fail("C14/call-hangs", format!("{who}: {h}"));
            continue;
        }
        let sp = log.sub_point;
        let loc = if spec.remote { "remote-" } else { "local-" };
        let incremental = spec.incremental || K::IS_LIST;
        // Upper bound of the number of events emitted after the subscription point.
        let events_after = hist.len() - 1 - sp + usize::from(done_called);
        let remote_fault = spec.remote && any_fault;
        let remote_old_fault = spec.remote && old_fault;
        let exceeds = |max: usize| (sp..hist.len()).any(|j| hist[j].len() > max);
        // Gap B: the initial value of a remote incremental subscription contains an element whose
        // serialisation fails; its transfer ends early. The subscriber must be told (Closed or a
        // Remote* error) and must never be shown a complete initial value.
        let unsendable = spec.remote && incremental && bad_at_sub;
        // ... and that must have happened by quiescence (unless a transport fault is too recent).
        let unsendable_due = unsendable && (!remote_fault || remote_old_fault);

        // Legitimacy of an error kind ("the corresponding error").
        let check_error = |e: &EK, lagged_before: bool, fail: &mut dyn FnMut(&str, String)| match e {
            EK::Lagged => {
                if K::IS_LIST {
                    fail("C14/list-lagged", format!("{who}: a list subscriber was reported as lagged"));
                } else if events_after <= spec.buffer.max(1) as usize {
                    fail(
                        "C14/spurious-lagged",
                        format!("{who}: Lagged although at most {events_after} events were emitted after the subscription point"),
                    );
                }
            }
            EK::Closed => {
                let legit = case.end == End::Drop || (lagged_before && case.end == End::DoneDrop) || remote_fault || unsendable;
                if !legit {
                    fail("C14/spurious-closed", format!("{who}: Closed although the collection was not dropped before done (end {:?})", case.end));
                }
            }
            EK::MaxSize(n) => {
                if *n != log.max_size || !exceeds(log.max_size) {
                    fail(
                        "C14/spurious-max-size",
                        format!("{who}: MaxSizeExceeded({n}) although the collection never had more than {} elements after the subscription point", (sp..hist.len()).map(|j| hist[j].len()).max().unwrap_or(0)),
                    );
                }
            }
            EK::InvalidIndex(i) => fail(
                "C14/event-not-applicable",
                format!("{who}: InvalidIndex({i}): an event of an unbroken event stream did not apply, the contents had diverged silently"),
            ),
            EK::Remote(s) => {
                if !remote_fault && !unsendable {
                    fail("C14/spurious-remote-error", format!("{who}: {s} on a healthy connection / local subscription"));
                }
            }
        };

        match &spec.mode {
            Mode::Mirror { .. } => {
                let mut idx = sp;
                let mut first_err: Option<EK> = None;
                let mut seen_complete = !incremental;
                let mut last_ok: Option<View> = None;
                for (oi, ob) in log.obs.iter().enumerate() {
                    match ob {
                        Ob::Ok { view, fin } => {
                            if let Some(e) = &first_err {
                                fail("C14/error-not-sticky", format!("{who}: observation {oi} is Ok({:?}) after the mirror had reported {e:?}", view.snap));
                                break;
                            }
                            if view.snap.len() > log.max_size {
                                if !incremental && hist[sp].len() > log.max_size {
                                    fail(
                                        "C14/oversized-snapshot-accepted",
                                        format!("{who}: the snapshot at the subscription point has {} elements, the mirror reports Ok with {} elements {:?}", hist[sp].len(), view.snap.len(), view.snap),
                                    );
                                } else {
                                    fail(
                                        "C14/max-size-bypassed",
                                        format!("{who}: mirror reports Ok with {} elements {:?}", view.snap.len(), view.snap),
                                    );
                                }
                                break;
                            }
                            if view.complete {
                                seen_complete = true;
                                match find_from(hist, idx, &view.snap) {
                                    Some(j) => idx = j,
                                    None => {
                                        if find_from(hist, sp, &view.snap).is_some() {
                                            fail("C14/went-backwards", format!("{who}: observation {oi} shows {:?}, an older state than the one observed before (history index {idx})", view.snap));
                                        } else {
                                            fail(
                                                "C14/silent-divergence",
                                                format!("{who}: observation {oi} is Ok({:?}), which the observed collection never contained at or after the subscription point; history {:?}", view.snap, &hist[sp..]),
                                            );
                                        }
                                        break;
                                    }
                                }
                            } else if !incremental {
                                fail("C14/silent-divergence", format!("{who}: a snapshot mirror reports is_complete() == false"));
                                break;
                            }
                            if view.done {
                                if !done_called {
                                    fail("C14/done-without-done", format!("{who}: mirror reports is_done() but done() was never called"));
                                    break;
                                }
                                if view.snap != fin_state || !view.complete {
                                    fail("C14/done-but-stale", format!("{who}: mirror reports is_done() with {:?} but the final contents are {:?}", view.snap, fin_state));
                                    break;
                                }
                            }
                            if *fin && unsendable_due {
                                fail(
                                    "C14/initial-loss-not-reported",
                                    format!("{who}: the initial value {:?} contains an element that could not be transferred, yet at quiescence the mirror reports Ok({:?}, complete={}) instead of an error", hist[sp], view.snap, view.complete),
                                );
                                break;
                            }
                            if *fin && !unsendable {
                                // Quiescence: everything that was sent has arrived.
                                if case.end == End::Drop || remote_old_fault && !view.done {
                                    fail(
                                        "C14/loss-not-reported",
                                        format!("{who}: the mirror still reports Ok({:?}, done={}) at quiescence although {}", view.snap, view.done, if case.end == End::Drop { "the collection was dropped before done" } else { "the connection failed" }),
                                    );
                                    break;
                                }
                                if !remote_fault && (!view.complete || view.snap != fin_state) {
                                    fail(
                                        "C14/stale-silent",
                                        format!("{who}: at quiescence the mirror reports Ok({:?}, complete={}) but the collection contains {:?}", view.snap, view.complete, fin_state),
                                    );
                                    break;
                                }
                            }
                            last_ok = Some(view.clone());
                        }
                        Ob::Err { e, .. } => match &first_err {
                            None => {
                                check_error(e, false, &mut fail);
                                first_err = Some(e.clone());
                            }
                            Some(f) => {
                                if f != e {
                                    fail("C14/error-not-sticky", format!("{who}: the mirror reported {f:?}, later {e:?}"));
                                    break;
                                }
                            }
                        },
                    }
                }
                if let Some(d) = &log.detached {
                    match &first_err {
                        None => {
                            if let Some(v) = &last_ok {
                                if &v.snap != d {
                                    fail("C14/detach-inconsistent", format!("{who}: detach() yields {d:?} but the last borrow showed {:?}", v.snap));
                                }
                            }
                        }
                        Some(e) => {
                            if seen_complete && find_from(hist, idx, d).is_none() {
                                fail(
                                    "C14/detach-inconsistent",
                                    format!("{who}: after {e:?} detach() yields {d:?}, not a state of the collection at or after the last consistent observation (history index {idx}); history {:?}", &hist[sp..]),
                                );
                            }
                            if K::IS_LIST && *e == EK::Closed && !remote_fault && !unsendable && d != &fin_state {
                                fail("C14/list-element-lost", format!("{who}: list mirror ended with Closed holding {d:?}, the list contained {fin_state:?}"));
                            }
                        }
                    }
                }
                match &first_err {
                    Some(e) => {
                        classes.push(format!("{loc}mirror:{}", ek_name(e)));
                        let behind = log.detached.as_ref().is_some_and(|d| d != &fin_state);
                        if *e == EK::Lagged || (matches!(e, EK::Closed | EK::Remote(_)) && behind) {
                            nontrivial = true;
                        }
                        if unsendable && matches!(e, EK::Closed | EK::Remote(_)) {
                            nontrivial = true;
                            classes.push("initfail:mirror-reported".into());
                        }
                    }
                    None => classes.push(if last_ok.as_ref().is_some_and(|v| v.done) { format!("{loc}mirror:done") } else { format!("{loc}mirror:ok") }),
                }
                if K::IS_LIST && log.paced && log.obs.iter().any(|o| matches!(o, Ob::Ok { view, fin: false } if view.snap.len() + 2 <= fin_state.len())) {
                    nontrivial = true;
                    classes.push("list:slow-subscriber".into());
                }
            }
            Mode::Events => {
                if let Some(init) = &log.initial {
                    if init != &hist[sp] {
                        fail("C14/silent-divergence", format!("{who}: take_initial() yields {init:?}, the collection contained {:?} at the subscription point", hist[sp]));
                        continue;
                    }
                }
                let mut idx = sp;
                let mut complete = !incremental;
                let mut lagged = false;
                let mut saw_done = false;
                let mut terminal: Option<String> = None;
                let mut last_state: Snap = log.initial.clone().unwrap_or_default();
                let mut bad = false;
                for (ri, rv) in log.recvs.iter().enumerate() {
                    if bad {
                        break;
                    }
                    match rv {
                        Rv::Ev { kind, state, dbg } => {
                            last_state = state.clone();
                            if saw_done {
                                fail("C14/event-after-done", format!("{who}: receive {ri} yields {dbg} after Done"));
                                bad = true;
                                continue;
                            }
                            if K::IS_LIST && !unsendable && !fin_state.starts_with(state) {
                                fail("C14/list-order", format!("{who}: after receive {ri} ({dbg}) the received elements are {state:?}, not a prefix of the list {fin_state:?}"));
                                bad = true;
                                continue;
                            }
                            if lagged {
                                // The subscriber was told that it missed events; nothing further is promised.
                                if *kind == "done" {
                                    saw_done = true;
                                }
                                continue;
                            }
                            match *kind {
                                "complete" => {
                                    complete = true;
                                    if state != &hist[sp] {
                                        fail("C14/silent-divergence", format!("{who}: InitialComplete with {state:?}, the collection contained {:?} at the subscription point", hist[sp]));
                                        bad = true;
                                    }
                                }
                                "done" => {
                                    saw_done = true;
                                    if !done_called {
                                        fail("C14/done-without-done", format!("{who}: Done received but done() was never called"));
                                        bad = true;
                                    } else if state != &fin_state || !complete {
                                        fail("C14/done-but-stale", format!("{who}: Done received with folded contents {state:?}, the final contents are {fin_state:?}"));
                                        bad = true;
                                    }
                                }
                                _ => {
                                    if complete {
                                        match find_from(hist, idx, state) {
                                            Some(j) => idx = j,
                                            None => {
                                                fail(
                                                    "C14/silent-divergence",
                                                    format!("{who}: after receive {ri} ({dbg}) the folded contents are {state:?}, which the collection never contained at or after history index {idx} (no Lagged was reported); history {:?}", &hist[sp..]),
                                                );
                                                bad = true;
                                            }
                                        }
                                    }
                                }
                            }
                        }
                        Rv::Invalid { msg, dbg } => {
                            if !lagged {
                                fail("C14/event-not-applicable", format!("{who}: receive {ri} yields {dbg}: {msg}, without a Lagged before"));
                                bad = true;
                            }
                        }
                        Rv::End => {
                            if !saw_done {
                                fail("C14/end-without-done", format!("{who}: recv() returned None without a Done event"));
                                bad = true;
                            }
                            terminal = Some("end".into());
                        }
                        Rv::Err(e) => {
                            if saw_done {
                                fail("C14/event-after-done", format!("{who}: receive {ri} yields {e:?} after Done"));
                                bad = true;
                                continue;
                            }
                            if matches!(e, EK::MaxSize(_) | EK::InvalidIndex(_)) {
                                fail("C14/unexpected-error", format!("{who}: recv() returned {e:?}"));
                                bad = true;
                                continue;
                            }
                            check_error(e, lagged, &mut fail);
                            if *e == EK::Lagged {
                                lagged = true;
                                nontrivial = true;
                            } else {
                                terminal = Some(ek_name(e));
                                if K::IS_LIST && *e == EK::Closed && !remote_fault && !unsendable && last_state != fin_state {
                                    fail("C14/list-element-lost", format!("{who}: list subscription ended with Closed after {last_state:?}, the list contained {fin_state:?}"));
                                }
                                if matches!(e, EK::Closed | EK::Remote(_)) && last_state != fin_state {
                                    nontrivial = true;
                                }
                                if unsendable && matches!(e, EK::Closed | EK::Remote(_)) {
                                    nontrivial = true;
                                    classes.push("initfail:events-reported".into());
                                }
                            }
                        }
                    }
                }
                if bad {
                    continue;
                }
                if saw_done && terminal.is_none() {
                    terminal = Some("done".into());
                }
                if log.pending && !saw_done {
                    // Nothing more arrives at quiescence.
                    let legit = case.end == End::Keep || (case.end == End::Done && lagged);
                    if unsendable_due && !lagged {
                        fail(
                            "C14/initial-loss-not-reported",
                            format!("{who}: the initial value {:?} contains an element that could not be transferred, yet recv() is still pending at quiescence without an error (complete={complete}) after {:?}", hist[sp], log.recvs.last()),
                        );
                    } else if unsendable {
                        // Nothing further is demanded here.
                    } else if remote_old_fault {
                        fail("C14/loss-not-reported", format!("{who}: recv() is still pending at quiescence although the connection failed"));
                    } else if !legit && !remote_fault {
                        fail(
                            "C14/loss-not-reported",
                            format!("{who}: recv() is still pending at quiescence (end {:?}, lagged {lagged}) after {:?}", case.end, log.recvs.last()),
                        );
                    } else if !lagged && !remote_fault && (last_state != fin_state || !complete) {
                        fail("C14/stale-silent", format!("{who}: at quiescence the folded contents are {last_state:?} (complete={complete}) but the collection contains {fin_state:?}"));
                    }
                }
                classes.push(format!("{loc}events:{}{}", terminal.unwrap_or_else(|| "pending".into()), if lagged { "+lagged" } else { "" }));
                if K::IS_LIST && log.paced && log.recvs.len() >= 4 {
                    nontrivial = true;
                    classes.push("list:slow-subscriber".into());
                }
            }
        }
    }
    out.classes.extend(classes);
    out.nontrivial = nontrivial;
}

fn ek_name(e: &EK) -> String {
    match e {
        EK::Closed => "closed".into(),
        EK::Lagged => "lagged".into(),
        EK::MaxSize(_) => "max-size".into(),
        EK::InvalidIndex(_) => "invalid-index".into(),
        EK::Remote(_) => "remote-error".into(),
    }
}

pub fn run(case: &Case) -> Outcome {
    let tape = case.sched.tape();
    let res = match case.kind {
        KindSel::Vec => sim::run_sim(case.sched.tokio_seed, &tape, case.sched.defer, execute::<VecK>(case)),
        KindSel::Deque => sim::run_sim(case.sched.tokio_seed, &tape, case.sched.defer, execute::<DequeK>(case)),
        KindSel::Map => sim::run_sim(case.sched.tokio_seed, &tape, case.sched.defer, execute::<MapK>(case)),
        KindSel::Set => sim::run_sim(case.sched.tokio_seed, &tape, case.sched.defer, execute::<SetK>(case)),
        KindSel::List => {
            KEEP_ALIVE.with(|k| k.borrow_mut().clear());
            let r = sim::run_sim(case.sched.tokio_seed, &tape, case.sched.defer, execute::<ListK>(case));
            KEEP_ALIVE.with(|k| k.borrow_mut().clear());
            r
        }
    };
    let mut out = Outcome::default();
    out.frames = res.frames;
    out.inconclusive = res.inconclusive;
    if let Some((s, m)) = res.fails.first() {
        // Divergence signatures carry the collection kind (and whether an unserialisable initial
        // element was involved), so that a known finding keyed on one of them never hides another.
        let sig = if s == "C14/silent-divergence" || s == "C14/initial-loss-not-reported" {
            format!("{s}/{:?}{}", case.kind, if case.bad_init != 0 { "/unserialisable-element" } else { "" }).to_lowercase()
                .replace("c14/", "C14/")
        } else {
            s.clone()
        };
        out.fail(sig, m.clone());
    }
    out.class(format!("kind:{:?}", case.kind));
    out.class(format!("end:{:?}", case.end));
    let any_remote = case.subs.iter().any(|s| s.remote);
    out.class(if any_remote { "link:remote" } else { "link:local-only" });
    if any_remote {
        if let Some(f) = &case.fault {
            out.class(format!("fault:{:?}", f.kind));
        }
    }
    for c in res.classes {
        out.class(c);
    }
    out.nontrivial = res.nontrivial;
    out
}


// ---------------------------------------------------------------------------------------------
// Part "apply": events that do not apply to the mirror's contents (vec, vec_deque)
// ---------------------------------------------------------------------------------------------
//
// A mirror may legitimately start from contents that differ from the observed collection: the
// initial value of the subscription was taken with `take_initial()` (the mirror then starts empty)
// or the first elements of an incremental initial value were consumed with `recv()` before
// `mirror()` was called. From then on the documented semantics are "apply every event to the
// mirror's contents"; an index-carrying event whose index is out of range for these contents does
// not apply and must surface as `RecvError::InvalidIndex`, never be skipped.
//
// The events that the library emitted are recorded by a witness subscription (snapshot, ample
// buffer) on the same observable; the model applies them with `Kind::fold`, whose applicability
// rules are those of std: Vec/VecDeque::insert(i) needs i <= len; indexing, Vec::remove,
// Vec::swap_remove need i < len; VecDeque::remove / swap_remove_back / swap_remove_front return
// None for i >= len (the observable emits no event then, so such an event never applies); pop on
// empty contents, truncate beyond the length, resize, fill, retain, clear always apply.

/// Event buffer of the subscriptions of this part: never overflows.
const A_BUFFER: usize = 4096;
/// `max_size` of the mirror of this part: never reached.
const A_MAX_SIZE: usize = 100_000;

#[derive(Clone, Debug, Serialize, Deserialize, PartialEq, Eq, Hash)]
pub enum StartA {
    /// Snapshot subscription, `take_initial()` before `mirror()`: the mirror starts empty.
    TakeInitial,
    /// Incremental subscription with this many results of `recv()` consumed before `mirror()`
    /// (capped at initial length + 1, the last one being `InitialComplete`).
    Consumed(u8),
}

#[derive(Clone, Copy, Debug, Serialize, Deserialize, PartialEq, Eq, Hash)]
pub enum EndA {
    Done,
    Keep,
    Drop,
}

#[derive(Clone, Debug, Serialize, Deserialize, PartialEq, Eq, Hash)]
pub struct CaseA {
    pub deque: bool,
    /// Initial number of elements.
    pub init: u8,
    pub start: StartA,
    pub steps: Vec<Step>,
    /// Bit (i % 32): the mirror is observed after step i.
    pub looks: u32,
    pub end: EndA,
    pub sched: Sched,
}

fn op_strategy_a() -> BoxedStrategy<Op> {
    prop_oneof![
        4 => any::<u8>().prop_map(Op::Push),
        2 => any::<u8>().prop_map(Op::Pop),
        5 => any::<u8>().prop_map(Op::Insert),
        5 => any::<u8>().prop_map(Op::Set),
        4 => any::<u8>().prop_map(Op::Remove),
        4 => any::<u8>().prop_map(Op::SwapRemove),
        1 => Just(Op::Fill),
        1 => any::<u8>().prop_map(Op::Resize),
        1 => any::<u8>().prop_map(Op::Truncate),
        1 => any::<u8>().prop_map(Op::Retain),
        1 => Just(Op::Clear),
        1 => any::<u8>().prop_map(Op::Extend),
        1 => any::<u8>().prop_map(Op::IterMut),
    ]
    .boxed()
}

pub fn strategy_a(tier: Tier) -> BoxedStrategy<CaseA> {
    let max_steps = tier.pick(16usize, 28usize);
    (
        any::<bool>(),
        0u8..=6,
        prop_oneof![2 => Just(StartA::TakeInitial), 1 => Just(StartA::Consumed(0)), 3 => Just(StartA::Consumed(1)), 3 => (2u8..=7).prop_map(StartA::Consumed)],
        proptest::collection::vec((op_strategy_a(), pause_code()).prop_map(|(op, pause)| Step { op, pause }), 1..=max_steps),
        any::<u32>(),
        prop_oneof![2 => Just(EndA::Done), 1 => Just(EndA::Keep), 2 => Just(EndA::Drop)],
        sched(false),
    )
        .prop_map(|(deque, init, start, steps, looks, end, sched)| {
            // Development knob: C14_ONLY_KIND=Vec|Deque restricts the collection kind.
            let deque = match std::env::var("C14_ONLY_KIND").ok().as_deref() {
                Some("Vec") => false,
                Some("Deque") => true,
                _ => deque,
            };
            CaseA { deque, init, start, steps, looks, end, sched }
        })
        .boxed()
}

fn ev_name(dbg: &str) -> String {
    dbg.split(|c: char| !c.is_alphanumeric()).next().unwrap_or("").to_string()
}

async fn execute_a<K: Kind>(case: &CaseA) -> RunOut {
    let mut out = RunOut::default();
    macro_rules! bail {
        ($sig:expr, $($arg:tt)*) => {{
            out.fails.push(($sig.to_string(), format!($($arg)*)));
            return out;
        }};
    }
    let init: Vec<u32> = (0..case.init as u32).map(|i| 10 + i).collect();
    let mut ctx = Ctx { fresh: 100, grow_cap: None, avoid_growth_bypass: false, hist: Vec::new() };
    let mut obs = K::new(init.clone());
    ctx.hist.push(K::snap(&obs));

    // Witness: records the events emitted by the observable.
    let mut wit = K::subscribe(&obs, A_BUFFER, false);
    match K::take_initial(&mut wit) {
        Some(i) if i == init => {}
        other => bail!("C14/silent-divergence", "{}: take_initial() of the witness yields {other:?}, the collection contains {init:?}", K::NAME),
    }

    // Subject: a mirror that starts from contents m0.
    let m0: Snap;
    let sub = match &case.start {
        StartA::TakeInitial => {
            let mut sub = K::subscribe(&obs, A_BUFFER, false);
            match K::take_initial(&mut sub) {
                Some(i) if i == init => {}
                other => bail!("C14/silent-divergence", "{}: take_initial() yields {other:?}, the collection contains {init:?}", K::NAME),
            }
            m0 = Vec::new();
            out.classes.push(if init.is_empty() { "a:start:in-sync".into() } else { "a:start:take-initial".into() });
            sub
        }
        StartA::Consumed(k) => {
            let mut sub = K::subscribe(&obs, A_BUFFER, true);
            let k = (*k as usize).min(init.len() + 1);
            let mut got: Snap = Vec::new();
            for j in 0..k {
                match sim::within(CALL_S, K::recv(&mut sub)).await {
                    Err(()) => bail!("C14/call-hangs", "{}: recv() of initial element {j} of {} did not return", K::NAME, init.len()),
                    Ok(Ok(Some(ev))) => match K::fold(&mut got, &ev) {
                        Folded::Applied if j < init.len() && got[..] == init[..=j] => {}
                        Folded::Complete if j == init.len() => {}
                        _ => bail!("C14/silent-divergence", "{}: result {j} of the incremental initial value {init:?} is {ev:?}", K::NAME),
                    },
                    Ok(other) => bail!("C14/silent-divergence", "{}: result {j} of the incremental initial value {init:?} is {other:?}", K::NAME),
                }
            }
            m0 = init[k.min(init.len())..].to_vec();
            let class = if m0 == init {
                "a:start:in-sync"
            } else if k > init.len() {
                "a:start:consumed-all"
            } else {
                "a:start:consumed-part"
            };
            out.classes.push(class.to_string());
            sub
        }
    };
    let mir = K::mirror(sub, A_MAX_SIZE);

    // Mutations, with observations of the mirror in between.
    let mut looks: Vec<Ob> = Vec::new();
    for (i, step) in case.steps.iter().enumerate() {
        K::apply(&mut obs, &step.op, &mut ctx);
        pause(step.pause).await;
        if (case.looks >> (i % 32)) & 1 == 1 {
            match sim::within(CALL_S, K::borrow(&mir)).await {
                Err(()) => bail!("C14/call-hangs", "{}: borrow() did not return", K::NAME),
                Ok(Ok((view, _guard))) => looks.push(Ob::Ok { view, fin: false }),
                Ok(Err(e)) => looks.push(Ob::Err { e: ek(&e), fin: false }),
            }
        }
    }
    let fin_state = K::snap(&obs);
    match case.end {
        EndA::Done => K::done(&mut obs),
        EndA::Keep => {}
        EndA::Drop => {}
    }
    let kept = if case.end == EndA::Drop {
        drop(obs);
        None
    } else {
        Some(obs)
    };
    // Everything is local: once all tasks are idle (the paused clock only advances then) every
    // emitted event has been processed.
    tokio::time::sleep(Duration::from_secs(10)).await;
    sim::ticks(20).await;
    tokio::time::sleep(Duration::from_secs(10)).await;

    // The emitted events.
    let mut events: Vec<K::Ev> = Vec::new();
    let mut wit_state = init.clone();
    let mut wit_done = false;
    for _ in 0..(A_BUFFER + 8) {
        match sim::within(DRAIN_S, K::recv(&mut wit)).await {
            Err(()) => break,
            Ok(Ok(Some(ev))) => {
                match K::fold(&mut wit_state, &ev) {
                    Folded::Applied => {}
                    Folded::Done => {
                        wit_done = true;
                        break;
                    }
                    Folded::Complete => bail!("C14/silent-divergence", "{}: snapshot witness received InitialComplete", K::NAME),
                    Folded::Invalid(msg) => bail!("C14/event-not-applicable", "{}: in-sync witness subscription received {ev:?}: {msg}", K::NAME),
                }
                events.push(ev);
            }
            Ok(Ok(None)) => break,
            Ok(Err(e)) => {
                if !(matches!(e, RecvError::Closed) && case.end == EndA::Drop) {
                    bail!("C14/spurious-error", "{}: witness subscription (buffer {A_BUFFER}) received {e:?}, end {:?}", K::NAME, case.end);
                }
                break;
            }
        }
    }
    if wit_state != fin_state || wit_done != (case.end == EndA::Done) {
        bail!(
            "C14/silent-divergence",
            "{}: folding the {} events received by an in-sync witness yields {wit_state:?} (done={wit_done}), the collection contains {fin_state:?} (end {:?})",
            K::NAME,
            events.len(),
            case.end
        );
    }

    // Model: apply every event to the mirror's contents.
    let mut model = m0.clone();
    let mut states: Vec<Snap> = vec![m0.clone()];
    let mut invalid: Option<(usize, String, String)> = None;
    let mut indexed_applied = 0usize;
    for (n, ev) in events.iter().enumerate() {
        let dbg = format!("{ev:?}");
        match K::fold(&mut model, ev) {
            Folded::Applied => {
                if matches!(ev_name(&dbg).as_str(), "Insert" | "Set" | "Remove" | "SwapRemove" | "SwapRemoveBack" | "SwapRemoveFront") {
                    indexed_applied += 1;
                }
                states.push(model.clone());
            }
            Folded::Invalid(msg) => {
                invalid = Some((n, dbg, msg));
                break;
            }
            Folded::Complete | Folded::Done => unreachable!(),
        }
    }
    let last = states.last().unwrap().clone();
    let who = format!("{} mirror started from {m0:?} while the collection contained {init:?} ({:?})", K::NAME, case.start);
    let story = match &invalid {
        Some((n, dbg, msg)) => format!("event {n} of {} ({dbg}) does not apply: {msg}; contents before it {last:?}", events.len()),
        None => format!("all {} events apply, final contents {last:?}", events.len()),
    };

    // Final observations.
    let mut obs_all = looks;
    for _ in 0..2 {
        match sim::within(CALL_S, K::borrow(&mir)).await {
            Err(()) => bail!("C14/call-hangs", "{who}: borrow() did not return at quiescence"),
            Ok(Ok((view, _guard))) => obs_all.push(Ob::Ok { view, fin: true }),
            Ok(Err(e)) => obs_all.push(Ob::Err { e: ek(&e), fin: true }),
        }
    }
    let detached = match sim::within(CALL_S, K::detach(mir)).await {
        Ok(s) => s,
        Err(()) => bail!("C14/call-hangs", "{who}: detach() did not return"),
    };
    drop(kept);

    // Judgement.
    let mut idx = 0usize;
    let mut first_err: Option<EK> = None;
    for (oi, ob) in obs_all.iter().enumerate() {
        match ob {
            Ob::Ok { view, fin } => {
                if let Some(e) = &first_err {
                    bail!("C14/error-not-sticky", "{who}: observation {oi} is Ok({:?}) after the mirror had reported {e:?}", view.snap);
                }
                if view.complete {
                    match (idx..states.len()).find(|&j| states[j] == view.snap) {
                        Some(j) => idx = j,
                        None => bail!(
                            "C14/apply-divergence",
                            "{who}: observation {oi} is Ok({:?}), which is not among the contents obtained by applying the emitted events in order (from model state {idx}: {:?}); {story}; events {:?}",
                            view.snap,
                            &states[idx..],
                            events
                        ),
                    }
                }
                if view.done && invalid.is_none() && (case.end != EndA::Done || view.snap != last) {
                    bail!("C14/done-but-stale", "{who}: is_done() with {:?}; {story}", view.snap);
                }
                if *fin || view.done {
                    if let Some((_, dbg, _)) = &invalid {
                        bail!(
                            "C14/invalid-index-missing",
                            "{who}: the mirror reports Ok({:?}, done={}) after all events although {story}: {dbg} was skipped or applied differently instead of InvalidIndex; events {:?}",
                            view.snap,
                            view.done,
                            events
                        );
                    }
                    if case.end == EndA::Drop {
                        bail!("C14/loss-not-reported", "{who}: Ok({:?}) at quiescence although the collection was dropped before done", view.snap);
                    }
                    if !view.complete || view.snap != last || view.done != (case.end == EndA::Done) {
                        bail!(
                            "C14/stale-silent",
                            "{who}: at quiescence the mirror reports Ok({:?}, complete={}, done={}); {story}",
                            view.snap,
                            view.complete,
                            view.done
                        );
                    }
                }
            }
            Ob::Err { e, .. } => {
                match &first_err {
                    Some(f) if f != e => bail!("C14/error-not-sticky", "{who}: the mirror reported {f:?}, later {e:?}"),
                    Some(_) => continue,
                    None => {}
                }
                match (e, &invalid) {
                    (EK::InvalidIndex(_), Some(_)) => {}
                    (EK::InvalidIndex(i), None) => {
                        bail!("C14/spurious-invalid-index", "{who}: InvalidIndex({i}) although {story}; events {:?}", events)
                    }
                    (EK::Closed, None) if case.end == EndA::Drop => {}
                    (other, _) => bail!("C14/spurious-error", "{who}: the mirror reports {other:?}; {story}; end {:?}", case.end),
                }
                first_err = Some(e.clone());
            }
        }
    }
    match (&first_err, &invalid) {
        (None, Some(_)) => unreachable!("final observations are Ok only without a non-applicable event"),
        (Some(_), _) | (None, None) => {
            // The last consistent contents stay retrievable: exactly the contents before the
            // event that did not apply (or the final contents).
            if detached != last {
                bail!("C14/detach-inconsistent", "{who}: detach() yields {detached:?}; {story} (error {first_err:?})");
            }
        }
    }
    match &invalid {
        Some((_, dbg, _)) => {
            out.classes.push(format!("a:invalid:{}", ev_name(dbg)));
            out.classes.push(format!("a:valid-prefix:{}", match states.len() - 1 { 0 => "0", 1..=3 => "1-3", _ => "4+" }));
            out.nontrivial = true;
        }
        None => {
            out.classes.push(if m0 == init { "a:all-applied:in-sync".into() } else { "a:all-applied:diverged-start".into() });
            out.nontrivial = m0 != init && indexed_applied > 0;
        }
    }
    out.classes.push(format!("a:end:{:?}", case.end));
    out
}

pub fn run_a(case: &CaseA) -> Outcome {
    let tape = case.sched.tape();
    let res = if case.deque {
        sim::run_sim(case.sched.tokio_seed, &tape, case.sched.defer, execute_a::<DequeK>(case))
    } else {
        sim::run_sim(case.sched.tokio_seed, &tape, case.sched.defer, execute_a::<VecK>(case))
    };
    let mut out = Outcome::default();
    out.inconclusive = res.inconclusive;
    if let Some((s, m)) = res.fails.first() {
        out.fail(s.clone(), m.clone());
    }
    out.class(if case.deque { "a:kind:Deque" } else { "a:kind:Vec" });
    for c in res.classes {
        out.class(c);
    }
    out.nontrivial = res.nontrivial;
    out
}

pub const RULE_A: &str = "part apply: cases = (vec or vec_deque with 0-6 initial elements; a local subscription whose initial value is removed with take_initial(), or an incremental subscription with 0..len+1 results consumed by recv(), before mirror(max_size ample) is called, so that the mirror starts from contents that differ from the collection; 1-16 (thorough 28) mutations biased towards index-carrying ones with generated pauses and borrow() observations in between; end = done / kept / dropped; schedule). oracle = the events emitted by the library (recorded by an in-sync witness subscription, whose fold must reproduce the collection) are applied in order to the mirror's start contents by the reference interpreter (std semantics: insert needs i <= len; set / remove / swap_remove* need i < len; pop on empty, truncate, resize, fill, retain, clear always apply): every complete Ok observation equals a model state, indices never decrease; at quiescence the mirror shows the model's final contents (done iff done()), or Closed after a drop; if an event does not apply to the model, the mirror must report InvalidIndex at quiescence and from the first error on, never another error, and detach() yields exactly the contents before that event; InvalidIndex never when all events apply. non-trivial = an emitted event did not apply to the model, or the mirror started from different contents and at least one index-carrying event applied";

pub const RULE: &str = "cases = (collection kind vec/vec_deque/hash_map/hash_set/list, initial size 0-6, script of <=28 (thorough 40) mutations over the mutating API executed in bursts with generated pauses, 1-3 subscribers each with join point, local or through a simulated chmux connection, snapshot or incremental, event buffer 1-4 (sometimes 8/64), mirror with max_size ample or within -1..+4 of the size at the join point observed by borrow/borrow_and_update with guards held for generated times and finally detach, or event-wise recv at a generated pace folded by hand; end = done / done+drop / drop without done / kept alive; optional transport fault SinkError/StreamError/Eof/Stall after a generated frame; in 2 of 7 cases some initial elements are marked unserialisable (Serialize of the element fails), so the initial value of a remote incremental subscription taken while they are present cannot be transferred; delivery schedule). oracle = recorded history of the observable's contents after every event: every Ok observation of a complete mirror (and every hand-folded state of an unlagged event stream) equals a history state at or after the subscription point, indices never decrease, is_done/Done only with the final contents, Ok never with more than max_size elements, an error is the corresponding one (Lagged only if more events than the buffer holds were emitted, never for lists; Closed only after a drop before done; MaxSizeExceeded only if the collection exceeded the limit; Remote* only after a transport fault; InvalidIndex never), errors are sticky, detach() after an error yields a history state not older than the last consistent observation, at quiescence (nothing in flight, no actor active) a mirror without error shows the final contents and a drop before done or a failed connection has been reported; list subscribers receive a prefix of the list in order and everything before Closed/Done; a remote incremental subscriber whose initial value contains an unserialisable element never sees a complete initial value that is not a history state, may be told Closed or Remote*, and must have been told an error by quiescence. non-trivial = a subscriber actually received Lagged, or a Closed/Remote* error landed while its contents were behind the final contents, or a timer-paced list subscriber was observed at least 2 elements behind / received >= 4 results, or the untransferable initial value was reported as an error; distinct = distinct case hash";

pub fn main(tier: Tier, seed: u64) -> Report {
    let mut rep = Report::new("C14", tier, seed);
    rep.rule = format!("{RULE}. {RULE_A}");
    rep.assumptions = vec![
        "single-threaded deterministic simulation; task-level interleavings only".into(),
        "quiescence = no frame in flight and no harness actor in a paced phase at two idle moments 100 virtual seconds apart; obligations to have reported a failed connection apply only to faults older than 400 virtual seconds".into(),
        "hash-based collections iterate in process-random order (retain, iter_mut, incremental initial value): intermediate states are recorded from inside the callbacks, so the oracle is exact, but replays of such cases may take a different path".into(),
        format!("generator exclusions: growth past max_size by insert/resize avoided = {EXCLUDE_GROWTH_BY_INSERT_RESIZE_PAST_MAX_SIZE} (finding C14/max-size-bypassed, D7); snapshot larger than max_size avoided = {EXCLUDE_OVERSIZED_INITIAL_SNAPSHOT}"),
        "mirror-of-mirror subscriptions (Mirrored*::subscribe) are exercised by C13 only".into(),
        format!("unserialisable elements occur only in the initial contents; for lists excluded = {EXCLUDE_UNSERIALISABLE_LIST_ELEMENTS}"),
        "part apply: pop on empty contents, truncate beyond the length, resize, fill, retain and clear are modelled as always applicable (std semantics), only index-carrying events can fail to apply".into(),
    ];
    // Development knob: C14_ONLY_PART=robs|apply runs one generated part only.
    let only = std::env::var("C14_ONLY_PART").ok();
    let regress: Vec<Case> = runner::load_regress::<Case>("C14", "robs").into_iter().map(|(_, c)| c).collect();
    if !regress.is_empty() {
        runner::run_cases(&mut rep, "regress-robs", regress, run);
    }
    if only.as_deref() != Some("apply") {
        runner::run_generated(&mut rep, "robs", tier.pick(50_000, 2_000_000), || strategy(tier), run);
    }
    if only.as_deref() == Some("robs") {
        return rep;
    }
    let regress_a: Vec<CaseA> = runner::load_regress::<CaseA>("C14", "apply").into_iter().map(|(_, c)| c).collect();
    if !regress_a.is_empty() {
        runner::run_cases(&mut rep, "regress-apply", regress_a, run_a);
    }
    runner::run_generated(&mut rep, "apply", tier.pick(20_000, 1_000_000), || strategy_a(tier), run_a);
    rep
}

pub fn replay(part: &str, case: serde_json::Value) -> (Option<runner::Failure>, u32, u32) {
    let n = runner::replay_times(3);
    if part == "apply" || part == "regress-apply" {
        let c: CaseA = serde_json::from_value(case).expect("replay case does not parse as C14 apply case");
        let (f, h) = runner::replay_case(&c, run_a, n);
        return (f, h, n);
    }
    let c: Case = serde_json::from_value(case).expect("replay case does not parse as C14 case");
    let (f, h) = runner::replay_case(&c, run, n);
    (f, h, n)
}
